(* Model/ConvDB.v, executable witnesses: a checker for batch_wf_d, and histories with
   default backends that meet the premises of model_history_d_obs (the owner of the default
   host's root path is deleted and the next ingress takes over; an ingress with a default
   backend and a rule without host is created). *)
From Coq Require Import List Bool String ZArith Lia Relations.
From HI Require Import Model.Tracker Model.Conv Model.ConvDB Proofs.Tracker Proofs.IncSync Proofs.Conv
                       Proofs.ConvSort Proofs.ConvHist_base Proofs.ConvHist_keys Proofs.ConvHist_sim
                       Proofs.ConvBack Proofs.ConvHist Proofs.ConvHist_multi Proofs.ConvBack_multi
                       Proofs.ConvDB_base Proofs.ConvDB Proofs.ConvDB_hist.
Import ListNotations.
Open Scope string_scope.

Definition d_inb (d : dingress) (l : list dingress) : bool :=
  if in_dec dingress_eq_dec d l then true else false.

Lemma d_inb_In d l : d_inb d l = true <-> In d l.
Proof. unfold d_inb. destruct (in_dec dingress_eq_dec d l); split; auto; discriminate. Qed.

Definition batch_wf_db (w w' : dworld) (b : dbatch) : bool :=
  let nw := map dname (dw_ings w) in
  let nw' := map dname (dw_ings w') in
  nodupb nw && nodupb nw' &&
  forallb (fun d => d_inb d (dw_ings w) || d_inb d (db_add b) || d_inb d (db_upd b)) (dw_ings w') &&
  forallb (fun n => namein n nw' || namein n (db_del b)) nw &&
  forallb (fun n => negb (namein n nw') || namein n (map dname (db_add b))) (db_del b) &&
  forallb (fun d => namein (dname d) (db_del b) || namein (dname d) (map dname (db_upd b))
                    || d_inb d (dw_ings w')) (db_add b) &&
  forallb (fun d => mem node_eqb (KIngress, dname d) (db_links b)) (db_add b ++ db_upd b) &&
  forallb (fun n => mem node_eqb (KIngress, n) (db_links b)) (db_del b).

Lemma batch_wf_db_sound w w' b : batch_wf_db w w' b = true -> batch_wf_d w w' b.
Proof.
  unfold batch_wf_db. intros H.
  apply andb_true_iff in H as [H L2]. apply andb_true_iff in H as [H L1].
  apply andb_true_iff in H as [H A1]. apply andb_true_iff in H as [H R1].
  apply andb_true_iff in H as [H G1]. apply andb_true_iff in H as [H N0].
  apply andb_true_iff in H as [N1 N2].
  rewrite forallb_forall in L2, L1, A1, R1, G1, N0.
  constructor.
  - apply nodupb_sound. exact N1.
  - apply nodupb_sound. exact N2.
  - intros i Hi Hn. apply N0 in Hi. apply orb_true_iff in Hi as [Hi|Hi].
    + apply orb_true_iff in Hi as [Hi|Hi].
      * apply d_inb_In in Hi. contradiction.
      * left. apply d_inb_In. exact Hi.
    + right. apply d_inb_In. exact Hi.
  - intros n Hn Hn'. apply G1 in Hn. apply orb_true_iff in Hn as [Hc|Hc].
    + apply namein_In in Hc. contradiction.
    + apply namein_In. exact Hc.
  - intros n Hn Hn'. apply R1 in Hn. apply orb_true_iff in Hn as [Hc|Hc].
    + apply negb_true_iff in Hc. apply namein_false in Hc. contradiction.
    + apply namein_In. exact Hc.
  - intros i Hi Hd Hu. apply A1 in Hi. apply orb_true_iff in Hi as [Hi|Hi].
    + apply orb_true_iff in Hi as [Hc|Hc]; apply namein_In in Hc; contradiction.
    + apply d_inb_In. exact Hi.
  - intros i Hi. apply L1 in Hi. apply (mem_In node node_eqb node_eqb_spec). exact Hi.
  - intros n Hn. apply L2 in Hn. apply (mem_In node node_eqb node_eqb_spec). exact Hn.
Qed.

Open Scope Z_scope.
(* ing1 (older) owns the root path of the default host, ing2's default backend is skipped.
   step 1: ing1 is deleted -- ing2 was tracked to the default host when it was skipped, so it
   is parsed again and takes the path.  step 2: ing0, older than both, is created with a
   default backend AND a rule without host: the rule pre-tracks the default host (H_db),
   everything is rebuilt and ing0 wins. *)
Definition r_root := {| r_path := "/app"; r_type := Prefix; r_svc := "svc1"; r_port := "80" |}.
Definition kf_ing0 : dingress :=
  {| d_ing := {| i_ns := "ns1"; i_name := "ing0"; i_stamp := 5; i_class := None; i_rules := [("", [r_root])]; i_tls := [] |};
     d_db := Some ("svc1", "80") |}.
Definition hw0 := kf_world [kf_ing1; kf_ing2].
Definition hw1 := kf_world [kf_ing2].
Definition hw2 := kf_world [kf_ing0; kf_ing2].
Definition hb1 := {| db_links := [(KIngress, "ns1/ing1")]; db_add := []; db_upd := []; db_del := ["ns1/ing1"] |}.
Definition hb2 := {| db_links := [(KIngress, "ns1/ing0")]; db_add := [kf_ing0]; db_upd := []; db_del := [] |}.
Definition dhist := [(hb1, hw1); (hb2, hw2)].

Example db_history_ok : hist_ok_d hw0 (sync_full_d hw0) dhist /\ back_det (base hw2).
Proof.
  split; [|apply back_detb_sound; vm_compute; reflexivity].
  unfold dhist. cbn [hist_ok_d].
  split; [apply batch_wf_db_sound; vm_compute; reflexivity|].
  split; [apply batch_links_ok_eb_sound; vm_compute; reflexivity|].
  split; [apply H_db_no_db; intros d []|].
  intros x1 _.
  split; [apply batch_wf_db_sound; vm_compute; reflexivity|].
  split; [apply batch_links_ok_eb_sound; vm_compute; reflexivity|].
  split; [|intros; exact I].
  apply H_db_declared. intros d [<-|[]] _. split; [left; reflexivity|left; reflexivity].
Qed.

Example db_history_by_theorem :
  exists x', run_hist_d (sync_full_d hw0) dhist = Some x' /\
             forall hn, obs_host (fst x') hn = obs_host (fst (sync_full_d hw2)) hn.
Proof. exact (model_history_d_obs hw0 dhist (proj1 db_history_ok) (proj2 db_history_ok)). Qed.

Example db_history_eval :
  obs_d (run_hist_d (sync_full_d hw0) [(hb1, hw1)]) "<default>"
    = Some (Some ([("/", Begin, [("10.1.0.1", 8080)])], None)) /\
  obs_d (Some (sync_full_d hw0)) "<default>"
    = Some (Some ([("/", Begin, [("10.1.0.2", 9090)])], None)) /\
  obs_d (run_hist_d (sync_full_d hw0) dhist) "<default>"
    = obs_d (Some (sync_full_d hw2)) "<default>" /\
  obs_d (Some (sync_full_d hw2)) "<default>"
    = Some (Some ([("/", Begin, [("10.1.0.1", 8080)]); ("/app", Prefix, [("10.1.0.1", 8080)])], None)).
Proof. vm_compute. repeat split; reflexivity. Qed.

(* the known finding violates H_db, as it must *)
Example known_finding_not_H_db : ~ H_db kf_w1 (sync_full_d kf_w0) kf_b1.
Proof.
  intros H. specialize (H kf_ing1 (or_introl eq_refl) (or_introl eq_refl)).
  assert (Hn : d_db kf_ing1 <> None) by discriminate. specialize (H Hn).
  destruct (query_links node_eqb (T1_d kf_w1 (sync_full_d kf_w0) kf_b1) (db_links kf_b1)) as [out|] eqn:E;
    [|exact (query_links_total node node_eqb node_eqb_spec _ _ E)].
  apply (query_links_reach node node_eqb node_eqb_spec _ _ _ E) in H.
  vm_compute in E. injection E as <-. cbn in H. repeat (destruct H as [H|H]; [discriminate|]). exact H.
Qed.
