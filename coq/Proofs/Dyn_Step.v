(* Whole-update facts (Model/Dyn.v step): changes outside endpoints / certificate content reload
   (C02 non_runtime_change_reloads), faults reload, no-op resyncs do not (C11 noop_no_reload). *)
From Coq Require Import List String Ascii Bool Arith ZArith NArith Lia Permutation.
From HI Require Import Model.Dyn Proofs.Dyn_Base Proofs.Dyn_Pair.
Import ListNotations.
Open Scope string_scope.

(* ------------------------------------------------------------------ field-by-field comparison *)

(* the two structs differ in the field called `name` *)
Definition differs_at (names : list string) (a b : list N) (name : string) : Prop :=
  exists i x y, nth_error names i = Some name /\ nth_error a i = Some x /\ nth_error b i = Some y /\ x <> y.

Lemma cfg_eq_except_differs : forall names blank a b name,
  cfg_eq_except names blank a b = true -> differs_at names a b name -> In name blank.
Proof.
  induction names as [|n names IH]; intros blank a b name H [i [x [y [Hn [Ha [Hb Hxy]]]]]].
  - destruct i; discriminate.
  - destruct a as [|x0 a], b as [|y0 b]; cbn [cfg_eq_except] in H; try discriminate.
    apply andb_true_iff in H. destruct H as [H0 H].
    destruct i as [|i]; cbn [nth_error] in *.
    + inversion Hn; inversion Ha; inversion Hb; subst.
      apply orb_true_iff in H0. destruct H0 as [H0|H0]; [apply mem_str_In; exact H0|].
      apply N.eqb_eq in H0. contradiction.
    + eapply IH; eauto. exists i, x, y. auto.
Qed.

(* checkBackendPair: a difference in any field of the Backend other than ID, Dynamic and
   Endpoints makes it return false, whatever the endpoints and the socket answers *)
Theorem backend_change_reloads : forall old cur resp name,
  differs_at backend_fields (b_cfg old) (b_cfg cur) name -> ~ In name pair_blank ->
  r_updated (check_backend_pair old cur resp) = false.
Proof.
  intros old cur resp name Hd Hn.
  assert (E : back_cfg_equal old cur = false).
  { destruct (back_cfg_equal old cur) eqn:E; [|reflexivity].
    exfalso. apply Hn. eapply cfg_eq_except_differs; eauto. }
  unfold check_backend_pair. rewrite E.
  destruct (Nat.ltb _ _); [reflexivity|].
  destruct (negb (b_resolver cur =? "")); [reflexivity|].
  destruct (negb (b_dyn cur)); [reflexivity|].
  destruct (dup_target (b_eps old) || dup_target (b_eps cur)); [reflexivity|].
  destruct (pair_loop _ _ _) as [ps added].
  destruct (exec_pairs _ _ ps resp 0) as [ok1 w1].
  destruct (exec_fills _ _ _ resp _) as [ok2 w2]. reflexivity.
Qed.

(* checkHostPair: a difference in any field of the Host other than the certificate's common
   name, hash and expiry makes it return false *)
Theorem host_change_reloads : forall old cur resp name,
  differs_at host_fields (h_cfg old) (h_cfg cur) name -> ~ In name host_blank ->
  fst (check_host_pair old cur resp) = false.
Proof.
  intros old cur resp name Hd Hn.
  assert (E : host_cfg_equal old cur = false).
  { destruct (host_cfg_equal old cur) eqn:E; [|reflexivity].
    exfalso. apply Hn. eapply cfg_eq_except_differs; eauto. }
  unfold check_host_pair. rewrite E.
  destruct (negb (h_file cur =? "") && negb (h_hash old =? h_hash cur) && (h_file old =? h_file cur)); [|reflexivity].
  destruct (exec_update_cert cur resp 0). reflexivity.
Qed.

(* ------------------------------------------------------------------ C02: what cannot be applied at run time reloads *)

Inductive non_runtime_change (s : step_in) : Prop :=
| nr_first : si_committed s = false -> non_runtime_change s           (* nothing loaded yet / full sync *)
| nr_other : si_other_changed s = true -> non_runtime_change s        (* global, tcp services, frontend, userlists, default backend *)
| nr_host_removed : si_host_removed s = true -> non_runtime_change s
| nr_back_removed : si_back_removed s = true -> non_runtime_change s
| nr_back_added : forall p, In p (si_backs s) -> bp_old p = None -> non_runtime_change s
| nr_host_added : forall p, In p (si_hosts s) -> hp_old p = None -> non_runtime_change s
| nr_back_field : forall p old name, In p (si_backs s) -> bp_old p = Some old ->
    differs_at backend_fields (b_cfg old) (bp_early p) name ->            (* when Shrink compares *)
    differs_at backend_fields (b_cfg old) (b_cfg (bp_cur p)) name ->     (* when the updater compares *)
    ~ In name (pair_blank ++ shrink_blank) -> non_runtime_change s
| nr_host_field : forall p old name, In p (si_hosts s) -> hp_old p = Some old ->
    differs_at host_fields (h_cfg old) (h_cfg (hp_cur p)) name ->
    ~ In name host_blank -> non_runtime_change s.

Lemma forallb_false_in : forall {A} (f : A -> bool) l x, In x l -> f x = false -> forallb f l = false.
Proof.
  intros A f l x Hin Hf. destruct (forallb f l) eqn:E; [|reflexivity].
  rewrite forallb_forall in E. rewrite E in Hf; auto.
Qed.

Lemma step_reload : forall s,
  so_reload (step s) =
  negb (si_committed s && negb (si_other_changed s) && negb (si_host_removed s) && negb (si_back_removed s) &&
        forallb hr_updated (map (host_step (si_committed s)) (si_hosts s)) &&
        forallb br_updated (map (backend_step (si_committed s)) (si_backs s))).
Proof. intros s. unfold step. destruct (_ && _); reflexivity. Qed.

Theorem non_runtime_change_reloads : forall s, non_runtime_change s -> so_reload (step s) = true.
Proof.
  intros s H. rewrite step_reload. apply negb_true_iff.
  destruct (si_committed s) eqn:Hc; [|reflexivity]. cbn [andb].
  destruct H as [H|H|H|H|p Hin Ho|p Hin Ho|p old name Hin Ho Hde Hd Hn|p old name Hin Ho Hd Hn].
  - congruence.
  - rewrite H. reflexivity.
  - rewrite H. cbn. rewrite andb_false_r. reflexivity.
  - rewrite H. cbn. rewrite !andb_false_r. reflexivity.
  - rewrite (forallb_false_in br_updated _ (backend_step true p)); [rewrite !andb_false_r; reflexivity| |].
    + apply in_map. exact Hin.
    + unfold backend_step. rewrite Ho. reflexivity.
  - rewrite (forallb_false_in hr_updated _ (host_step true p)); [rewrite !andb_false_r; reflexivity| |].
    + apply in_map. exact Hin.
    + unfold host_step. rewrite Ho. reflexivity.
  - rewrite (forallb_false_in br_updated _ (backend_step true p)); [rewrite !andb_false_r; reflexivity| |].
    + apply in_map. exact Hin.
    + unfold backend_step. rewrite Ho.
      destruct (shrink_keeps_old (shrink_view p) old) eqn:Sh.
      * exfalso. unfold shrink_keeps_old, backends_match, shrink_view in Sh. cbn [b_cfg b_eps] in Sh.
        apply andb_true_iff in Sh. destruct Sh as [_ Sh]. apply andb_true_iff in Sh. destruct Sh as [Sh _].
        apply andb_true_iff in Sh. destruct Sh as [Sh _].
        apply Hn. apply in_or_app. right.
        eapply cfg_eq_except_differs; [exact Sh|].
        destruct Hde as [i [x [y [H1 [H2 [H3 H4]]]]]]. exists i, y, x. auto.
      * cbn [br_updated]. eapply backend_change_reloads; eauto.
        intros Hb. apply Hn. apply in_or_app. left. exact Hb.
  - rewrite (forallb_false_in hr_updated _ (host_step true p)); [rewrite !andb_false_r; reflexivity| |].
    + apply in_map. exact Hin.
    + unfold host_step. rewrite Ho.
      destruct (host_same old (hp_cur p)) eqn:Sh.
      * exfalso. unfold host_same in Sh. eapply cfg_eq_except_differs in Sh; eauto.
      * pose proof (host_change_reloads old (hp_cur p) (hp_resp p) name Hd Hn) as Hf.
        destruct (check_host_pair old (hp_cur p) (hp_resp p)) as [ok w]. cbn [fst] in Hf. subst ok. reflexivity.
Qed.

(* non-vacuity: a backend whose balance algorithm changed *)
Example non_runtime_example :
  let e := mkE "srv001" "10.0.0.1" 80 "10.0.0.1:80" true 1 "" "" "" 0 "" in
  let cfg1 := map (fun n => if n =? "BalanceAlgorithm" then 1%N else 0%N) backend_fields in
  let old := mkB "b" cfg0 true 0 1 false "" 1 [e] in
  let cur := mkB "b" cfg1 true 0 1 false "" 1 [e] in
  let s := mkSI true false false false [] [mkBP (Some old) cur cfg1 (fun _ => AText "")] [] in
  differs_at backend_fields (b_cfg old) (b_cfg cur) "BalanceAlgorithm" /\ so_reload (step s) = true.
Proof.
  split; [|reflexivity]. exists 16%nat, 0%N, 1%N. repeat split; try reflexivity. discriminate.
Qed.

(* ------------------------------------------------------------------ C02: a fault anywhere reloads *)

Theorem step_fault_reloads : forall s p i,
  In p (si_backs s) ->
  (i < List.length (br_cmds (backend_step (si_committed s) p)))%nat ->
  bad_set_server (bp_resp p i) = true ->
  so_reload (step s) = true.
Proof.
  intros s p i Hin Hi Hbad. rewrite step_reload. apply negb_true_iff.
  rewrite (forallb_false_in br_updated _ (backend_step (si_committed s) p)); [rewrite !andb_false_r; reflexivity| |].
  - apply in_map. exact Hin.
  - unfold backend_step in *. destruct (bp_old p) as [old|]; [|reflexivity].
    destruct (shrink_keeps_old (shrink_view p) old); [cbn in Hi; lia|].
    destruct (si_committed s); [|reflexivity].
    cbn [br_cmds br_updated] in *. eapply dyn_fault_reloads; eauto.
Qed.

(* ------------------------------------------------------------------ C11: no-op resyncs *)

(* c is o re-created: same fields but the slot name it got and the lazily filled source address *)
Definition recreated (o c : endpoint) : Prop :=
  ep_eqb (set_srcip o (ep_srcip c)) (set_name c (ep_name o)) = true.

(* the re-created backend holds the endpoints the old one has enabled, and nothing else *)
Definition noop_eps (old cur : list endpoint) : Prop :=
  (forall c, In c cur -> exists o, In o (filter ep_enabled old) /\ ep_target o = ep_target c /\ recreated o c) /\
  (forall o, In o (filter ep_enabled old) -> exists c, In c cur /\ ep_target c = ep_target o).

Lemma pair_loop_all_matched : forall sorted cur,
  (forall o, In o sorted -> find_target (ep_target o) cur <> None) ->
  pair_loop sorted cur [] = (map (fun o => (o, find_target (ep_target o) cur)) sorted, []).
Proof.
  induction sorted as [|o rest IH]; intros cur H; [reflexivity|]. cbn [pair_loop map].
  destruct (find_target (ep_target o) cur) as [c|] eqn:F.
  - rewrite IH; [reflexivity|]. intros o' Ho'. apply H. right. exact Ho'.
  - exfalso. apply (H o); [left; reflexivity|exact F].
Qed.

Lemma exec_pairs_all_equal : forall id pre ps resp n,
  Forall (fun p => match snd p with Some c => recreated (fst p) c | None => False end) ps ->
  exec_pairs id pre ps resp n = (true, []).
Proof.
  induction ps as [|[o [c|]] ps IH]; intros resp n H; [reflexivity| |].
  - inversion H as [|? ? Hc H']; subst. cbn [fst snd] in Hc. cbn [exec_pairs].
    unfold check_endpoint_pair.
    change (ep_srcip (set_name c (ep_name o))) with (ep_srcip c).
    unfold recreated in Hc. rewrite Hc. cbn [List.length]. rewrite Nat.add_0_r, IH by exact H'. reflexivity.
  - inversion H as [|? ? Hc H']; subst. contradiction.
Qed.

Lemma filter_nil_all : forall {A} (f : A -> bool) l, (forall x, In x l -> f x = false) -> filter f l = [].
Proof.
  induction l as [|x l IH]; intros H; [reflexivity|]. cbn [filter]. rewrite (H x) by (left; reflexivity).
  apply IH. intros y Hy. apply H. right. exact Hy.
Qed.

Lemma vacated_all_some : forall (l : list endpoint) (f : endpoint -> option endpoint),
  (forall o, In o l -> f o <> None) -> vacated (map (fun o => (o, f o)) l) = [].
Proof.
  induction l as [|o l IH]; intros f H; [reflexivity|]. unfold vacated in *. cbn [map filter snd].
  destruct (f o) eqn:E; [|exfalso; apply (H o); [left; reflexivity|exact E]].
  apply IH. intros o' Ho'. apply H. right. exact Ho'.
Qed.

(* with dynamic scaling on and no DNS resolver, a re-created backend equal to the loaded one
   (same configuration, same enabled endpoints) is handled without any command and without a
   reload, for every slot layout the old one is in *)
Theorem noop_no_reload : forall old cur resp,
  back_cfg_equal old cur = true -> b_dyn cur = true -> b_resolver cur = "" ->
  dup_target (b_eps old) = false -> dup_target (b_eps cur) = false -> cur_enabled (b_eps cur) ->
  noop_eps (b_eps old) (b_eps cur) ->
  let r := check_backend_pair old cur resp in
  r_updated r = true /\ r_cmds r = [] /\ List.length (r_eps r) = List.length (b_eps old).
Proof.
  intros old cur resp Hcfg Hdyn Hres D1 D2 Hen [Hn1 Hn2]. cbv zeta.
  assert (Hcn : NoDup (map ep_target (b_eps cur))) by (apply cur_nodup_of_dup_target; auto).
  assert (Hon : NoDup (map ep_target (filter ep_enabled (b_eps old)))).
  { unfold dup_target in D1. apply has_dup_false_NoDup in D1. exact D1. }
  assert (Hle : (List.length (b_eps cur) <= List.length (b_eps old))%nat).
  { transitivity (List.length (filter ep_enabled (b_eps old))).
    - rewrite <- (map_length ep_target (b_eps cur)), <- (map_length ep_target (filter ep_enabled (b_eps old))).
      apply NoDup_incl_length; [exact Hcn|]. intros t Ht. apply in_map_iff in Ht. destruct Ht as [c [<- Hc]].
      destruct (Hn1 c Hc) as [o [Ho [Et _]]]. rewrite <- Et. apply in_map. exact Ho.
    - pose proof (filter_partition_length ep_enabled (b_eps old)). lia. }
  pose proof (no_panic old cur resp Hen) as Hnp.
  unfold check_backend_pair in *.
  destruct (Nat.ltb_spec (List.length (b_eps old)) (List.length (b_eps cur))) as [Hlt|_]; [lia|].
  rewrite Hres, Hdyn, D1, D2, Hcfg in *. cbn [String.eqb negb orb andb] in *.
  set (en := filter ep_enabled (b_eps old)) in *.
  assert (Hmatch : forall o, In o (sort_by_target en) -> find_target (ep_target o) (b_eps cur) <> None).
  { intros o Ho. eapply Permutation_in in Ho; [|apply sort_by_target_perm].
    destruct (Hn2 o Ho) as [c [Hc Et]]. rewrite <- Et.
    destruct (find_target_in (b_eps cur) c Hc) as [c' ->]. discriminate. }
  assert (Ha0 : filter (fun c => match find_target (ep_target c) en with None => true | Some _ => false end) (b_eps cur) = []).
  { apply filter_nil_all. intros c Hc. destruct (Hn1 c Hc) as [o [Ho [Et _]]]. rewrite <- Et.
    destruct (find_target_in en o Ho) as [o' ->]. reflexivity. }
  rewrite Ha0 in *.
  pose proof (pair_loop_all_matched (sort_by_target en) (b_eps cur) Hmatch) as L.
  rewrite L in *.
  set (ps := map (fun o => (o, find_target (ep_target o) (b_eps cur))) (sort_by_target en)) in *.
  assert (Hall : Forall (fun p => match snd p with Some c => recreated (fst p) c | None => False end) ps).
  { apply Forall_forall. intros [o x] Hin. unfold ps in Hin. apply in_map_iff in Hin. destruct Hin as [o0 [E Ho0]].
    inversion E; subst o0 x. cbn [fst snd].
    destruct (find_target (ep_target o) (b_eps cur)) as [c|] eqn:F; [|apply (Hmatch o Ho0); exact F].
    apply find_target_some in F. destruct F as [Hc Et].
    destruct (Hn1 c Hc) as [o' [Ho' [Et' Hr]]].
    assert (Hoen : In o en) by (eapply Permutation_in; [apply sort_by_target_perm|exact Ho0]).
    assert (o' = o) by (eapply NoDup_map_injective with (f := ep_target); eauto; congruence).
    subst o'. exact Hr. }
  rewrite (exec_pairs_all_equal (b_id cur) (b_preserve cur) ps resp 0 Hall) in *.
  cbn [combine exec_fills List.length app r_updated r_cmds r_eps r_panic] in *.
  split; [reflexivity|]. split; [reflexivity|].
  rewrite Hnp. rewrite copy_empties_length, map_length. cbn [skipn].
  assert (Hv : vacated ps = []) by (apply vacated_all_some; exact Hmatch).
  rewrite Hv, app_nil_r.
  assert (Lc : pair_loop (sort_by_target en)
                 (b_eps cur)
                 (filter (fun c => match find_target (ep_target c) (filter ep_enabled (b_eps old)) with None => true | Some _ => false end) (b_eps cur)) = (ps, [])).
  { fold en. rewrite Ha0. exact L. }
  pose proof (pairing_counts _ _ D1 Hcn _ _ Lc) as [C1 [C2 [C3 _]]].
  rewrite Hv in C2. cbn [List.length] in *. fold en in C2, C3. lia.
Qed.

(* HAProxyUpdate level: Shrink keeps the old object, or checkBackendPair applies nothing *)
Theorem noop_backend_step : forall p old,
  bp_old p = Some old ->
  back_cfg_equal old (bp_cur p) = true -> b_dyn (bp_cur p) = true -> b_resolver (bp_cur p) = "" ->
  dup_target (b_eps old) = false -> dup_target (b_eps (bp_cur p)) = false -> cur_enabled (b_eps (bp_cur p)) ->
  noop_eps (b_eps old) (b_eps (bp_cur p)) ->
  let r := backend_step true p in br_updated r = true /\ br_cmds r = [].
Proof.
  intros p old Ho Hc Hd Hr D1 D2 He Hn. cbv zeta. unfold backend_step. rewrite Ho.
  destruct (shrink_keeps_old (shrink_view p) old); [split; reflexivity|].
  cbn [br_updated br_cmds].
  destruct (noop_no_reload old (bp_cur p) (bp_resp p) Hc Hd Hr D1 D2 He Hn) as [H1 [H2 _]]. auto.
Qed.

(* dynamic scaling off or DNS resolver: an identical endpoint list is no change either *)
Theorem noop_static_no_reload : forall old cur resp,
  back_cfg_equal old cur = true -> b_eps cur = b_eps old ->
  (b_dyn cur = false \/ b_resolver cur <> "") ->
  let r := check_backend_pair old cur resp in r_updated r = true /\ r_cmds r = [].
Proof.
  intros old cur resp Hc He Hs. cbv zeta. unfold check_backend_pair. rewrite He, Hc, Nat.ltb_irrefl.
  destruct (String.eqb_spec (b_resolver cur) "") as [Er|Er]; cbn [negb].
  - destruct Hs as [Hs|Hs]; [|contradiction]. rewrite Hs. cbn [negb r_updated r_cmds].
    split; [|reflexivity]. cbn [andb]. apply eps_eqb_eq. reflexivity.
  - split; reflexivity.
Qed.

Example noop_example :
  let o1 := mkE "srv002" "10.0.0.1" 80 "10.0.0.1:80" true 1 "" "" "" 0 "" in
  let o2 := empty_endpoint 1 1 in
  let c1 := mkE "srv001" "10.0.0.1" 80 "10.0.0.1:80" true 1 "" "" "" 0 "" in
  let old := mkB "b" cfg0 true 1 1 false "" 1 [o2; o1] in
  let cur := mkB "b" cfg0 true 1 1 false "" 1 [c1] in
  noop_eps (b_eps old) (b_eps cur) /\ shrink_keeps_old cur old = false /\
  r_updated (check_backend_pair old cur (fun _ => AIOErr)) = true.
Proof.
  split; [|split; reflexivity]. split.
  - intros c [<-|[]]. eexists. split; [left; reflexivity|]. split; reflexivity.
  - intros o [<-|[]]. eexists. split; [left; reflexivity|reflexivity].
Qed.
