(* C01 for the annotations of Model/ConvAnn.v.

   Host-scoped keys (full strength, model_history_a_hostkeys): for every cluster and every
   history of well formed batches -- several events per object, annotation-only updates
   included (ann_ing_ok: an ingress whose annotations changed got an event) -- the
   declarations every host holds after the partial syncs are those of a full sync of the
   last cluster.  No premise excludes anything here: the hosts an ingress may write are all
   pre-tracked, so a host that a re-converted ingress touches was always removed first.

   Backend-scoped keys: false in general (Proofs/ConvAnn.annotations_refuted: a redeclared
   path that becomes effective acquires a backend the partial sync did not remove). *)
From Coq Require Import List Bool String ZArith Lia Relations Permutation.
From HI Require Import Model.Tracker Model.Conv Model.ConvAnn Proofs.Tracker Proofs.IncSync Proofs.Conv
                       Proofs.ConvSort Proofs.ConvHist_base Proofs.ConvHist_keys Proofs.ConvHist_sim
                       Proofs.ConvBack Proofs.ConvHist Proofs.ConvAnn.
Import ListNotations.
Open Scope string_scope.
Open Scope list_scope.

(* ---------- the host side of the store is a static function of the ingress list ---------- *)
Definition hentries (w : aworld) (h : string) (i : ingress) : list amap :=
  map (fun _ => fst (iann w i)) (filter (String.eqb h) (declared i)).

Definition run_h (es : list amap) (r : arec) : arec :=
  if ar_new r then fold_left (fun r a => add_cfg a r) es r else r.

Lemma fold_add_cfg_new es : forall r, ar_new (fold_left (fun r a => add_cfg a r) es r) = ar_new r.
Proof. induction es as [|a es IH]; intros r; cbn; [reflexivity|]. rewrite IH. reflexivity. Qed.

Lemma fold_add_cfg_cfg es : forall r, ar_cfg (fold_left (fun r a => add_cfg a r) es r) = ar_cfg r ++ List.concat es.
Proof.
  induction es as [|a es IH]; intros r; cbn [fold_left List.concat]; [rewrite app_nil_r; reflexivity|].
  rewrite IH. cbn [add_cfg ar_cfg]. rewrite app_assoc. reflexivity.
Qed.

Lemma run_h_new es r : ar_new (run_h es r) = ar_new r.
Proof. unfold run_h. destruct (ar_new r) eqn:E; [rewrite fold_add_cfg_new|]; exact E. Qed.

Lemma run_h_app e1 e2 r : run_h (e1 ++ e2) r = run_h e2 (run_h e1 r).
Proof.
  unfold run_h at 1 3. destruct (ar_new r) eqn:E.
  - unfold run_h. rewrite fold_add_cfg_new, E, fold_left_app. reflexivity.
  - unfold run_h. rewrite E. reflexivity.
Qed.

Lemma run_h_nil r : run_h [] r = r.
Proof. unfold run_h. destruct (ar_new r); reflexivity. Qed.

Lemma run_h_cfg es r : ar_cfg (run_h es r) = if ar_new r then ar_cfg r ++ List.concat es else ar_cfg r.
Proof. unfold run_h. destruct (ar_new r); [apply fold_add_cfg_cfg|reflexivity]. Qed.

Lemma contribute_other A t f t' : t' <> t -> contribute A t f t' = A t'.
Proof. intros H. unfold contribute. destruct (tgt_eqb_spec t' t); [contradiction|reflexivity]. Qed.

Lemma contribute_same A t f : contribute A t f t = if ar_new (A t) then f (A t) else A t.
Proof. unfold contribute. destruct (tgt_eqb_spec t t); [reflexivity|contradiction]. Qed.

Lemma a_add_host_at w i hn A h :
  a_add_host w i hn A (THost h) = run_h (if String.eqb h hn then [fst (iann w i)] else []) (A (THost h)).
Proof.
  unfold a_add_host. destruct (String.eqb_spec h hn) as [->|Hne].
  - rewrite contribute_same. unfold run_h. destruct (ar_new (A (THost hn))); reflexivity.
  - rewrite contribute_other by congruence. rewrite run_h_nil. reflexivity.
Qed.

Lemma a_sync_path_host w i hn x A r h : a_sync_path w i hn x A r (THost h) = A (THost h).
Proof.
  unfold a_sync_path. destruct (get_host (fst x) hn); [|reflexivity].
  destruct (has_path _ _ _); [reflexivity|]. destruct (snd (add_backend _ _ _ _ _)); [|reflexivity].
  apply contribute_other. discriminate.
Qed.

Lemma fold_async_path_host w i hn l h : forall y,
  snd (fold_left (async_path w i hn) l y) (THost h) = snd y (THost h).
Proof.
  induction l as [|r l IH]; intros y; cbn [fold_left]; [reflexivity|].
  rewrite IH. unfold async_path. cbn [snd]. apply a_sync_path_host.
Qed.

Lemma async_rule_host w i y rule h :
  snd (async_rule w i y rule) (THost h)
  = run_h (if String.eqb h (norm_host (fst rule)) then [fst (iann w i)] else []) (snd y (THost h)).
Proof. unfold async_rule. cbv zeta. rewrite fold_async_path_host. cbn [snd]. apply a_add_host_at. Qed.

Lemma map_filter_one {A} (h : string) (f : A -> string) (v : amap) (l : list A) :
  flat_map (fun a => if String.eqb h (f a) then [v] else []) l
  = map (fun _ => v) (filter (String.eqb h) (map f l)).
Proof.
  induction l as [|a l IH]; cbn [flat_map map filter]; [reflexivity|].
  destruct (String.eqb h (f a)); cbn [map app]; rewrite IH; reflexivity.
Qed.

Lemma fold_async_rule_host w i l h : forall y,
  snd (fold_left (async_rule w i) l y) (THost h)
  = run_h (map (fun _ => fst (iann w i)) (filter (String.eqb h) (map (fun r => norm_host (fst r)) l))) (snd y (THost h)).
Proof.
  induction l as [|rule l IH]; intros y; cbn [fold_left map filter]; [rewrite run_h_nil; reflexivity|].
  rewrite IH, async_rule_host, <- run_h_app. f_equal.
  destruct (String.eqb h (norm_host (fst rule))); reflexivity.
Qed.

Lemma fold_async_tls_host_host w i sec l h : forall y,
  snd (fold_left (async_tls_host w i sec) l y) (THost h)
  = run_h (map (fun _ => fst (iann w i)) (filter (String.eqb h) l)) (snd y (THost h)).
Proof.
  induction l as [|hn l IH]; intros y; cbn [fold_left filter]; [rewrite run_h_nil; reflexivity|].
  rewrite IH. unfold async_tls_host. cbn [snd]. rewrite a_add_host_at, <- run_h_app. f_equal.
  destruct (String.eqb h hn); reflexivity.
Qed.

Lemma fold_async_tls_host w i l h : forall y,
  snd (fold_left (async_tls w i) l y) (THost h)
  = run_h (map (fun _ => fst (iann w i)) (filter (String.eqb h) (flat_map fst l))) (snd y (THost h)).
Proof.
  induction l as [|blk l IH]; intros y; cbn [fold_left flat_map]; [rewrite run_h_nil; reflexivity|].
  rewrite IH. unfold async_tls. rewrite fold_async_tls_host_host, <- run_h_app. f_equal.
  rewrite filter_app, map_app. reflexivity.
Qed.

Lemma async_ingress_host w y i h :
  snd (async_ingress w y i) (THost h) = run_h (hentries w h i) (snd y (THost h)).
Proof.
  unfold async_ingress, hentries, declared.
  rewrite fold_async_tls_host, fold_async_rule_host, <- run_h_app. f_equal.
  rewrite filter_app, map_app. reflexivity.
Qed.

Lemma fold_async_host w l h : forall y,
  snd (fold_left (async_ingress w) l y) (THost h) = run_h (flat_map (hentries w h) l) (snd y (THost h)).
Proof.
  induction l as [|i l IH]; intros y; cbn [fold_left flat_map]; [rewrite run_h_nil; reflexivity|].
  rewrite IH, async_ingress_host, <- run_h_app. reflexivity.
Qed.

Lemma hentries_nodecl w h i : declares i h = false -> hentries w h i = [].
Proof.
  intros Hd. unfold hentries. replace (filter (String.eqb h) (declared i)) with (@nil string); [reflexivity|].
  symmetry. unfold declares in Hd. induction (declared i) as [|a l IH]; cbn [filter]; [reflexivity|].
  cbn [existsb] in Hd. apply orb_false_iff in Hd as [H1 H2]. rewrite H1. apply IH. exact H2.
Qed.

Lemma flat_map_filter_skip {A B} (f : A -> list B) (p : A -> bool) l :
  (forall x, In x l -> p x = false -> f x = []) -> flat_map f (filter p l) = flat_map f l.
Proof.
  induction l as [|a l IH]; intros H; cbn [filter flat_map]; [reflexivity|].
  assert (IH' : flat_map f (filter p l) = flat_map f l) by (apply IH; intros; apply H; [right|]; assumption).
  destruct (p a) eqn:E; cbn [flat_map]; rewrite IH'; [reflexivity|].
  rewrite (H a (or_introl eq_refl) E). reflexivity.
Qed.

Lemma flat_map_ext_in' {A B} (f g : A -> list B) l :
  (forall a, In a l -> f a = g a) -> flat_map f l = flat_map g l.
Proof.
  induction l as [|a l IH]; intros H; cbn [flat_map]; [reflexivity|].
  rewrite (H a (or_introl eq_refl)), IH; [reflexivity|]. intros; apply H; right; assumption.
Qed.

(* ---------- invariant ---------- *)
Definition hspec (w : aworld) (h : string) : amap :=
  List.concat (flat_map (hentries w h) (sort_ings (w_ings (aw_base w)))).

Definition hostA_ok (w : aworld) (y : ast) : Prop :=
  forall h, get_host (fst (fst y)) h <> None -> ar_cfg (snd y (THost h)) = hspec w h.

Definition InvAH (w : aworld) (y : ast) : Prop := InvO (aw_base w) (fst y) /\ hostA_ok w y.

(* an ingress whose annotations changed got an event *)
Definition ann_ing_ok (w w' : aworld) (b : batch) : Prop :=
  forall i, In i (w_ings (aw_base w)) -> In i (w_ings (aw_base w')) -> iann w i <> iann w' i ->
    In (i_full i) (map i_full (b_add b)) \/ In (i_full i) (map i_full (b_upd b)) \/ In (i_full i) (b_del b).

Lemma amap_eq_dec (a c : amap * amap) : {a = c} + {a <> c}.
Proof. repeat decide equality. Defined.

Theorem sync_full_InvAH w : InvAH w (sync_full_a w).
Proof.
  split; [rewrite sync_full_a_fst; apply sync_full_InvO|].
  intros h _. unfold sync_full_a. rewrite fold_async_host. cbn [snd]. rewrite run_h_cfg. reflexivity.
Qed.

Theorem model_partial_step_a_hostkeys w w' y b :
  InvAH w y -> batch_wf (aw_base w) (aw_base w') b -> batch_links_ok_e (aw_base w) (aw_base w') b ->
  ann_ing_ok w w' b ->
  exists y', sync_partial_a w' y b = Some y' /\ InvAH w' y'.
Proof.
  destruct y as [[s T] A]. intros [HO HA] Hok Hbl Han. cbn [fst snd] in *.
  destruct (model_partial_step_obs _ _ _ _ HO Hok Hbl) as (x' & Hp & HO').
  destruct HO as [((Hh & Hs & Hl) & Hrun & Hsec) HJ]. cbn [fst snd] in *.
  unfold sync_partial_a.
  destruct (query_remove node_eqb (fold_left (track_added_ing (aw_base w') s) (b_add b ++ b_upd b) T) (b_links b))
    as [[out T2]|] eqn:Hq.
  2:{ exfalso. unfold sync_partial in Hp. rewrite Hq in Hp. discriminate. }
  assert (Hq' : query_remove node_eqb (T1_of (aw_base w') (s, T) b) (b_links b) = Some (out, T2)) by exact Hq.
  pose proof (partial_eq _ _ _ _ _ Hok _ _ Hq') as Hpe. rewrite Hpe in Hp. injection Hp as <-.
  pose proof (ings_ok _ _ _ Hok out) as Hings.
  eexists. split; [reflexivity|]. rewrite Hings.
  set (l := filter (dirtyM_of out b) (sort_ings (w_ings (aw_base w')))).
  set (y1 := fold_left (async_ingress w') l ((remove_all s out, T2), prep (remove_all s out) A)).
  assert (Hfst : fst y1 = step_result (aw_base w') s b out T2) by (unfold y1; rewrite fold_async_fst; reflexivity).
  split; [rewrite Hfst; exact HO'|].
  intros h Hpres. rewrite Hfst in Hpres. unfold y1. rewrite fold_async_host. cbn [snd]. rewrite run_h_cfg.
  unfold prep at 1 2 3. cbn [present].
  destruct (mem node_eqb (KHost, h) out) eqn:Em.
  - (* removed and rebuilt: every declarer of h is re-synced *)
    assert (Hs1 : get_host (remove_all s out) h = None) by (unfold get_host, remove_all; rewrite Em; reflexivity).
    rewrite Hs1. cbn [blank ar_new ar_cfg app]. unfold hspec, l.
    apply (mem_In node node_eqb node_eqb_spec) in Em. f_equal.
    apply flat_map_filter_skip. intros i Hi Hd. apply hentries_nodecl.
    destruct (declares i h) eqn:Ed; [|reflexivity].
    rewrite (declarers_dirtyM _ _ _ _ _ Hok Hs Hl _ _ Hq' h i Em (proj1 (sort_ings_In _ _) Hi) Ed) in Hd. discriminate.
  - (* not removed: nobody re-synced declares it, it existed and keeps its declarations *)
    pose proof Em as Emf. apply (mem_false node node_eqb node_eqb_spec) in Emf.
    assert (Hnone : forall i, In i l -> declares i h = false).
    { intros i Hi. unfold l in Hi. apply filter_In in Hi as [Hi HdM]. apply (proj1 (sort_ings_In _ _)) in Hi.
      destruct (declares i h) eqn:Ed; [|reflexivity]. exfalso. apply Emf. apply declares_In in Ed.
      exact (dirty_host_out _ _ _ _ _ Hok Hs Hl _ _ Hq' i h Hi (dirtyM_dirty _ _ _ HdM) Ed). }
    assert (Hsame : fst (step_result (aw_base w') s b out T2) (THost h) = s (THost h)).
    { unfold step_result. rewrite fold_sync_frame by exact Hnone. cbn [fst]. unfold remove_all. rewrite Em. reflexivity. }
    assert (Hs1 : get_host (remove_all s out) h = get_host s h) by (unfold get_host, remove_all; rewrite Em; reflexivity).
    assert (Hps : get_host s h <> None) by (unfold get_host in *; rewrite <- Hsame; exact Hpres).
    pose proof (HA h Hps) as HAh. cbn [snd] in HAh.
    rewrite Hs1. destruct (get_host s h) as [c|] eqn:Esh; [|contradiction].
    cbn [ar_new ar_cfg]. rewrite HAh. unfold hspec.
    (* the declarers of h are the same ingresses with the same annotations, in the same order *)
    rewrite <- (flat_map_filter_skip (hentries w h) (fun i => declares i h)) by (intros; apply hentries_nodecl; assumption).
    rewrite <- (flat_map_filter_skip (hentries w' h) (fun i => declares i h) (sort_ings (w_ings (aw_base w'))))
      by (intros; apply hentries_nodecl; assumption).
    rewrite <- (Lh_eq _ _ _ _ _ Hok Hs Hl _ _ Hq' h Emf). f_equal.
    apply flat_map_ext_in'. intros i Hi. apply filter_In in Hi as [Hi Hd]. apply (proj1 (sort_ings_In _ _)) in Hi.
    pose proof (declarers_clean _ _ _ _ _ Hok Hs Hl _ _ Hq' h i Emf (or_introl Hi) Hd) as Hcl.
    pose proof (clean_old_in_new _ _ _ Hok out i Hi Hcl) as Hi'.
    unfold hentries. destruct (amap_eq_dec (iann w i) (iann w' i)) as [E|E]; [rewrite E; reflexivity|].
    exfalso. assert (Hd' : dirty_of out b i = true) by (apply dirty_cases; right; apply (Han i Hi Hi' E)).
    congruence.
Qed.

(* histories *)
Fixpoint hist_ok_ah (w : aworld) (h : list (batch * aworld)) : Prop :=
  match h with
  | [] => True
  | (b, w') :: r =>
      batch_wf (aw_base w) (aw_base w') b /\ batch_links_ok_e (aw_base w) (aw_base w') b /\
      ann_ing_ok w w' b /\ hist_ok_ah w' r
  end.

Theorem model_history_a_from : forall h w y,
  InvAH w y -> hist_ok_ah w h -> exists y', run_hist_a y h = Some y' /\ InvAH (last_aw w h) y'.
Proof.
  induction h as [|[b w'] r IH]; intros w y HI Hh; cbn [run_hist_a last_aw].
  - exists y. split; [reflexivity|exact HI].
  - destruct Hh as (Hok & Hbl & Han & Hrest).
    destruct (model_partial_step_a_hostkeys w w' y b HI Hok Hbl Han) as (y' & Hp & HI').
    rewrite Hp. apply IH; [exact HI'|exact Hrest].
Qed.

(* what a host shows for the host-scoped keys *)
Definition obs_hkeys (y : ast) (hn : string) : option amap :=
  match get_host (fst (fst y)) hn with None => None | Some _ => Some (ar_cfg (snd y (THost hn))) end.

Lemma InvAH_obs w y1 y2 : InvAH w y1 -> InvAH w y2 -> forall hn, obs_hkeys y1 hn = obs_hkeys y2 hn.
Proof.
  intros [HO1 HA1] [HO2 HA2] hn. unfold obs_hkeys.
  assert (Hg : get_host (fst (fst y1)) hn = get_host (fst (fst y2)) hn).
  { unfold get_host. rewrite (proj1 (proj1 (proj1 HO1)) hn), (proj1 (proj1 (proj1 HO2)) hn). reflexivity. }
  rewrite <- Hg. destruct (get_host (fst (fst y1)) hn) as [hr|] eqn:E; [|reflexivity].
  f_equal. rewrite HA1 by (rewrite E; discriminate). rewrite HA2 by (rewrite <- Hg; discriminate). reflexivity.
Qed.

Theorem model_history_a_hostkeys w0 h :
  hist_ok_ah w0 h ->
  exists y', run_hist_a (sync_full_a w0) h = Some y' /\
             forall hn, obs_hkeys y' hn = obs_hkeys (sync_full_a (last_aw w0 h)) hn.
Proof.
  intros Hh. destruct (model_history_a_from h w0 _ (sync_full_InvAH w0) Hh) as (y' & Hr & HI).
  exists y'. split; [exact Hr|]. apply (InvAH_obs (last_aw w0 h)); [exact HI|apply sync_full_InvAH].
Qed.
