(* Backend level of C01, executable witnesses.
   - checkers for batch_links_ok_e and back_det;
   - back_det is needed: two refutations of "the partial sync shows what a full sync shows"
     on clusters where one Service has two ports with the same targetPort, different names
     and different Endpoints per port name (so the shared backend d_s_9090 depends on who
     acquires it first);
   - a history with Endpoints and Service changes, by theorem and by evaluation;
   - C06 lifted to obs_host. *)
From Coq Require Import List Bool String ZArith Lia Relations Permutation.
From HI Require Import Model.Tracker Model.Conv Proofs.Tracker Proofs.IncSync Proofs.Conv
                       Proofs.ConvSort Proofs.ConvHist_base Proofs.ConvHist_keys Proofs.ConvHist_sim
                       Proofs.ConvBack Proofs.ConvHist Proofs.ConvHist_multi.
Import ListNotations.
Open Scope string_scope.

(* ---------- checkers ---------- *)
Definition opt_subs_eqb (a c : option (list subset)) : bool := if opt_subsets_eq_dec a c then true else false.

Definition batch_links_ok_eb (w w' : world) (b : batch) : bool :=
  batch_links_okb w w' b &&
  forallb (fun n => opt_subs_eqb (assoc n (w_eps w)) (assoc n (w_eps w')) || mem node_eqb (KEndpoints, n) (b_links b))
          (map fst (w_eps w) ++ map fst (w_eps w')).

Lemma batch_links_ok_eb_sound w w' b : batch_links_ok_eb w w' b = true -> batch_links_ok_e w w' b.
Proof.
  unfold batch_links_ok_eb. intros H. apply andb_true_iff in H as [H1 H2].
  rewrite forallb_forall in H2. constructor; [apply batch_links_okb_sound; exact H1|].
  intros n Hne.
  destruct (string_in_dec n (map fst (w_eps w) ++ map fst (w_eps w'))) as [Hin|Hin].
  - apply H2 in Hin. apply orb_true_iff in Hin as [Hc|Hc].
    + unfold opt_subs_eqb in Hc. destruct (opt_subsets_eq_dec _ _); [contradiction|discriminate].
    + apply (mem_In node node_eqb node_eqb_spec). exact Hc.
  - exfalso. apply Hne. rewrite !assoc_none; [reflexivity| |];
      intros Hc; apply Hin; apply in_or_app; [right|left]; exact Hc.
Qed.

Lemma sz_eq_dec (x y : string * Z) : {x = y} + {x <> y}.
Proof. decide equality; [apply Z.eq_dec|apply string_dec]. Defined.

Definition servers_eqb (a c : list (string * Z)) : bool :=
  if list_eq_dec sz_eq_dec a c then true else false.

Definition sp_pairs (w : world) : list (service * svcport) :=
  flat_map (fun svc => map (fun p => (svc, p)) (s_ports svc)) (w_svcs w).

Definition back_detb (w : world) : bool :=
  forallb (fun a => forallb (fun c =>
     negb (String.eqb (bid_of (fst a) (snd a)) (bid_of (fst c) (snd c))) ||
     servers_eqb (servers w (fst a) (snd a)) (servers w (fst c) (snd c))) (sp_pairs w)) (sp_pairs w).

Lemma sp_pairs_In w svc p : In svc (w_svcs w) -> In p (s_ports svc) -> In (svc, p) (sp_pairs w).
Proof.
  intros Hs Hp. unfold sp_pairs. apply in_flat_map. exists svc. split; [exact Hs|].
  apply in_map_iff. exists p. split; [reflexivity|exact Hp].
Qed.

Lemma back_detb_sound w : back_detb w = true -> back_det w.
Proof.
  unfold back_detb. intros H svc svc' p p' Hs Hs' Hp Hp' Hb.
  rewrite forallb_forall in H. pose proof (H _ (sp_pairs_In w svc p Hs Hp)) as H1.
  rewrite forallb_forall in H1. pose proof (H1 _ (sp_pairs_In w svc' p' Hs' Hp')) as H2.
  cbn [fst snd] in H2. apply orb_true_iff in H2 as [H2|H2].
  - apply negb_true_iff in H2. rewrite Hb, String.eqb_refl in H2. discriminate.
  - unfold servers_eqb in H2. destruct (list_eq_dec sz_eq_dec _ _) as [E|E]; [exact E|discriminate].
Qed.

(* ---------- back_det is needed ---------- *)
Open Scope Z_scope.
(* Service d/s: ports a and b both target 9090; the Endpoints list 10.0.0.1 under port
   name a and 10.0.0.2 under port name b *)
Definition eps2 := [("d/s", [ {| ss_name := "a"; ss_port := 9090; ss_ready := ["10.0.0.1"] |};
                             {| ss_name := "b"; ss_port := 9090; ss_ready := ["10.0.0.2"] |} ])].
Definition W3 (ings : list ingress) (svcs : list service) (eps : list (string * list subset)) : world :=
  {| w_ings := ings; w_svcs := svcs; w_eps := eps; w_secrets := [] |}.

Definition obs_after (o : option st) (hs : list string) :=
  match o with Some x => Some (map (obs_host (fst x)) hs) | None => None end.

(* (1) ing_a0 (oldest) owns path / of x.local; ing_dd redeclares it, with Service d/s port a,
       and is skipped; ing_k uses d/s port b on k.local and created backend d_s_9090 from
       the Endpoints of port b.  ing_a0 is deleted: ing_dd is re-synced (it shares x.local),
       its path is converted now and acquires the existing d_s_9090 -- nothing links ing_dd
       to that backend, so ing_k and the backend are not touched.  A full sync converts
       ing_dd first and builds d_s_9090 from the Endpoints of port a. *)
Definition ing_a0 := mkI "a0" 0 "x.local" r_t.
Definition ing_dd := mkI "dd" 1 "x.local" r_a.
Definition ing_k5 := mkI "k" 5 "k.local" r_b.
Definition rw0 := W3 [ing_a0; ing_dd; ing_k5] [svc2; svc_t1] eps2.
Definition rw1 := W3 [ing_dd; ing_k5] [svc2; svc_t1] eps2.
Definition rb1 := {| b_links := [(KIngress, "d/a0")]; b_add := []; b_upd := []; b_del := ["d/a0"] |}.

Example obs_unskipped_path_refuted :
  batch_wf rw0 rw1 rb1 /\ batch_links_ok_e rw0 rw1 rb1 /\
  obs_after (sync_partial rw1 (sync_full rw0) rb1) ["x.local"; "k.local"]
    = Some [Some ([("/", Prefix, [("10.0.0.2", 9090)])], None);
            Some ([("/", Prefix, [("10.0.0.2", 9090)])], None)] /\
  obs_after (Some (sync_full rw1)) ["x.local"; "k.local"]
    = Some [Some ([("/", Prefix, [("10.0.0.1", 9090)])], None);
            Some ([("/", Prefix, [("10.0.0.1", 9090)])], None)] /\
  ~ back_det rw1.
Proof.
  split; [apply batch_wfb_sound; vm_compute; reflexivity|].
  split; [apply batch_links_ok_eb_sound; vm_compute; reflexivity|].
  split; [vm_compute; reflexivity|]. split; [vm_compute; reflexivity|].
  intros H.
  specialize (H svc2 svc2 {| sp_name := "a"; sp_port := 80; sp_target := "9090" |}
                {| sp_name := "b"; sp_port := 81; sp_target := "9090" |}).
  assert (Hc : servers rw1 svc2 {| sp_name := "a"; sp_port := 80; sp_target := "9090" |}
               = servers rw1 svc2 {| sp_name := "b"; sp_port := 81; sp_target := "9090" |}).
  { apply H; vm_compute; auto. }
  vm_compute in Hc. discriminate.
Qed.

(* (2) no redeclared path: ing_n is created, older than ing_k, with an unspecified service
       port (= the first port of d/s, port a).  findBackend of trackAddedIngress looks the
       empty port up with FindServicePort, finds nothing and does not link ing_n to the
       existing backend d_s_9090; addBackendWithClass then picks port a and acquires it. *)
Definition r_e := {| r_path := "/"; r_type := Prefix; r_svc := "s"; r_port := "" |}.
Definition ing_n := mkI "n" (-1) "n.local" r_e.
Definition sw0 := W3 [ing_k5] [svc2] eps2.
Definition sw1 := W3 [ing_k5; ing_n] [svc2] eps2.
Definition sb1 := {| b_links := [(KIngress, "d/n")]; b_add := [ing_n]; b_upd := []; b_del := [] |}.

Example obs_unspecified_port_refuted :
  batch_ok sw0 sw1 sb1 /\ batch_links_ok_e sw0 sw1 sb1 /\
  obs_after (sync_partial sw1 (sync_full sw0) sb1) ["n.local"; "k.local"]
    = Some [Some ([("/", Prefix, [("10.0.0.2", 9090)])], None);
            Some ([("/", Prefix, [("10.0.0.2", 9090)])], None)] /\
  obs_after (Some (sync_full sw1)) ["n.local"; "k.local"]
    = Some [Some ([("/", Prefix, [("10.0.0.1", 9090)])], None);
            Some ([("/", Prefix, [("10.0.0.1", 9090)])], None)].
Proof.
  split; [apply batch_okb_sound; vm_compute; reflexivity|].
  split; [apply batch_links_ok_eb_sound; vm_compute; reflexivity|].
  split; vm_compute; reflexivity.
Qed.

(* with a named port the pre-tracking works: ing_k is reached through the backend, all is rebuilt *)
Definition ing_n' := mkI "n" (-1) "n.local" r_a.
Definition sw1' := W3 [ing_k5; ing_n'] [svc2] eps2.
Definition sb1' := {| b_links := [(KIngress, "d/n")]; b_add := [ing_n']; b_upd := []; b_del := [] |}.

Example obs_named_port_ok :
  obs_after (sync_partial sw1' (sync_full sw0) sb1') ["n.local"; "k.local"]
  = obs_after (Some (sync_full sw1')) ["n.local"; "k.local"].
Proof. vm_compute. reflexivity. Qed.

(* ---------- a history for the theorem: Endpoints change, Service port change, delete ---------- *)
Definition eps1' := [("d/s", [ {| ss_name := "a"; ss_port := 8080; ss_ready := ["10.0.0.1"; "10.0.0.9"] |};
                              {| ss_name := "b"; ss_port := 9090; ss_ready := ["10.0.0.2"] |} ])].
Definition ow0 := W3 [ing_k; ing_r; ing_i1] [svc1; svc_t1] eps1.
Definition ow1 := W3 [ing_k; ing_r; ing_i1] [svc1; svc_t1] eps1'.     (* a pod of port a appears *)
Definition ow2 := W3 [ing_k; ing_r; ing_i1] [svc1; svc_t2] eps1'.     (* d/t changes (skipped path) *)
Definition ow3 := W3 [ing_r; ing_i1] [svc1; svc_t2] eps1'.            (* ing_k deleted *)
Definition ob1 := {| b_links := [(KEndpoints, "d/s")]; b_add := []; b_upd := []; b_del := [] |}.
Definition ob2 := {| b_links := [(KService, "d/t")]; b_add := []; b_upd := []; b_del := [] |}.
Definition ob3 := {| b_links := [(KIngress, "d/k")]; b_add := []; b_upd := []; b_del := ["d/k"] |}.
Definition ohist := [(ob1, ow1); (ob2, ow2); (ob3, ow3)].

Example obs_history_ok : hist_ok_o ow0 ohist /\ back_det ow3.
Proof.
  split.
  - unfold ohist. cbn [hist_ok_o].
    refine (conj _ (conj _ (conj _ (conj _ (conj _ (conj _ I))))));
      first [apply batch_wfb_sound; vm_compute; reflexivity
            |apply batch_links_ok_eb_sound; vm_compute; reflexivity].
  - apply back_detb_sound. vm_compute. reflexivity.
Qed.

Example obs_history_by_theorem :
  exists x', run_hist (sync_full ow0) ohist = Some x' /\
             forall hn, obs_host (fst x') hn = obs_host (fst (sync_full ow3)) hn.
Proof. exact (model_history_obs ow0 ohist (proj1 obs_history_ok) (proj2 obs_history_ok)). Qed.

Example obs_history_eval :
  obs_after (run_hist (sync_full ow0) ohist) ["k.local"; "h1.local"]
  = Some [Some ([("/", Prefix, [])], None);
          Some ([("/", Prefix, [("10.0.0.1", 8080); ("10.0.0.9", 8080)])], None)] /\
  obs_after (Some (sync_full ow3)) ["k.local"; "h1.local"]
  = Some [Some ([("/", Prefix, [])], None);
          Some ([("/", Prefix, [("10.0.0.1", 8080); ("10.0.0.9", 8080)])], None)].
Proof. vm_compute. split; reflexivity. Qed.

(* ---------- C06 at the level of the observation ---------- *)
Theorem sync_full_perm_obs w1 w2 :
  Permutation (w_ings w1) (w_ings w2) -> NoDup (map i_full (w_ings w1)) ->
  w_svcs w1 = w_svcs w2 -> w_eps w1 = w_eps w2 -> w_secrets w1 = w_secrets w2 ->
  forall hn, obs_host (fst (sync_full w1)) hn = obs_host (fst (sync_full w2)) hn.
Proof. intros Hp Hn Hs He Hc hn. rewrite (sync_full_perm w1 w2 Hp Hn Hs He Hc). reflexivity. Qed.
