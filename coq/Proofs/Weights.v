(* Proofs about Model/Weights.v *)
From Coq Require Import ZArith List Bool Lia.
From HI Require Import Model.Weights.
Import ListNotations.
Open Scope Z_scope.

Definition wf_cluster (c : cluster) : Prop := 0 <= cw c /\ 0 <= clen c.
Definition active (c : cluster) : Prop := clen c <> 0 /\ cw c <> 0.

(* ---------- lcm_count ---------- *)

Lemma go_lcm_pos a b : 0 < a -> 0 < b -> 0 < go_lcm a b.
Proof.
  intros Ha Hb. unfold go_lcm.
  assert (Hg : 0 < Z.gcd a b) by (pose proof (Z.gcd_nonneg a b); destruct (Z.eq_dec (Z.gcd a b) 0) as [E|E]; [apply Z.gcd_eq_0_l in E; lia | lia]).
  destruct (Z.gcd_divide_r a b) as [k Hk].
  assert (b / Z.gcd a b = k) by (rewrite Hk at 1; apply Z.div_mul; lia).
  assert (0 < k) by nia. nia.
Qed.

Lemma go_lcm_div_l a b : (a | go_lcm a b).
Proof. unfold go_lcm. exists (b / Z.gcd a b). ring. Qed.

Lemma go_lcm_div_r a b : 0 < a -> 0 < b -> (b | go_lcm a b).
Proof.
  intros Ha Hb. unfold go_lcm.
  assert (Hg : 0 < Z.gcd a b) by (pose proof (Z.gcd_nonneg a b); destruct (Z.eq_dec (Z.gcd a b) 0) as [E|E]; [apply Z.gcd_eq_0_l in E; lia | lia]).
  destruct (Z.gcd_divide_r a b) as [k Hk].
  destruct (Z.gcd_divide_l a b) as [j Hj].
  assert (E : b / Z.gcd a b = k) by (rewrite Hk at 1; apply Z.div_mul; lia).
  rewrite E. exists j. nia.
Qed.

Definition lcm_inv (seen : list cluster) (acc : Z) : Prop :=
  0 <= acc /\ (forall c, In c seen -> clen c <> 0 -> 0 < acc /\ (clen c | acc)).

Lemma lcm_step_inv seen acc c :
  0 <= clen c -> lcm_inv seen acc -> lcm_inv (seen ++ [c]) (lcm_step acc c).
Proof.
  intros Hc [Hacc Hall]. unfold lcm_step.
  destruct (Z.eqb_spec (clen c) 0) as [E|E].
  - split; [exact Hacc|]. intros d Hd Hnz. apply in_app_or in Hd as [Hd|[<-|[]]]; [auto|contradiction].
  - destruct (Z.ltb_spec 0 acc) as [Hp|Hp].
    + assert (0 < go_lcm acc (clen c)) by (apply go_lcm_pos; lia).
      split; [lia|]. intros d Hd Hnz. split; [lia|].
      apply in_app_or in Hd as [Hd|[<-|[]]].
      * destruct (Hall d Hd Hnz) as [_ Hdiv]. eapply Z.divide_trans; [exact Hdiv|apply go_lcm_div_l].
      * apply go_lcm_div_r; lia.
    + assert (acc = 0) by lia. subst acc.
      split; [lia|]. intros d Hd Hnz.
      apply in_app_or in Hd as [Hd|[<-|[]]].
      * destruct (Hall d Hd Hnz); lia.
      * split; [lia|apply Z.divide_refl].
Qed.

Lemma lcm_fold_inv cls : forall seen acc,
  (forall c, In c cls -> 0 <= clen c) ->
  lcm_inv seen acc -> lcm_inv (seen ++ cls) (fold_left lcm_step cls acc).
Proof.
  induction cls as [|c cls IH]; intros seen acc Hwf Hinv; cbn [fold_left].
  - rewrite app_nil_r. exact Hinv.
  - replace (seen ++ c :: cls) with ((seen ++ [c]) ++ cls) by (rewrite <- app_assoc; reflexivity).
    apply IH; [intros d Hd; apply Hwf; right; exact Hd|].
    apply lcm_step_inv; [apply Hwf; left; reflexivity|exact Hinv].
Qed.

Lemma lcm_count_spec cls :
  (forall c, In c cls -> 0 <= clen c) ->
  0 <= lcm_count cls /\
  (forall c, In c cls -> clen c <> 0 -> 0 < lcm_count cls /\ (clen c | lcm_count cls)).
Proof.
  intros Hwf. unfold lcm_count.
  pose proof (lcm_fold_inv cls [] 0 Hwf) as H. cbn [app] in H. apply H.
  split; [lia|intros c []].
Qed.

(* exactness of the integer division in clusterWeight *)
Lemma cweight_exact L c : 0 < clen c -> (clen c | L) -> cweight L c * clen c = cw c * L.
Proof.
  intros Hl [k Hk]. unfold cweight. subst L.
  replace (cw c * (k * clen c)) with ((cw c * k) * clen c) by ring.
  rewrite Z.div_mul by lia. ring.
Qed.

Lemma cweight_pos L c : 0 < L -> 0 < clen c -> (clen c | L) -> 0 < cw c -> 0 < cweight L c.
Proof.
  intros HL Hl Hd Hw. pose proof (cweight_exact L c Hl Hd). nia.
Qed.

Lemma cweight_zero L c : cw c = 0 -> cweight L c = 0.
Proof. intros E. unfold cweight. rewrite E. reflexivity. Qed.

(* ---------- aggregate ---------- *)

(* what the second loop establishes about the clusters seen so far *)
Definition agg_inv (L : Z) (seen : list cluster) (a : agg) : Prop :=
  (forall c, In c seen -> active c -> 0 < ag a /\ 0 < amin a /\ amin a <= cweight L c <= amax a) /\
  ((forall c, In c seen -> ~ active c) -> a = agg0) /\
  (0 < ag a -> exists c1 c2, In c1 seen /\ active c1 /\ cweight L c1 = amin a /\
                             In c2 seen /\ active c2 /\ cweight L c2 = amax a) /\
  0 <= ag a.

Lemma active_dec c : {active c} + {~ active c}.
Proof.
  unfold active. destruct (Z.eq_dec (clen c) 0), (Z.eq_dec (cw c) 0); [right|right|right|left]; tauto.
Qed.

Lemma gcd_pos_l a b : 0 < a -> 0 < Z.gcd a b.
Proof.
  intros Ha. pose proof (Z.gcd_nonneg a b).
  destruct (Z.eq_dec (Z.gcd a b) 0) as [E|E]; [apply Z.gcd_eq_0_l in E; lia|lia].
Qed.

Lemma agg_inv_skip L seen a c :
  ~ active c -> agg_inv L seen a -> agg_inv L (seen ++ [c]) a.
Proof.
  intros Hna (Hall & Hnone & Hwit & Hnn). split; [|split; [|split]].
  - intros d Hd Ha. apply in_app_or in Hd as [Hd|[<-|[]]]; [apply Hall; assumption|contradiction].
  - intros Hn. apply Hnone. intros d Hd. apply Hn, in_or_app; left; exact Hd.
  - intros Hg. destruct (Hwit Hg) as (c1 & c2 & H1 & H2 & H3 & H4 & H5 & H6).
    assert (Hin : forall d, In d seen -> In d (seen ++ [c])) by (intros; apply in_or_app; left; assumption).
    exists c1, c2. exact (conj (Hin _ H1) (conj H2 (conj H3 (conj (Hin _ H4) (conj H5 H6))))).
  - exact Hnn.
Qed.

Lemma agg_step_inv L seen a c :
  (active c -> 0 < cweight L c) ->
  agg_inv L seen a -> agg_inv L (seen ++ [c]) (agg_step L a c).
Proof.
  intros Hpos Hinv. unfold agg_step.
  destruct (Z.eqb_spec (clen c) 0) as [E1|E1]; cbn [orb].
  { apply agg_inv_skip; [intros [? ?]; contradiction|exact Hinv]. }
  destruct (Z.eqb_spec (cw c) 0) as [E2|E2].
  { apply agg_inv_skip; [intros [? ?]; contradiction|exact Hinv]. }
  destruct Hinv as (Hall & Hnone & Hwit & Hnn).
  assert (Hact : active c) by (split; assumption).
  specialize (Hpos Hact).
  set (x := cweight L c) in *.
  assert (Hin : forall d, In d seen -> In d (seen ++ [c])) by (intros; apply in_or_app; left; assumption).
  assert (Hc : In c (seen ++ [c])) by (apply in_or_app; right; left; reflexivity).
  destruct (Z.ltb_spec 0 (ag a)) as [Hg|Hg].
  - (* some active cluster already seen *)
    destruct (Hwit Hg) as (c1 & c2 & H1 & H2 & H3 & H4 & H5 & H6).
    destruct (Hall c1 H1 H2) as (_ & Hminpos & Hr1).
    assert (Hmm : amin a <= amax a) by lia.
    destruct (Z.ltb_spec (amin a) 0) as [Hneg|_]; [lia|]. rewrite orb_false_r.
    split; [|split; [|split]].
    + intros d Hd Ha. cbn [ag amin amax].
      split; [apply gcd_pos_l; exact Hg|].
      apply in_app_or in Hd as [Hd|[<-|[]]].
      * destruct (Hall d Hd Ha) as (_ & _ & Hr).
        destruct (Z.ltb_spec x (amin a)), (Z.ltb_spec (amax a) x); lia.
      * fold x. destruct (Z.ltb_spec x (amin a)), (Z.ltb_spec (amax a) x); lia.
    + intros Hn. exfalso. apply (Hn c); [exact Hc|exact Hact].
    + intros _. cbn [ag amin amax].
      destruct (Z.ltb_spec x (amin a)), (Z.ltb_spec (amax a) x).
      * exists c, c. exact (conj Hc (conj Hact (conj eq_refl (conj Hc (conj Hact eq_refl))))).
      * exists c, c2. exact (conj Hc (conj Hact (conj eq_refl (conj (Hin _ H4) (conj H5 H6))))).
      * exists c1, c. exact (conj (Hin _ H1) (conj H2 (conj H3 (conj Hc (conj Hact eq_refl))))).
      * exists c1, c2. exact (conj (Hin _ H1) (conj H2 (conj H3 (conj (Hin _ H4) (conj H5 H6))))).
    + cbn [ag]. apply Z.gcd_nonneg.
  - (* first active cluster *)
    assert (Ha0 : a = agg0).
    { apply Hnone. intros d Hd Ha. destruct (Hall d Hd Ha); lia. }
    subst a. cbn [ag amin amax agg0].
    replace (x <? -1) with false by (symmetry; apply Z.ltb_ge; lia).
    cbn [orb Z.ltb Z.compare].
    replace (0 <? x) with true by (symmetry; apply Z.ltb_lt; lia).
    split; [|split; [|split]].
    + intros d Hd Ha. apply in_app_or in Hd as [Hd|[<-|[]]].
      * exfalso. destruct (Hall d Hd Ha) as [H0 _]. cbn in H0. lia.
      * cbn [ag amin amax]. fold x. lia.
    + intros Hn. exfalso. apply (Hn c); [exact Hc|exact Hact].
    + intros _. cbn [ag amin amax]. exists c, c. exact (conj Hc (conj Hact (conj eq_refl (conj Hc (conj Hact eq_refl))))).
    + cbn [ag]. lia.
Qed.

Lemma agg_fold_inv L cls : forall seen a,
  (forall c, In c cls -> active c -> 0 < cweight L c) ->
  agg_inv L seen a -> agg_inv L (seen ++ cls) (fold_left (agg_step L) cls a).
Proof.
  induction cls as [|c cls IH]; intros seen a Hpos Hinv; cbn [fold_left].
  - rewrite app_nil_r. exact Hinv.
  - replace (seen ++ c :: cls) with ((seen ++ [c]) ++ cls) by (rewrite <- app_assoc; reflexivity).
    apply IH; [intros d Hd; apply Hpos; right; exact Hd|].
    apply agg_step_inv; [apply Hpos; left; reflexivity|exact Hinv].
Qed.

Lemma aggregate_spec L cls :
  (forall c, In c cls -> active c -> 0 < cweight L c) ->
  agg_inv L cls (aggregate L cls).
Proof.
  intros Hpos. unfold aggregate.
  pose proof (agg_fold_inv L cls [] agg0 Hpos) as H. cbn [app] in H. apply H.
  split; [intros c []|]. split; [reflexivity|]. cbn. split; lia.
Qed.

Lemma new_weight_zero L a iw c : cw c = 0 -> clen c <> 0 -> new_weight L a iw c = 0.
Proof.
  intros Ew Hl. unfold new_weight, cweight. rewrite Ew.
  destruct (Z.eqb_spec (clen c) 0); [lia|].
  rewrite Z.mul_0_l, !Zdiv_0_l, Z.mul_0_r, Zdiv_0_l.
  destruct (_ <? _); reflexivity.
Qed.

(* ---------- the per-cluster result ---------- *)

Section Rebalanced.
  Variable cls : list cluster.
  Variable iw : Z.
  Hypothesis Hwf : forall c, In c cls -> wf_cluster c.
  Hypothesis Hiw : 1 <= iw <= 256.

  Let L := lcm_count cls.
  Let a := aggregate L cls.

  Lemma L_facts : 0 <= L /\ forall c, In c cls -> clen c <> 0 -> 0 < L /\ (clen c | L).
  Proof. apply lcm_count_spec. intros c Hc. apply (Hwf c Hc). Qed.

  Lemma active_pos c : In c cls -> active c -> 0 < cweight L c.
  Proof.
    intros Hc [Hl Hw]. destruct (Hwf c Hc) as [Hw0 Hl0].
    destruct L_facts as [_ HL]. destruct (HL c Hc Hl) as [HLp Hdiv].
    apply cweight_pos; try assumption; lia.
  Qed.

  Lemma a_inv : agg_inv L cls a.
  Proof. apply aggregate_spec. intros c Hc Ha. apply active_pos; assumption. Qed.

  (* the weight written for cluster c (a cluster with replicas) *)
  Definition outw (c : cluster) : Z :=
    if L =? 0 then cw c else if ag a =? 0 then cw c else new_weight L a iw c.

  Lemma rebalance_map : rebalance cls iw = map outw cls.
  Proof.
    unfold rebalance, outw. fold L. fold a.
    destruct (L =? 0); [reflexivity|]. destruct (ag a =? 0); reflexivity.
  Qed.

  Lemma ag_zero_inactive c : In c cls -> ag a = 0 -> clen c <> 0 -> cw c = 0.
  Proof.
    intros Hc Hg Hl. destruct a_inv as (Hall & _ & _ & _).
    destruct (Z.eq_dec (cw c) 0) as [E|E]; [exact E|].
    destruct (Hall c Hc (conj Hl E)). lia.
  Qed.

  Lemma outw_zero_iff c : In c cls -> 0 < clen c -> (outw c = 0 <-> cw c = 0).
  Proof.
    intros Hc Hl. destruct (Hwf c Hc) as [Hw0 _].
    destruct L_facts as [_ HL]. destruct (HL c Hc ltac:(lia)) as [HLp Hdiv].
    unfold outw. destruct (Z.eqb_spec L 0) as [E|_]; [lia|].
    destruct (Z.eqb_spec (ag a) 0) as [Eg|Eg].
    { split; [intros; apply ag_zero_inactive; auto; lia|auto]. }
    destruct a_inv as (Hall & _ & _ & _).
    destruct (Z.eq_dec (cw c) 0) as [Ew|Ew].
    - rewrite new_weight_zero by lia. tauto.
    - unfold new_weight. destruct (Z.eqb_spec (clen c) 0) as [E|_]; [lia|].
      assert (Hnz : clen c <> 0) by lia.
      destruct (Hall c Hc (conj Hnz Ew)) as (Hgp & Hminp & Hr).
      split; [|intros; contradiction]. intros H0. exfalso.
      destruct (Z.ltb_spec (256 * amin a) (iw * amax a)) as [Hs|Hs].
      + destruct (Z.eqb_spec (256 * cweight L c / amax a) 0) as [Ep|Ep]; cbn [andb] in H0.
        * replace (0 <? cw c) with true in H0 by (symmetry; apply Z.ltb_lt; lia). lia.
        * lia.
      + assert (iw <= iw * cweight L c / amin a).
        { apply Z.div_le_lower_bound; [lia|nia]. }
        lia.
  Qed.

  Lemma outw_range c : In c cls -> 0 < clen c -> cw c <= 256 -> 0 <= outw c <= 256.
  Proof.
    intros Hc Hl Hw. destruct (Hwf c Hc) as [Hw0 _].
    unfold outw. destruct (Z.eqb_spec L 0) as [E|_]; [lia|].
    destruct (Z.eqb_spec (ag a) 0) as [Eg|Eg]; [lia|].
    destruct a_inv as (Hall & _ & Hwit & Hnn).
    destruct (Z.eq_dec (cw c) 0) as [Ew|Ew].
    - rewrite new_weight_zero by lia. lia.
    - unfold new_weight. destruct (Z.eqb_spec (clen c) 0) as [E|_]; [lia|].
      assert (Hnz : clen c <> 0) by lia.
      destruct (Hall c Hc (conj Hnz Ew)) as (Hgp & Hminp & Hr).
      destruct (Z.ltb_spec (256 * amin a) (iw * amax a)) as [Hs|Hs].
      + assert (0 <= 256 * cweight L c / amax a <= 256).
        { split; [apply Z.div_pos; lia|]. apply Z.div_le_upper_bound; lia. }
        destruct (Z.eqb_spec (256 * cweight L c / amax a) 0); cbn [andb];
          [destruct (0 <? cw c)|]; lia.
      + split; [apply Z.div_pos; nia|]. apply Z.div_le_upper_bound; nia.
  Qed.


  Lemma ag_nonzero_facts : ag a <> 0 -> 0 < amin a /\ amin a <= amax a.
  Proof.
    intros Hg. destruct a_inv as (Hall & _ & Hwit & Hnn).
    destruct (Hwit ltac:(lia)) as (c1 & c2 & H1 & H2 & H3 & H4 & H5 & H6).
    destruct (Hall c1 H1 H2) as (_ & Hm & Hr). lia.
  Qed.

  Lemma outw_nonneg c : In c cls -> 0 < clen c -> 0 <= outw c.
  Proof.
    intros Hc Hl. destruct (Hwf c Hc) as [Hw0 _].
    unfold outw. destruct (Z.eqb_spec L 0) as [E|_]; [lia|].
    destruct (Z.eqb_spec (ag a) 0) as [Eg|Eg]; [lia|].
    destruct (ag_nonzero_facts Eg) as [Hm Hmm].
    destruct (Z.eq_dec (cw c) 0) as [Ew|Ew]; [rewrite new_weight_zero by lia; lia|].
    destruct a_inv as (Hall & _ & _ & _).
    assert (Hnz : clen c <> 0) by lia.
    destruct (Hall c Hc (conj Hnz Ew)) as (_ & _ & Hr).
    unfold new_weight. destruct (Z.eqb_spec (clen c) 0) as [E|_]; [lia|].
    destruct (_ <? _).
    - assert (0 <= 256 * cweight L c / amax a) by (apply Z.div_pos; lia).
      destruct (_ && _); lia.
    - apply Z.div_pos; nia.
  Qed.

  (* order: the group with the smaller weight per replica gets the smaller server weight *)
  Lemma outw_order c d :
    In c cls -> In d cls -> 0 < clen c -> 0 < clen d ->
    cw c * clen d <= cw d * clen c -> outw c <= outw d.
  Proof.
    intros Hc Hd Hlc Hld Hle.
    destruct (Hwf c Hc) as [Hwc _]. destruct (Hwf d Hd) as [Hwd _].
    destruct (Z.eq_dec (cw c) 0) as [Ewc|Ewc].
    { assert (outw c = 0) as -> by (apply outw_zero_iff; assumption). apply outw_nonneg; assumption. }
    destruct L_facts as [_ HL].
    assert (Hnzc : clen c <> 0) by lia. assert (Hnzd : clen d <> 0) by lia.
    destruct (HL c Hc Hnzc) as [HLp Hdc]. destruct (HL d Hd Hnzd) as [_ Hdd].
    pose proof (cweight_exact L c Hlc Hdc) as Ec. pose proof (cweight_exact L d Hld Hdd) as Ed.
    assert (Hx : cweight L c <= cweight L d).
    { assert (H1 : cweight L c * (clen c * clen d) <= cweight L d * (clen c * clen d)).
      { replace (cweight L c * (clen c * clen d)) with ((cweight L c * clen c) * clen d) by ring.
        replace (cweight L d * (clen c * clen d)) with ((cweight L d * clen d) * clen c) by ring.
        rewrite Ec, Ed.
        replace (cw c * L * clen d) with ((cw c * clen d) * L) by ring.
        replace (cw d * L * clen c) with ((cw d * clen c) * L) by ring.
        apply Z.mul_le_mono_nonneg_r; lia. }
      apply Z.mul_le_mono_pos_r in H1; [exact H1|nia]. }
    assert (Ewd : cw d <> 0).
    { intros E0. rewrite E0 in Hle. assert (0 < cw c * clen d) by nia. lia. }
    unfold outw. destruct (Z.eqb_spec L 0) as [E|_]; [lia|].
    destruct (Z.eqb_spec (ag a) 0) as [Eg|Eg].
    { exfalso. apply Ewc. apply ag_zero_inactive; assumption. }
    destruct (ag_nonzero_facts Eg) as [Hm Hmm].
    destruct a_inv as (Hall & _ & _ & _).
    destruct (Hall c Hc (conj Hnzc Ewc)) as (_ & _ & Hrc).
    destruct (Hall d Hd (conj Hnzd Ewd)) as (_ & _ & Hrd).
    unfold new_weight.
    destruct (Z.eqb_spec (clen c) 0) as [E|_]; [lia|]. destruct (Z.eqb_spec (clen d) 0) as [E|_]; [lia|].
    destruct (_ <? _).
    - assert (Hp : 256 * cweight L c / amax a <= 256 * cweight L d / amax a)
        by (apply Z.div_le_mono; lia).
      assert (0 <= 256 * cweight L c / amax a) by (apply Z.div_pos; lia).
      replace (0 <? cw c) with true by (symmetry; apply Z.ltb_lt; lia).
      replace (0 <? cw d) with true by (symmetry; apply Z.ltb_lt; lia).
      rewrite !andb_true_r.
      destruct (Z.eqb_spec (256 * cweight L c / amax a) 0), (Z.eqb_spec (256 * cweight L d / amax a) 0); lia.
    - apply Z.div_le_mono; nia.
  Qed.

  (* proportions: one common factor n/dn for every group; the weight of each server
     is the floor of the ideal n/dn * (cw*L/clen), or 1 where that floor would starve a
     group with a non-zero weight. Independent of how many replicas each group has. *)
  Lemma outw_share :
    exists n dn, 0 < n /\ 0 < dn /\
      forall c, In c cls -> 0 < clen c ->
        exists x, x * clen c = cw c * L /\
          (outw c = n * x / dn \/ (outw c = 1 /\ n * x / dn = 0 /\ 0 < cw c)).
  Proof.
    destruct L_facts as [_ HL].
    destruct (Z.eq_dec (ag a) 0) as [Eg|Eg].
    - exists 1, 1. split; [lia|]. split; [lia|]. intros c Hc Hl.
      assert (Hnz : clen c <> 0) by lia. destruct (HL c Hc Hnz) as [HLp Hdiv].
      exists (cweight L c). split; [apply cweight_exact; assumption|]. left.
      pose proof (ag_zero_inactive c Hc Eg Hnz) as Ew.
      rewrite (cweight_zero L c Ew). unfold outw.
      destruct (L =? 0); [cbn; lia|]. destruct (Z.eqb_spec (ag a) 0); [cbn; lia|contradiction].
    - destruct (ag_nonzero_facts Eg) as [Hm Hmm].
      destruct (Z.ltb_spec (256 * amin a) (iw * amax a)) as [Hs|Hs].
      + exists 256, (amax a). split; [lia|]. split; [lia|]. intros c Hc Hl.
        assert (Hnz : clen c <> 0) by lia. destruct (HL c Hc Hnz) as [HLp Hdiv].
        exists (cweight L c). split; [apply cweight_exact; assumption|].
        unfold outw. destruct (Z.eqb_spec L 0) as [E|_]; [lia|].
        destruct (Z.eqb_spec (ag a) 0) as [E|_]; [contradiction|].
        unfold new_weight. destruct (Z.eqb_spec (clen c) 0) as [E|_]; [lia|].
        destruct (Z.ltb_spec (256 * amin a) (iw * amax a)) as [_|Hs']; [|lia].
        destruct (Z.eqb_spec (256 * cweight L c / amax a) 0) as [Ep|Ep]; cbn [andb]; [|left; reflexivity].
        destruct (Z.ltb_spec 0 (cw c)); [right; repeat split; assumption|left; reflexivity].
      + exists iw, (amin a). split; [lia|]. split; [lia|]. intros c Hc Hl.
        assert (Hnz : clen c <> 0) by lia. destruct (HL c Hc Hnz) as [HLp Hdiv].
        exists (cweight L c). split; [apply cweight_exact; assumption|]. left.
        unfold outw. destruct (Z.eqb_spec L 0) as [E|_]; [lia|].
        destruct (Z.eqb_spec (ag a) 0) as [E|_]; [contradiction|].
        unfold new_weight. destruct (Z.eqb_spec (clen c) 0) as [E|_]; [lia|].
        destruct (Z.ltb_spec (256 * amin a) (iw * amax a)) as [Hs'|_]; [lia|reflexivity].
  Qed.

  (* when no scaling to the 0..256 range is needed, the group with the smallest
     weight per replica gets exactly initial-weight *)
End Rebalanced.

Lemma in_combine_map {A B} (f : A -> B) (l : list A) x y :
  In (x, y) (combine l (map f l)) -> In x l /\ y = f x.
Proof.
  induction l as [|h t IH]; cbn [map combine]; intros H; [destruct H|].
  destruct H as [H|H]; [inversion H; subst; split; [left|]; reflexivity|].
  destruct (IH H) as [Hi He]. split; [right; exact Hi|exact He].
Qed.

Definition wf_input (cls : list cluster) (iw : Z) : Prop :=
  (forall c, In c cls -> 0 <= cw c <= 256 /\ 0 <= clen c) /\ 1 <= iw <= 256.

Lemma wf_input_wf cls iw : wf_input cls iw -> forall c, In c cls -> wf_cluster c.
Proof. intros [H _] c Hc. destruct (H c Hc). split; lia. Qed.

Theorem rebalance_range cls iw : wf_input cls iw ->
  forall c w, In (c, w) (combine cls (rebalance cls iw)) -> 0 < clen c -> 0 <= w <= 256.
Proof.
  intros Hwf c w Hin Hl. rewrite (rebalance_map cls iw) in Hin.
  apply in_combine_map in Hin as [Hc ->].
  apply outw_range; try assumption; [eapply wf_input_wf; eassumption|apply Hwf|apply Hwf; exact Hc].
Qed.

Theorem rebalance_zero_iff cls iw : wf_input cls iw ->
  forall c w, In (c, w) (combine cls (rebalance cls iw)) -> 0 < clen c -> (w = 0 <-> cw c = 0).
Proof.
  intros Hwf c w Hin Hl. rewrite (rebalance_map cls iw) in Hin.
  apply in_combine_map in Hin as [Hc ->].
  apply outw_zero_iff; try assumption; [eapply wf_input_wf; eassumption|apply Hwf].
Qed.

Theorem rebalance_order cls iw : wf_input cls iw ->
  forall c w d v, In (c, w) (combine cls (rebalance cls iw)) -> In (d, v) (combine cls (rebalance cls iw)) ->
    0 < clen c -> 0 < clen d -> cw c * clen d <= cw d * clen c -> w <= v.
Proof.
  intros Hwf c w d v Hc Hd Hlc Hld Hle. rewrite (rebalance_map cls iw) in Hc, Hd.
  apply in_combine_map in Hc as [Hc ->]. apply in_combine_map in Hd as [Hd ->].
  apply outw_order; try assumption; [eapply wf_input_wf; eassumption|apply Hwf].
Qed.

Theorem rebalance_share cls iw : wf_input cls iw ->
  exists n dn L, 0 < n /\ 0 < dn /\
    forall c w, In (c, w) (combine cls (rebalance cls iw)) -> 0 < clen c ->
      exists x, x * clen c = cw c * L /\
        (w = n * x / dn \/ (w = 1 /\ n * x / dn = 0 /\ 0 < cw c)).
Proof.
  intros Hwf.
  destruct (outw_share cls iw (wf_input_wf cls iw Hwf) (proj2 Hwf)) as (n & dn & Hn & Hd & H).
  exists n, dn, (lcm_count cls). split; [exact Hn|]. split; [exact Hd|].
  intros c w Hin Hl. rewrite (rebalance_map cls iw) in Hin.
  apply in_combine_map in Hin as [Hc ->]. apply H; assumption.
Qed.

(* non-vacuity and the documented example of the old float32 defect: weights 5,7 with
   8 and 11 replicas and initial-weight 1 *)
Example rebalance_5_7 :
  rebalance [{| cw := 5; clen := 8 |}; {| cw := 7; clen := 11 |}] 1 = [1; 1] /\
  wf_input [{| cw := 5; clen := 8 |}; {| cw := 7; clen := 11 |}] 1.
Proof.
  split; [vm_compute; reflexivity|].
  split; [|lia]. intros c [<-|[<-|[]]]; cbn; lia.
Qed.

(* ---------- every cluster, with or without replicas ---------- *)
Section AllClusters.
  Variable cls : list cluster.
  Variable iw : Z.
  Hypothesis Hwf : forall c, In c cls -> wf_cluster c.
  Hypothesis Hiw : 1 <= iw <= 256.

  Lemma outw_len0 c : clen c = 0 -> outw cls iw c = cw c.
  Proof.
    intros E. unfold outw. destruct (_ =? 0); [reflexivity|]. destruct (_ =? 0); [reflexivity|].
    unfold new_weight. rewrite E. reflexivity.
  Qed.

  Lemma outw_range_all c : In c cls -> cw c <= 256 -> 0 <= outw cls iw c <= 256.
  Proof.
    intros Hc Hw. destruct (Hwf c Hc) as [Hw0 Hl0].
    destruct (Z.eq_dec (clen c) 0) as [E|E].
    - rewrite outw_len0 by exact E. lia.
    - apply outw_range; try assumption. lia.
  Qed.
End AllClusters.

Lemma nth_map_default {A} (f : A -> Z) (l : list A) (d : A) i :
  (i < length l)%nat -> nth i (map f l) 0 = f (nth i l d).
Proof.
  intros Hi. rewrite (nth_indep (map f l) 0 (f d)) by (rewrite map_length; exact Hi). apply map_nth.
Qed.

(* ---------- blue/green ---------- *)
Lemma clamp256_range w : 0 <= clamp256 w <= 256.
Proof. unfold clamp256. destruct (Z.ltb_spec w 0); [lia|]. destruct (Z.ltb_spec 256 w); lia. Qed.

Lemma bg_lengths_length n eps : length (bg_lengths n eps) = n.
Proof. unfold bg_lengths. rewrite map_length, seq_length. reflexivity. Qed.

Lemma bg_clusters_length ws eps : length (bg_clusters ws eps) = length ws.
Proof.
  unfold bg_clusters. rewrite map_length, combine_length, bg_lengths_length, map_length. apply Nat.min_id.
Qed.

Lemma bg_clusters_wf ws eps c : In c (bg_clusters ws eps) -> 0 <= cw c <= 256 /\ 0 <= clen c.
Proof.
  unfold bg_clusters. intros H. apply in_map_iff in H as ([a b] & <- & Hin). cbn [cw clen fst snd].
  split.
  - apply in_combine_l in Hin. apply in_map_iff in Hin as (w & <- & _). apply clamp256_range.
  - apply in_combine_r in Hin. unfold bg_lengths in Hin. apply in_map_iff in Hin as (i & <- & _). lia.
Qed.

Lemma bg_wf_input ws iw eps : 1 <= iw <= 256 -> wf_input (bg_clusters ws eps) iw.
Proof. intros Hiw. split; [intros c Hc; apply (bg_clusters_wf ws eps c Hc)|exact Hiw]. Qed.

Lemma bg_group_lt n e i : bg_group n e = Some i -> (i < n)%nat /\ In i (snd e).
Proof.
  unfold bg_group. destruct (rev _) as [|j r] eqn:E; [discriminate|]. intros H; inversion H; subst j.
  assert (Hin : In i (rev (filter (fun i => Nat.ltb i n) (snd e)))) by (rewrite E; left; reflexivity).
  apply in_rev in Hin. apply filter_In in Hin as [Hi Hlt]. apply Nat.ltb_lt in Hlt. split; assumption.
Qed.

(* every weight written on a server is in 0..256, in both modes *)
Theorem bg_deploy_range ws iw eps : 1 <= iw <= 256 ->
  forall w, In w (bg_server_weights ws iw eps) -> 0 <= w <= 256.
Proof.
  intros Hiw w Hin. unfold bg_server_weights in Hin. apply in_map_iff in Hin as (e & <- & He).
  destruct (fst e); [lia|]. destruct (bg_group (length ws) e) as [i|] eqn:Eg; [|lia].
  apply bg_group_lt in Eg as [Hlt _].
  rewrite (rebalance_map (bg_clusters ws eps) iw).
  rewrite (nth_map_default _ _ {| cw := 0; clen := 0 |}) by (rewrite bg_clusters_length; exact Hlt).
  assert (Hin : In (nth i (bg_clusters ws eps) {| cw := 0; clen := 0 |}) (bg_clusters ws eps))
    by (apply nth_In; rewrite bg_clusters_length; exact Hlt).
  apply outw_range_all; [intros c Hc; destruct (bg_clusters_wf ws eps c Hc); split; lia|exact Hiw|exact Hin|].
  apply (bg_clusters_wf ws eps _ Hin).
Qed.

Theorem bg_pod_range ws eps : forall w, In w (bg_pod_weights ws eps) -> 0 <= w <= 256.
Proof.
  intros w Hin. unfold bg_pod_weights in Hin. apply in_map_iff in Hin as (e & <- & He).
  destruct (fst e); [lia|]. destruct (bg_group (length ws) e) as [i|] eqn:Eg; [|lia].
  apply bg_group_lt in Eg as [Hlt _].
  rewrite (nth_map_default clamp256 ws 0) by exact Hlt. apply clamp256_range.
Qed.

(* draining servers and servers that match no group get weight zero, in both modes *)
Theorem bg_unmatched_zero ws iw eps k e :
  nth_error eps k = Some e -> fst e = true \/ bg_group (length ws) e = None ->
  nth_error (bg_server_weights ws iw eps) k = Some 0 /\ nth_error (bg_pod_weights ws eps) k = Some 0.
Proof.
  intros Hk Hc. unfold bg_server_weights, bg_pod_weights.
  rewrite (map_nth_error _ _ _ Hk), (map_nth_error _ _ _ Hk).
  destruct Hc as [Hd|Hn]; [rewrite Hd; split; reflexivity|].
  rewrite Hn. destruct (fst e); split; reflexivity.
Qed.

(* the cluster of a group that a live endpoint carries has at least that replica *)
Lemma bg_cluster_nth ws eps i :
  (i < length ws)%nat ->
  nth i (bg_clusters ws eps) {| cw := 0; clen := 0 |} =
  {| cw := clamp256 (nth i ws 0);
     clen := Z.of_nat (length (filter (fun e : bg_endpoint => negb (fst e) && existsb (Nat.eqb i) (snd e)) eps)) |}.
Proof.
  intros Hlt. unfold bg_clusters.
  set (f := fun p : Z * Z => {| cw := fst p; clen := snd p |}).
  change {| cw := 0; clen := 0 |} with (f (0, 0)). rewrite map_nth. unfold f.
  rewrite combine_nth by (rewrite bg_lengths_length, map_length; reflexivity).
  cbn [fst snd]. f_equal.
  - change 0 with (clamp256 0) at 1. apply map_nth.
  - unfold bg_lengths. rewrite map_length.
    set (g := fun i0 => Z.of_nat (length (filter (fun e : bg_endpoint => negb (fst e) && existsb (Nat.eqb i0) (snd e)) eps))).
    rewrite (nth_indep (map g (seq 0 (length ws))) 0 (g 0%nat)) by (rewrite map_length, seq_length; exact Hlt).
    rewrite map_nth. rewrite seq_nth by exact Hlt. reflexivity.
Qed.

(* a live server of a group: weight zero exactly when the configured (clamped) weight of
   the group is zero -- mode deploy *)
Theorem bg_deploy_zero_iff ws iw eps k e i :
  1 <= iw <= 256 ->
  nth_error eps k = Some e -> fst e = false -> bg_group (length ws) e = Some i ->
  exists w, nth_error (bg_server_weights ws iw eps) k = Some w /\ (w = 0 <-> clamp256 (nth i ws 0) = 0).
Proof.
  intros Hiw Hk Hd Hg. unfold bg_server_weights. rewrite (map_nth_error _ _ _ Hk).
  rewrite Hd, Hg. eexists. split; [reflexivity|].
  destruct (bg_group_lt _ _ _ Hg) as [Hlt Hin].
  rewrite (rebalance_map (bg_clusters ws eps) iw).
  rewrite (nth_map_default _ _ {| cw := 0; clen := 0 |}) by (rewrite bg_clusters_length; exact Hlt).
  set (c := nth i (bg_clusters ws eps) {| cw := 0; clen := 0 |}).
  assert (Hc : In c (bg_clusters ws eps)) by (apply nth_In; rewrite bg_clusters_length; exact Hlt).
  assert (Ec : c = _) by (apply (bg_cluster_nth ws eps i Hlt)).
  assert (Hpos : 0 < clen c).
  { rewrite Ec. cbn [clen].
    assert (Hf : In e (filter (fun e0 : bg_endpoint => negb (fst e0) && existsb (Nat.eqb i) (snd e0)) eps)).
    { apply filter_In. split; [eapply nth_error_In; exact Hk|]. rewrite Hd. cbn [negb andb].
      apply existsb_exists. exists i. split; [exact Hin|apply Nat.eqb_refl]. }
    destruct (filter (fun e0 : bg_endpoint => negb (fst e0) && existsb (Nat.eqb i) (snd e0)) eps);
      [destruct Hf|cbn [length]; lia]. }
  assert (Hcw : cw c = clamp256 (nth i ws 0)) by (rewrite Ec; reflexivity).
  rewrite <- Hcw.
  apply outw_zero_iff; [intros d Hdn; destruct (bg_clusters_wf ws eps d Hdn); split; lia|exact Hiw|exact Hc|exact Hpos].
Qed.

Theorem bg_pod_value ws eps k e i :
  nth_error eps k = Some e -> fst e = false -> bg_group (length ws) e = Some i ->
  nth_error (bg_pod_weights ws eps) k = Some (clamp256 (nth i ws 0)).
Proof.
  intros Hk Hd Hg. unfold bg_pod_weights. rewrite (map_nth_error _ _ _ Hk). rewrite Hd, Hg.
  destruct (bg_group_lt _ _ _ Hg) as [Hlt _].
  rewrite (nth_map_default clamp256 ws 0) by exact Hlt. reflexivity.
Qed.
