(* Backend level of C01: what the observation obs_host shows besides the hosts -- the
   servers of the backend every path points to.

   AcquireBackend returns an existing backend untouched, so the content of a backend is
   what its first acquirer computed: servers w svc p, which reads the Endpoints of the
   Service and the NAME of the service port.  The invariant J w x says that every backend
   of the state is fresh for the cluster w and is anchored in the tracker:
     backs_ok: a backend bid of the state is {servers w svc p} for a Service svc of w and
               one of its ports p with backend_id svc p = bid, and some ingress i and host
               hn carry the links  i - bid,  i - hn,  Service svc - hn,  Endpoints svc - hn
               (the Track calls of addHost / addBackendWithClass);
     paths_ok: the backend of every path of every host exists, and some ingress is
               linked to both the backend and the host.
   A sync of an ingress preserves J (sync_ingress_J).  Proofs/ConvHist.v shows that the
   removal of a partial step preserves it too: a backend whose Service or Endpoints
   changed is reached by QueryLinks through that chain, and is removed.

   back_det w: two (Service, port) pairs of w with the same backend id have the same
   servers.  It is needed: the id is ns_name_targetPort, so two ports of one Service with
   the same targetPort and different names share the backend while createEndpoints
   filters the Endpoints by port name -- who acquires first then decides the content
   (refuted example in Proofs/ConvBack_multi.v).  obs_of_J: two states with the same
   hosts that both satisfy J w show the same obs_host when back_det w. *)
From Coq Require Import List Bool String ZArith Lia Relations.
From HI Require Import Model.Tracker Model.Conv Proofs.Tracker Proofs.IncSync Proofs.Conv
                       Proofs.ConvSort Proofs.ConvHist_base Proofs.ConvHist_keys.
Import ListNotations.
Open Scope string_scope.

Definition bid_of (svc : service) (p : svcport) : string :=
  backend_id (s_ns svc) (s_name svc) (sp_target p).

Definition back_wit (w : world) (T : ctracker) (bid : string) (br : backrec) : Prop :=
  exists i hn svc p,
    find_svc w (s_full svc) = Some svc /\ In p (s_ports svc) /\ bid = bid_of svc p /\
    br = {| b_servers := servers w svc p |} /\
    In ((KIngress, i_full i), (KBackend, bid)) T /\
    In ((KIngress, i_full i), (KHost, hn)) T /\
    In ((KService, s_full svc), (KHost, hn)) T /\
    In ((KEndpoints, s_full svc), (KHost, hn)) T.

Definition backs_ok (w : world) (x : st) : Prop :=
  forall bid br, get_back (fst x) bid = Some br -> back_wit w (snd x) bid br.

Definition paths_ok (x : st) : Prop :=
  forall hn hr p, get_host (fst x) hn = Some hr -> In p (h_paths hr) ->
    get_back (fst x) (hp_back p) <> None /\
    exists i, In ((KIngress, i_full i), (KBackend, hp_back p)) (snd x) /\
              In ((KIngress, i_full i), (KHost, hn)) (snd x).

Definition J (w : world) (x : st) : Prop := backs_ok w x /\ paths_ok x.

Definition back_det (w : world) : Prop :=
  forall svc svc' p p', In svc (w_svcs w) -> In svc' (w_svcs w) ->
    In p (s_ports svc) -> In p' (s_ports svc') ->
    bid_of svc p = bid_of svc' p' -> servers w svc p = servers w svc' p'.

(* ---------- small facts ---------- *)
Lemma back_wit_mono w T T' bid br : incl T T' -> back_wit w T bid br -> back_wit w T' bid br.
Proof.
  intros Hi (i & hn & svc & p & H1 & H2 & H3 & H4 & L1 & L2 & L3 & L4).
  exists i, hn, svc, p. repeat split; auto.
Qed.

Lemma get_back_upd_host s hn c b : get_back (upd s (THost hn) c) b = get_back s b.
Proof. unfold get_back, upd. cbn [tgt_eqb]. reflexivity. Qed.

Lemma get_back_upd_back s bk r b :
  get_back (upd s (TBack bk) (CBack r)) b = if String.eqb b bk then Some r else get_back s b.
Proof. unfold get_back, upd. cbn [tgt_eqb]. destruct (String.eqb b bk); reflexivity. Qed.

Lemma get_host_upd_back' s bk c h : get_host (upd s (TBack bk) c) h = get_host s h.
Proof. apply get_host_upd_back. Qed.

Lemma find_svc_some w n svc : find_svc w n = Some svc -> In svc (w_svcs w) /\ s_full svc = n.
Proof.
  unfold find_svc. intros H. apply find_some in H as [Hin He]. apply String.eqb_eq in He. tauto.
Qed.

Lemma find_port_In svc port pn p : find_port svc port pn = Some p -> In p (s_ports svc).
Proof.
  unfold find_port. destruct (find _ (s_ports svc)) as [q|] eqn:E1.
  - intros H. injection H as <-. apply find_some in E1. tauto.
  - destruct (match pn with Some n => find _ (s_ports svc) | None => None end) as [q|] eqn:E2.
    + intros H. injection H as <-. destruct pn; [|discriminate]. apply find_some in E2. tauto.
    + intros H. apply find_some in H. tauto.
Qed.

Lemma pick_port_In svc port p : pick_port svc port = Some p -> In p (s_ports svc).
Proof.
  unfold pick_port. destruct (String.eqb port "").
  - destruct (s_ports svc) as [|q r]; [discriminate|]. intros H. injection H as <-. left. reflexivity.
  - apply find_port_In.
Qed.

(* ---------- add_host ---------- *)
Lemma add_host_get_back i hn x b : get_back (fst (add_host i hn x)) b = get_back (fst x) b.
Proof. unfold get_back. rewrite add_host_back. reflexivity. Qed.

Lemma add_host_J w i hn x : J w x -> J w (add_host i hn x).
Proof.
  intros [Hb Hp]. pose proof (proj1 (add_host_sgrows i hn x)) as Hincl. split.
  - intros bid br Hg. rewrite add_host_get_back in Hg. eapply back_wit_mono; [exact Hincl|]. apply Hb. exact Hg.
  - intros h hr p Hg Hin. rewrite add_host_get in Hg.
    assert (Hold : get_host (fst x) h = Some hr ->
                   get_back (fst (add_host i hn x)) (hp_back p) <> None /\
                   exists i0, In ((KIngress, i_full i0), (KBackend, hp_back p)) (snd (add_host i hn x)) /\
                              In ((KIngress, i_full i0), (KHost, h)) (snd (add_host i hn x))).
    { intros Hg0. destruct (Hp h hr p Hg0 Hin) as [H1 (i0 & H2 & H3)]. rewrite add_host_get_back.
      split; [exact H1|]. exists i0. split; apply Hincl; assumption. }
    destruct (get_host (fst x) hn); [apply Hold; exact Hg|].
    destruct (String.eqb h hn); [|apply Hold; exact Hg].
    injection Hg as <-. cbn in Hin. contradiction.
Qed.

(* a step that only adds links *)
Lemma J_track w (x : st) (a b : node) : J w x -> J w (fst x, track (snd x) a b).
Proof.
  intros [Hb Hp]. assert (Hincl : incl (snd x) (track (snd x) a b)) by apply (proj1 (grows_track _ _ _)).
  split.
  - intros bid br Hg. cbn [fst snd] in *. eapply back_wit_mono; [exact Hincl|]. apply Hb. exact Hg.
  - intros h hr p Hg Hin. cbn [fst snd] in *. destruct (Hp h hr p Hg Hin) as [H1 (i0 & H2 & H3)].
    split; [exact H1|]. exists i0. split; apply Hincl; assumption.
Qed.

(* ---------- add_backend ---------- *)
Lemma add_backend_J w i hn r x :
  J w x -> In ((KIngress, i_full i), (KHost, hn)) (snd x) ->
  J w (fst (add_backend w i hn r x)) /\
  (forall bid, snd (add_backend w i hn r x) = Some bid ->
     get_back (fst (fst (add_backend w i hn r x))) bid <> None /\
     In ((KIngress, i_full i), (KBackend, bid)) (snd (fst (add_backend w i hn r x)))).
Proof.
  intros [Hb Hp] Hih. destruct x as [s T]. cbn [fst snd] in *. unfold add_backend.
  set (full := i_ns i ++ "/" ++ r_svc r).
  set (T1 := track (track T (KService, full) (KHost, hn)) (KEndpoints, full) (KHost, hn)).
  assert (HT1 : incl T T1) by (intros e He; unfold T1, track; do 4 right; exact He).
  assert (Jt : J w (s, T1)).
  { split.
    - intros bid br Hg. eapply back_wit_mono; [exact HT1|]. apply Hb. exact Hg.
    - intros h hr p Hg Hin. destruct (Hp h hr p Hg Hin) as [H1 (i0 & H2 & H3)].
      split; [exact H1|]. exists i0. split; apply HT1; assumption. }
  destruct (find_svc w full) as [svc|] eqn:Es; [|split; [exact Jt|intros bid Hc; discriminate]].
  destruct (pick_port svc (r_port r)) as [p|] eqn:Ep; [|split; [exact Jt|intros bid Hc; discriminate]].
  cbn [fst snd].
  set (bid := backend_id (s_ns svc) (s_name svc) (sp_target p)).
  set (T2 := track T1 (KIngress, i_full i) (KBackend, bid)).
  assert (HT2 : incl T1 T2) by (intros e He; unfold T2, track; right; right; exact He).
  destruct (find_svc_some w full svc Es) as [Hsin Hsf].
  assert (Hwit : back_wit w T2 bid {| b_servers := servers w svc p |}).
  { exists i, hn, svc, p. rewrite Hsf. repeat split.
    - exact Es.
    - apply (pick_port_In svc (r_port r) p Ep).
    - left. reflexivity.
    - apply HT2. apply HT1. exact Hih.
    - apply HT2. unfold T1, track. right. right. left. reflexivity.
    - apply HT2. unfold T1, track. left. reflexivity. }
  split; [split|].
  - (* backs_ok *)
    intros b0 br Hg. cbn [fst snd] in *. destruct (get_back s bid) as [r0|] eqn:Eg.
    + eapply back_wit_mono; [eapply incl_tran; [exact HT1|exact HT2]|]. apply Hb. exact Hg.
    + rewrite get_back_upd_back in Hg. destruct (String.eqb_spec b0 bid) as [->|Hne].
      * injection Hg as <-. exact Hwit.
      * eapply back_wit_mono; [eapply incl_tran; [exact HT1|exact HT2]|]. apply Hb. exact Hg.
  - (* paths_ok *)
    intros h hr p0 Hg Hin. cbn [fst snd] in *.
    assert (Hg0 : get_host s h = Some hr).
    { destruct (get_back s bid); [exact Hg|]. rewrite get_host_upd_back in Hg. exact Hg. }
    destruct (Hp h hr p0 Hg0 Hin) as [H1 (i0 & H2 & H3)]. split.
    + destruct (get_back s bid) eqn:Eg; [exact H1|]. rewrite get_back_upd_back.
      destruct (String.eqb (hp_back p0) bid); [discriminate|exact H1].
    + exists i0. split; apply HT2; apply HT1; assumption.
  - intros b0 Hb0. injection Hb0 as <-. cbn [fst snd]. split.
    + destruct (get_back s bid) eqn:Eg; [rewrite Eg; discriminate|].
      rewrite get_back_upd_back, String.eqb_refl. discriminate.
    + unfold T2, track. left. reflexivity.
Qed.

(* ---------- sync_path ---------- *)
Lemma sync_path_J w i hn x r :
  J w x -> In ((KIngress, i_full i), (KHost, hn)) (snd x) -> J w (sync_path w i hn x r).
Proof.
  intros HJ Hih. unfold sync_path. destruct (get_host (fst x) hn) as [hr|] eqn:E; [|exact HJ].
  destruct (has_path hr _ _); [exact HJ|].
  destruct (add_backend_J w i hn r x HJ Hih) as [HJ1 Hacq].
  pose proof (add_backend_sgrows w i hn r x) as Hgr.
  destruct (add_backend w i hn r x) as [x1 ob]. cbn [fst snd] in *.
  destruct ob as [bid|]; [|exact HJ1]. destruct x1 as [s1 T1].
  destruct (get_host s1 hn) as [hr1|] eqn:E1; [|exact HJ1].
  destruct (Hacq bid eq_refl) as [Hpres Hlink]. destruct HJ1 as [Hb1 Hp1]. cbn [fst snd] in *.
  split.
  - intros b0 br Hg. cbn [fst snd] in *. rewrite get_back_upd_host in Hg. apply Hb1. exact Hg.
  - intros h hr' p Hg Hin. cbn [fst snd] in *. rewrite get_host_upd_host in Hg. rewrite get_back_upd_host.
    destruct (String.eqb_spec h hn) as [->|Hne].
    + injection Hg as <-. cbn [h_paths] in Hin. apply in_app_or in Hin as [Hin|[<-|[]]].
      * apply (Hp1 hn hr1 p E1 Hin).
      * cbn [hp_back]. split; [exact Hpres|]. exists i. split; [exact Hlink|].
        apply (proj1 Hgr). exact Hih.
    + apply (Hp1 h hr' p Hg Hin).
Qed.

Lemma sync_path_keeps w i hn x r e : In e (snd x) -> In e (snd (sync_path w i hn x r)).
Proof. apply (proj1 (sync_path_sgrows w i hn x r)). Qed.

Lemma sync_rule_J w i x rule : J w x -> J w (sync_rule w i x rule).
Proof.
  intros HJ. unfold sync_rule.
  set (hn := norm_host (fst rule)).
  assert (Hgen : forall l y, J w y -> In ((KIngress, i_full i), (KHost, hn)) (snd y) ->
                   J w (fold_left (sync_path w i hn) l y)).
  { induction l as [|r l IH]; intros y Hy Hl; cbn [fold_left]; [exact Hy|].
    apply IH; [apply sync_path_J; assumption|apply sync_path_keeps; exact Hl]. }
  apply Hgen.
  - apply add_host_J. destruct (i_class i); [apply J_track|]; exact HJ.
  - rewrite add_host_snd. apply track_In.
Qed.

(* ---------- tls ---------- *)
Lemma sync_tls_host_J w i sec x hn : J w x -> J w (sync_tls_host w i sec x hn).
Proof.
  intros HJ. pose proof (add_host_J w i hn x HJ) as HJ1. unfold sync_tls_host.
  destruct (add_host i hn x) as [s1 T1].
  pose proof (tls_of_grows w i sec T1) as Hgr. destruct (tls_of w i sec T1) as [hash T2]. cbn [snd] in Hgr.
  destruct HJ1 as [Hb1 Hp1]. cbn [fst snd] in *.
  assert (J2 : J w (s1, T2)).
  { split.
    - intros b0 br Hg. eapply back_wit_mono; [exact (proj1 Hgr)|]. apply Hb1. exact Hg.
    - intros h hr p Hg Hin. destruct (Hp1 h hr p Hg Hin) as [H1 (i0 & H2 & H3)].
      split; [exact H1|]. exists i0. split; apply (proj1 Hgr); assumption. }
  destruct (get_host s1 hn) as [hr|] eqn:E; [|exact J2].
  destruct (h_tls hr); [exact J2|].
  destruct J2 as [Hb2 Hp2]. split.
  - intros b0 br Hg. cbn [fst snd] in *. rewrite get_back_upd_host in Hg. apply Hb2. exact Hg.
  - intros h hr' p Hg Hin. cbn [fst snd] in *. rewrite get_host_upd_host in Hg. rewrite get_back_upd_host.
    destruct (String.eqb_spec h hn) as [->|Hne].
    + injection Hg as <-. cbn [h_paths] in Hin. apply (Hp2 hn hr p E Hin).
    + apply (Hp2 h hr' p Hg Hin).
Qed.

Lemma sync_tls_J w i x blk : J w x -> J w (sync_tls w i x blk).
Proof. unfold sync_tls. apply fold_pres. intros; apply sync_tls_host_J; assumption. Qed.

Theorem sync_ingress_J w x i : J w x -> J w (sync_ingress w x i).
Proof.
  intros HJ. unfold sync_ingress.
  apply fold_pres; [intros; apply sync_tls_J; assumption|].
  apply fold_pres; [intros; apply sync_rule_J; assumption|exact HJ].
Qed.

Theorem fold_sync_J w l x : J w x -> J w (fold_left (sync_ingress w) l x).
Proof. apply fold_pres. intros; apply sync_ingress_J; assumption. Qed.

Theorem sync_full_J w : J w (sync_full w).
Proof.
  unfold sync_full. apply fold_sync_J. split.
  - intros bid br Hg. cbn in Hg. discriminate.
  - intros h hr p Hg. cbn in Hg. discriminate.
Qed.

(* ---------- the observation ---------- *)
Theorem obs_of_J w x y :
  hosts_eq (fst x) (fst y) -> J w x -> J w y -> back_det w ->
  forall hn, obs_host (fst x) hn = obs_host (fst y) hn.
Proof.
  intros Hh [Hbx Hpx] [Hby Hpy] Hdet hn. unfold obs_host.
  assert (Hg : get_host (fst x) hn = get_host (fst y) hn) by (unfold get_host; rewrite (Hh hn); reflexivity).
  rewrite <- Hg. destruct (get_host (fst x) hn) as [hr|] eqn:E; [|reflexivity].
  f_equal. f_equal. apply map_ext_in. intros p Hp. unfold obs_path. f_equal.
  destruct (Hpx hn hr p E Hp) as [Hx _].
  assert (E' : get_host (fst y) hn = Some hr) by (symmetry; exact Hg).
  destruct (Hpy hn hr p E' Hp) as [Hy _].
  destruct (get_back (fst x) (hp_back p)) as [bx|] eqn:Ex; [|contradiction].
  destruct (get_back (fst y) (hp_back p)) as [by_|] eqn:Ey; [|contradiction].
  destruct (Hbx _ _ Ex) as (i1 & h1 & svc1 & p1 & F1 & P1 & B1 & R1 & _).
  destruct (Hby _ _ Ey) as (i2 & h2 & svc2 & p2 & F2 & P2 & B2 & R2 & _).
  subst bx by_. cbn [b_servers].
  apply Hdet; [apply (find_svc_some w _ _ F1)|apply (find_svc_some w _ _ F2)|exact P1|exact P2|congruence].
Qed.

(* servers reads the world through the Endpoints of the service only *)
Lemma servers_same_eps w w' svc p :
  assoc (s_full svc) (w_eps w) = assoc (s_full svc) (w_eps w') -> servers w svc p = servers w' svc p.
Proof. intros H. unfold servers. rewrite H. reflexivity. Qed.

Lemma subset_eq_dec (a c : subset) : {a = c} + {a <> c}.
Proof. repeat decide equality. Defined.

Lemma opt_subsets_eq_dec (a c : option (list subset)) : {a = c} + {a <> c}.
Proof. decide equality. apply list_eq_dec. apply subset_eq_dec. Defined.
