(* C07, the "for all inputs and histories" half on the mini-converter model: after any
   history of well-formed batches every path of every host names a backend that exists
   (what `use_backend %[var(req.backend)]` needs: a map value always names a section).
   Corollary of the invariant J of Proofs/ConvBack.v carried by model_history_obs_from. *)
From Coq Require Import List String.
From HI Require Import Model.Tracker Model.Conv Proofs.ConvBack Proofs.ConvHist.
Import ListNotations.

Theorem model_refs_resolve w0 h :
  hist_ok_o w0 h ->
  exists x', run_hist (sync_full w0) h = Some x' /\
    forall hn hr p, get_host (fst x') hn = Some hr -> In p (h_paths hr) ->
      get_back (fst x') (hp_back p) <> None.
Proof.
  intros Hh.
  destruct (model_history_obs_from h w0 (sync_full w0) (sync_full_InvO w0) Hh) as (x' & Hr & HI).
  exists x'. split; [exact Hr|].
  intros hn hr p Hg Hp. destruct HI as [_ [_ Hpaths]].
  destruct (Hpaths hn hr p Hg Hp) as [Hb _]. exact Hb.
Qed.

Theorem model_full_refs_resolve w :
  forall hn hr p, get_host (fst (sync_full w)) hn = Some hr -> In p (h_paths hr) ->
    get_back (fst (sync_full w)) (hp_back p) <> None.
Proof.
  intros hn hr p Hg Hp. destruct (sync_full_InvO w) as [_ [_ Hpaths]].
  destruct (Hpaths hn hr p Hg Hp) as [Hb _]. exact Hb.
Qed.
