(* Proofs about Model/Conv.v, hosts level: what a sync of one ingress does to a host
   depends on that host only (not on other hosts, backends or the tracker), and hosts the
   ingress does not declare are left alone. This instantiates Proofs/IncSync.v. *)
From Coq Require Import List Bool String ZArith Lia.
From HI Require Import Model.Tracker Model.Conv Proofs.IncSync.
Import ListNotations.
Open Scope string_scope.

Lemma tgt_eqb_spec a b : reflect (a = b) (tgt_eqb a b).
Proof.
  destruct a as [x|x], b as [y|y]; cbn; try (constructor; discriminate);
    destruct (String.eqb_spec x y); constructor; congruence.
Qed.

Lemma upd_same s t c : upd s t c t = Some c.
Proof. unfold upd. destruct (tgt_eqb_spec t t); [reflexivity|contradiction]. Qed.
Lemma upd_other s t c t' : t' <> t -> upd s t c t' = s t'.
Proof. intros H. unfold upd. destruct (tgt_eqb_spec t' t); [contradiction|reflexivity]. Qed.
Lemma upd_back_host s b c h : upd s (TBack b) c (THost h) = s (THost h).
Proof. apply upd_other. discriminate. Qed.

(* the hosts declared by an ingress: rule hosts (normalised) and tls hosts *)
Definition declared (i : ingress) : list string :=
  map (fun r => norm_host (fst r)) (i_rules i) ++ flat_map fst (i_tls i).
Definition declares (i : ingress) (h : string) : bool := existsb (String.eqb h) (declared i).

Lemma declares_In i h : declares i h = true <-> In h (declared i).
Proof.
  unfold declares. rewrite existsb_exists. split.
  - intros (x & Hx & He). apply String.eqb_eq in He. subst. exact Hx.
  - intros H. exists h. split; [exact H|apply String.eqb_refl].
Qed.

(* the relation "agree at host h" *)
Definition agree (h : string) (x1 x2 : st) : Prop := fst x1 (THost h) = fst x2 (THost h).

Lemma get_host_agree h x1 x2 : agree h x1 x2 -> get_host (fst x1) h = get_host (fst x2) h.
Proof. unfold agree, get_host. intros ->. reflexivity. Qed.

(* ---- add_host ---- *)
Lemma add_host_other i hn x h : h <> hn -> fst (add_host i hn x) (THost h) = fst x (THost h).
Proof.
  intros Hne. destruct x as [s T]. unfold add_host. cbn [fst].
  destruct (get_host s hn); cbn [fst]; [reflexivity|]. apply upd_other. congruence.
Qed.

Lemma add_host_agree i hn x1 x2 h : agree h x1 x2 -> agree h (add_host i hn x1) (add_host i hn x2).
Proof.
  intros Ha. unfold agree. destruct (String.eqb_spec h hn) as [->|Hne].
  - pose proof (get_host_agree hn x1 x2 Ha) as Hg.
    destruct x1 as [s1 T1], x2 as [s2 T2]. unfold add_host. cbn [fst] in *. rewrite Hg.
    destruct (get_host s2 hn); cbn [fst]; [exact Ha|]. rewrite !upd_same. reflexivity.
  - rewrite !add_host_other by exact Hne. exact Ha.
Qed.

Lemma add_host_back i hn x b : fst (add_host i hn x) (TBack b) = fst x (TBack b).
Proof.
  destruct x as [s T]. unfold add_host. cbn [fst].
  destruct (get_host s hn); cbn [fst]; [reflexivity|]. apply upd_other. discriminate.
Qed.

Lemma add_host_present i hn x : get_host (fst (add_host i hn x)) hn <> None.
Proof.
  destruct x as [s T]. unfold add_host. cbn [fst].
  destruct (get_host s hn) eqn:E; cbn [fst]; [rewrite E; discriminate|].
  unfold get_host. rewrite upd_same. discriminate.
Qed.

(* ---- add_backend: the hosts are untouched, the outcome is decided by the world ---- *)
Definition resolve (w : world) (i : ingress) (r : prule) : option string :=
  match find_svc w (i_ns i ++ "/" ++ r_svc r) with
  | None => None
  | Some svc =>
      match pick_port svc (r_port r) with
      | None => None
      | Some p => Some (backend_id (s_ns svc) (s_name svc) (sp_target p))
      end
  end.

Lemma add_backend_spec w i hn r x :
  snd (add_backend w i hn r x) = resolve w i r /\
  forall h, fst (fst (add_backend w i hn r x)) (THost h) = fst x (THost h).
Proof.
  destruct x as [s T]. unfold add_backend, resolve.
  destruct (find_svc w (i_ns i ++ "/" ++ r_svc r)) as [svc|]; [|split; reflexivity].
  destruct (pick_port svc _) as [p|]; [|split; reflexivity].
  split; [reflexivity|]. intros h. cbn [fst].
  destruct (get_back s _); cbn [fst]; [reflexivity|]. apply upd_back_host.
Qed.

(* ---- sync_path ---- *)
Lemma sync_path_other w i hn x r h : h <> hn -> fst (sync_path w i hn x r) (THost h) = fst x (THost h).
Proof.
  intros Hne. unfold sync_path.
  destruct (get_host (fst x) hn) as [hr|]; [|reflexivity].
  destruct (has_path hr _ _); [reflexivity|].
  destruct (add_backend w i hn r x) as [x1 ob] eqn:E.
  pose proof (add_backend_spec w i hn r x) as [_ Hh]. rewrite E in Hh. cbn [fst] in Hh.
  destruct ob as [bid|]; [|apply Hh].
  destruct x1 as [s1 T1]. destruct (get_host s1 hn); [|apply Hh].
  cbn [fst]. rewrite upd_other by congruence. apply Hh.
Qed.

Lemma sync_path_agree w i hn r x1 x2 h :
  agree h x1 x2 -> agree h (sync_path w i hn x1 r) (sync_path w i hn x2 r).
Proof.
  intros Ha. unfold agree. destruct (String.eqb_spec h hn) as [->|Hne];
    [|rewrite !sync_path_other by exact Hne; exact Ha].
  unfold sync_path. rewrite (get_host_agree hn x1 x2 Ha).
  destruct (get_host (fst x2) hn) as [hr|]; [|exact Ha].
  destruct (has_path hr _ _); [exact Ha|].
  pose proof (add_backend_spec w i hn r x1) as [Ho1 Hh1].
  pose proof (add_backend_spec w i hn r x2) as [Ho2 Hh2].
  destruct (add_backend w i hn r x1) as [[s1 T1] ob1]. destruct (add_backend w i hn r x2) as [[s2 T2] ob2].
  cbn [fst snd] in *. subst ob1 ob2.
  destruct (resolve w i r) as [bid|]; cbn [fst]; [|rewrite Hh1, Hh2; exact Ha].
  assert (Hg : get_host s1 hn = get_host s2 hn) by (unfold get_host; rewrite Hh1, Hh2, Ha; reflexivity).
  rewrite Hg. destruct (get_host s2 hn); cbn [fst]; [|rewrite Hh1, Hh2; exact Ha].
  rewrite !upd_same. reflexivity.
Qed.

(* ---- folds ---- *)
Lemma fold_agree {A} (f : st -> A -> st) (l : list A) h :
  (forall a x1 x2, agree h x1 x2 -> agree h (f x1 a) (f x2 a)) ->
  forall x1 x2, agree h x1 x2 -> agree h (fold_left f l x1) (fold_left f l x2).
Proof.
  intros Hf. induction l as [|a l IH]; intros x1 x2 Ha; cbn; [exact Ha|]. apply IH. apply Hf. exact Ha.
Qed.

Lemma fold_other {A} (f : st -> A -> st) (l : list A) h :
  (forall a x, In a l -> fst (f x a) (THost h) = fst x (THost h)) ->
  forall x, fst (fold_left f l x) (THost h) = fst x (THost h).
Proof.
  induction l as [|a l IH]; intros Hf x; cbn; [reflexivity|].
  rewrite IH by (intros; apply Hf; right; assumption). apply Hf. left. reflexivity.
Qed.

(* ---- sync_rule ---- *)
Lemma sync_rule_agree w i rule x1 x2 h :
  agree h x1 x2 -> agree h (sync_rule w i x1 rule) (sync_rule w i x2 rule).
Proof.
  intros Ha. unfold sync_rule. apply fold_agree.
  - intros r y1 y2. apply sync_path_agree.
  - apply add_host_agree. destruct (i_class i); exact Ha.
Qed.

Lemma sync_rule_other w i rule x h :
  h <> norm_host (fst rule) -> fst (sync_rule w i x rule) (THost h) = fst x (THost h).
Proof.
  intros Hne. unfold sync_rule. rewrite fold_other.
  - rewrite add_host_other by exact Hne. destruct (i_class i); reflexivity.
  - intros r y _. apply sync_path_other. exact Hne.
Qed.

(* ---- tls ---- *)
Lemma sync_tls_host_other w i sec x hn h :
  h <> hn -> fst (sync_tls_host w i sec x hn) (THost h) = fst x (THost h).
Proof.
  intros Hne. unfold sync_tls_host.
  pose proof (add_host_other i hn x h Hne) as Hh.
  destruct (add_host i hn x) as [s1 T1]. cbn [fst] in Hh.
  destruct (tls_of w i sec T1) as [hash T2].
  destruct (get_host s1 hn) as [hr|]; [|exact Hh].
  destruct (h_tls hr); cbn [fst]; [exact Hh|]. rewrite upd_other by congruence. exact Hh.
Qed.

Lemma tls_of_hash w i sec T1 T2 : fst (tls_of w i sec T1) = fst (tls_of w i sec T2).
Proof. unfold tls_of. destruct (String.eqb sec ""); [reflexivity|]. destruct (assoc _ _); reflexivity. Qed.

Lemma sync_tls_host_agree w i sec hn x1 x2 h :
  agree h x1 x2 -> agree h (sync_tls_host w i sec x1 hn) (sync_tls_host w i sec x2 hn).
Proof.
  intros Ha. unfold agree. destruct (String.eqb_spec h hn) as [->|Hne];
    [|rewrite !sync_tls_host_other by exact Hne; exact Ha].
  unfold sync_tls_host.
  pose proof (add_host_agree i hn x1 x2 hn Ha) as Hb. unfold agree in Hb.
  destruct (add_host i hn x1) as [s1 T1]. destruct (add_host i hn x2) as [s2 T2]. cbn [fst] in Hb.
  pose proof (tls_of_hash w i sec T1 T2) as Hh.
  destruct (tls_of w i sec T1) as [hash1 T1']. destruct (tls_of w i sec T2) as [hash2 T2'].
  cbn [fst] in Hh. subst hash2.
  assert (Hg : get_host s1 hn = get_host s2 hn) by (unfold get_host; rewrite Hb; reflexivity).
  rewrite Hg. destruct (get_host s2 hn) as [hr|]; cbn [fst]; [|exact Hb].
  destruct (h_tls hr); cbn [fst]; [exact Hb|]. rewrite !upd_same. reflexivity.
Qed.

Lemma sync_tls_agree w i blk x1 x2 h :
  agree h x1 x2 -> agree h (sync_tls w i x1 blk) (sync_tls w i x2 blk).
Proof. intros Ha. unfold sync_tls. apply fold_agree; [|exact Ha]. intros hn y1 y2. apply sync_tls_host_agree. Qed.

Lemma sync_tls_other w i blk x h :
  ~ In h (fst blk) -> fst (sync_tls w i x blk) (THost h) = fst x (THost h).
Proof.
  intros Hn. unfold sync_tls. apply fold_other. intros hn y Hin. apply sync_tls_host_other.
  intros ->. contradiction.
Qed.

(* ---- sync_ingress: pointwise local on hosts, frame outside the declared hosts ---- *)
Theorem sync_ingress_agree w i x1 x2 h :
  agree h x1 x2 -> agree h (sync_ingress w x1 i) (sync_ingress w x2 i).
Proof.
  intros Ha. unfold sync_ingress. apply fold_agree; [intros blk y1 y2; apply sync_tls_agree|].
  apply fold_agree; [intros rule y1 y2; apply sync_rule_agree|exact Ha].
Qed.

Theorem sync_ingress_frame w i x h :
  declares i h = false -> fst (sync_ingress w x i) (THost h) = fst x (THost h).
Proof.
  intros Hd. assert (Hn : ~ In h (declared i)) by (rewrite <- declares_In, Hd; discriminate).
  unfold declared in Hn. unfold sync_ingress.
  rewrite fold_other.
  - apply fold_other. intros rule y Hin. apply sync_rule_other. intros ->.
    apply Hn. apply in_or_app. left. apply in_map_iff. exists rule. split; [reflexivity|exact Hin].
  - intros blk y Hin. apply sync_tls_other. intros Hh. apply Hn. apply in_or_app. right.
    apply in_flat_map. exists blk. split; assumption.
Qed.

(* ---- instance of the generic theory: hosts level ---- *)
(* run at hosts level: the hosts as sync_ingress leaves them, the backends as they were *)
Definition hrun (w : world) (i : ingress) (s : cstate) : cstate :=
  fun t => match t with
           | THost _ => fst (sync_ingress w (s, []) i) t
           | TBack _ => s t
           end.
Definition hfp (w : world) (i : ingress) (t : tgt) : bool :=
  match t with THost h => declares i h | TBack _ => false end.

Lemma hrun_frame w i s t : hfp w i t = false -> hrun w i s t = s t.
Proof. destruct t as [h|b]; cbn; [|reflexivity]. intros Hd. apply (sync_ingress_frame w i (s, []) h Hd). Qed.

Lemma hrun_local w i s1 s2 :
  (forall t, hfp w i t = true -> s1 t = s2 t) ->
  forall t, hfp w i t = true -> hrun w i s1 t = hrun w i s2 t.
Proof.
  intros H t Ht. destruct t as [h|b]; cbn in *; [|discriminate].
  apply (sync_ingress_agree w i (s1, []) (s2, []) h). unfold agree. cbn. apply H. exact Ht.
Qed.

(* the real run and the hosts-level run agree on every host, whatever the tracker *)
Lemma sync_ingress_hrun w i s T h : fst (sync_ingress w (s, T) i) (THost h) = hrun w i s (THost h).
Proof. cbn. apply (sync_ingress_agree w i (s, T) (s, []) h). reflexivity. Qed.

Definition hosts_eq (s1 s2 : cstate) : Prop := forall h, s1 (THost h) = s2 (THost h).

Lemma fold_sync_hosts w l : forall x s,
  hosts_eq (fst x) s ->
  hosts_eq (fst (fold_left (sync_ingress w) l x)) (runs world ingress tgt content hrun w l s).
Proof.
  induction l as [|i l IH]; intros x s H; cbn [fold_left runs]; [exact H|].
  apply IH. intros h. destruct x as [s0 T]. rewrite sync_ingress_hrun. cbn.
  apply (sync_ingress_agree w i (s0, []) (s, []) h). unfold agree. cbn. apply H.
Qed.

(* one partial step at hosts level: the generic theorem applied to the model *)
Theorem partial_step_hosts (w w' : world) (ord ord' : list ingress)
        (dirty : ingress -> bool) (X : tgt -> bool) (s : cstate) :
  filter (fun i => negb (dirty i)) ord = filter (fun i => negb (dirty i)) ord' ->
  seq tgt content (runs world ingress tgt content hrun w (filter (fun i => negb (dirty i)) ord) (empty tgt content))
                  (runs world ingress tgt content hrun w' (filter (fun i => negb (dirty i)) ord) (empty tgt content)) ->
  (forall k, In k ord -> dirty k = false -> forall t, hfp w k t = true -> X t = false) ->
  (forall d, In d ord -> dirty d = true -> forall t, hfp w d t = true -> X t = true) ->
  (forall d k, In d ord' -> In k ord' -> dirty d = true -> dirty k = false ->
     forall t, hfp w' d t = true -> hfp w' k t = false) ->
  seq tgt content s (full world ingress tgt content hrun w ord) ->
  seq tgt content (partial world ingress tgt content hrun w' (filter dirty ord') X s)
                  (full world ingress tgt content hrun w' ord').
Proof.
  intros HK Hsame HcX HdX Hcov Hs.
  eapply (partial_step world ingress tgt content hrun hfp hrun_frame hrun_local w w' ord ord' dirty X);
    eassumption.
Qed.

(* ---- the model's sync_full / sync_partial, seen at hosts level ---- *)
Notation hruns := (runs world ingress tgt content hrun).
Notation hfull := (full world ingress tgt content hrun).
Notation hseq := (seq tgt content).

Lemma sync_full_hosts w : hosts_eq (fst (sync_full w)) (hfull w (sort_ings (w_ings w))).
Proof. unfold sync_full, full. apply fold_sync_hosts. intros h. reflexivity. Qed.

(* the dirty targets of a batch, read off what QueryLinks returned *)
Definition Xof (out : list node) (t : tgt) : bool :=
  match t with
  | THost h => mem node_eqb (KHost, h) out
  | TBack b => mem node_eqb (KBackend, b) out
  end.

Lemma remove_all_remove s out t : remove_all s out t = remove tgt content (Xof out) s t.
Proof. unfold remove_all, remove, Xof. destruct t; reflexivity. Qed.

(* Partial sync of the model, hosts level. [ings_ok] says that the ingresses the batch
   makes the model re-sync are the dirty ones among the sorted ingresses of the new
   world; the other premises are the conditions of the generic theorem, with X read off
   QueryLinks' answer. *)
Theorem sync_partial_hosts (w w' : world) (s : cstate) (T : ctracker) (b : batch)
        (dirty : ingress -> bool) (s' : cstate) (T' : ctracker) (out : list node) (T2 : ctracker) :
  let ord := sort_ings (w_ings w) in
  let ord' := sort_ings (w_ings w') in
  let T1 := fold_left (track_added_ing w' s) (b_add b ++ b_upd b) T in
  query_remove node_eqb T1 (b_links b) = Some (out, T2) ->
  sync_partial w' (s, T) b = Some (s', T') ->
  (* ings_ok *)
  sort_ings (flat_map (fun n => opt_list (pick_ing w' b n)) (merge_names (names_of KIngress out) b))
    = filter dirty ord' ->
  filter (fun i => negb (dirty i)) ord = filter (fun i => negb (dirty i)) ord' ->
  hseq (hruns w (filter (fun i => negb (dirty i)) ord) (empty tgt content))
       (hruns w' (filter (fun i => negb (dirty i)) ord) (empty tgt content)) ->
  (forall k, In k ord -> dirty k = false -> forall t, hfp w k t = true -> Xof out t = false) ->
  (forall d, In d ord -> dirty d = true -> forall t, hfp w d t = true -> Xof out t = true) ->
  (forall d k, In d ord' -> In k ord' -> dirty d = true -> dirty k = false ->
     forall t, hfp w' d t = true -> hfp w' k t = false) ->
  hosts_eq s (fst (sync_full w)) ->
  hosts_eq s' (fst (sync_full w')).
Proof.
  intros ord ord' T1 Hq Hp Hings HK Hsame HcX HdX Hcov Hs h.
  unfold sync_partial in Hp. fold T1 in Hp. rewrite Hq in Hp. rewrite Hings in Hp.
  injection Hp as Hp. apply (f_equal fst) in Hp. cbn [fst] in Hp. subst s'.
  (* hosts of the partial result = generic partial on any state that agrees with s on hosts *)
  set (s0 := (fun t => match t with THost _ => s t | TBack _ => None end) : cstate).
  assert (Hfull : hseq s0 (hfull w ord)).
  { intros t. destruct t as [h0|b0]; cbn.
    - rewrite (Hs h0). apply sync_full_hosts.
    - unfold full. symmetry. apply (runs_frame world ingress tgt content hrun hfp hrun_frame). intros; reflexivity. }
  pose proof (partial_step_hosts w w' ord ord' dirty (Xof out) s0 HK Hsame HcX HdX Hcov Hfull (THost h)) as Hgen.
  rewrite (sync_full_hosts w' h). fold ord'. rewrite <- Hgen. unfold partial.
  apply (fold_sync_hosts w' (filter dirty ord') (remove_all s out, T2) (remove tgt content (Xof out) s0)).
  intros h0. cbn [fst]. rewrite remove_all_remove. unfold remove. destruct (Xof out (THost h0)); reflexivity.
Qed.
