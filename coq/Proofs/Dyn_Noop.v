(* C11: once an update was applied, re-creating the same backend again is a no-op, for ever:
   noop_no_reload composes over histories of spurious events. *)
From Coq Require Import List String Ascii Bool Arith ZArith NArith Lia Permutation.
From HI Require Import Model.Dyn Proofs.Dyn_Base Proofs.Dyn_Pair Proofs.Dyn_Refine Proofs.Dyn_Step.
Import ListNotations.
Open Scope string_scope.

Lemma ep_eqb_refl : forall e, ep_eqb e e = true.
Proof. intros e. apply ep_eqb_eq. reflexivity. Qed.

Lemma recreated_rename : forall c n, recreated (set_name c n) c.
Proof. intros [a b c d e f g h i j k] n. unfold recreated. apply ep_eqb_eq. reflexivity. Qed.
Lemma recreated_self : forall c, recreated c c.
Proof. intros [a b c d e f g h i j k]. unfold recreated. apply ep_eqb_eq. reflexivity. Qed.

Lemma rename_cases : forall ps fs c, rename ps fs c = c \/ exists n, rename ps fs c = set_name c n.
Proof.
  intros ps fs c. unfold rename. destruct (slot_of_pairs _ _); [right; eauto|].
  destruct (slot_of_fills _ _); [right; eauto|left; reflexivity].
Qed.

Lemma filter_enabled_renamed : forall ps fs cur, cur_enabled cur ->
  filter ep_enabled (map (rename ps fs) cur) = map (rename ps fs) cur.
Proof.
  intros ps fs cur Hen. induction Hen as [|c l Hc _ IH]; [reflexivity|]. cbn [map filter].
  assert (E : ep_enabled (rename ps fs c) = true).
  { destruct (rename_cases ps fs c) as [->|[n ->]]; exact Hc. }
  rewrite E. f_equal. exact IH.
Qed.

Lemma filter_enabled_layout : forall ps fs cur cps (rest : list endpoint),
  cur_enabled cur -> Forall2 copy_of rest cps ->
  filter ep_enabled (map (rename ps fs) cur ++ cps) = map (rename ps fs) cur.
Proof.
  intros ps fs cur cps rest Hen F. rewrite filter_app.
  assert (E1 : filter ep_enabled cps = []).
  { clear -F. induction F as [|e cp l l' [_ [_ [Hd _]]] _ IH]; [reflexivity|]. cbn [filter]. rewrite Hd. exact IH. }
  rewrite E1, app_nil_r. clear E1 F.
  induction Hen as [|c l Hc _ IH]; [reflexivity|]. cbn [map filter].
  assert (E : ep_enabled (rename ps fs c) = true).
  { destruct (rename_cases ps fs c) as [->|[n ->]]; exact Hc. }
  rewrite E. f_equal. exact IH.
Qed.

(* the layout an applied update leaves is in the no-op relation with the backend just applied *)
Theorem noop_after_update : forall old cur resp,
  cur_enabled (b_eps cur) -> b_resolver cur = "" ->
  let r := check_backend_pair old cur resp in
  r_updated r = true ->
  noop_eps (r_eps r) (b_eps cur) /\ (dup_target (b_eps cur) = false -> dup_target (r_eps r) = false).
Proof.
  intros old cur resp Hen Hres. cbv zeta. unfold check_backend_pair.
  destruct (Nat.ltb_spec (List.length (b_eps old)) (List.length (b_eps cur))) as [|Hle]; [cbn; discriminate|].
  rewrite Hres. cbn [String.eqb negb].
  assert (Hself : noop_eps (b_eps cur) (b_eps cur)).
  { assert (Hf : filter ep_enabled (b_eps cur) = b_eps cur).
    { clear -Hen. induction Hen as [|c l Hc _ IH]; [reflexivity|]. cbn [filter]. rewrite Hc. f_equal. exact IH. }
    split; rewrite Hf.
    - intros c Hc. exists c. split; [exact Hc|]. split; [reflexivity|apply recreated_self].
    - intros o Ho. exists o. split; [exact Ho|reflexivity]. }
  destruct (b_dyn cur); cbn [negb].
  2:{ cbn [r_updated r_eps]. intros _. split; [exact Hself|auto]. }
  destruct (dup_target (b_eps old)); [cbn; discriminate|].
  destruct (dup_target (b_eps cur)) eqn:D2; [cbn; discriminate|]. cbn [orb].
  destruct (pair_loop _ _ _) as [ps added] eqn:L.
  destruct (exec_pairs _ _ ps resp 0) as [ok1 w1].
  destruct (exec_fills _ _ _ resp _) as [ok2 w2].
  cbn [r_updated r_eps]. intros _.
  set (fs := combine added _).
  destruct (Nat.ltb _ _).
  - (* (cannot happen, see no_panic) the layout is the renamed endpoints *)
    pose proof (filter_enabled_renamed ps fs (b_eps cur) Hen) as Hf.
    split.
    + split; rewrite Hf.
      * intros c Hc. exists (rename ps fs c). split; [apply in_map; exact Hc|].
        destruct (rename_cases ps fs c) as [->|[n ->]]; split; try reflexivity; [apply recreated_self|apply recreated_rename].
      * intros o Ho. apply in_map_iff in Ho. destruct Ho as [c [<- Hc]]. exists c. split; [exact Hc|].
        destruct (rename_cases ps fs c) as [->|[n ->]]; reflexivity.
    + intros _. unfold dup_target in *. rewrite Hf, map_map.
      replace (map (fun x => ep_target (rename ps fs x)) (b_eps cur)) with (map ep_target (b_eps cur)).
      * assert (Hfc : filter ep_enabled (b_eps cur) = b_eps cur).
        { clear -Hen. induction Hen as [|c l Hc _ IH]; [reflexivity|]. cbn [filter]. rewrite Hc. f_equal. exact IH. }
        rewrite Hfc in D2. exact D2.
      * apply map_ext. intros c. destruct (rename_cases ps fs c) as [->|[n ->]]; reflexivity.
  - destruct (copy_empties_spec (b_initw cur) (skipn (List.length added) (filter (fun e => negb (ep_enabled e)) (b_eps old) ++ vacated ps))
                (map (rename ps fs) (b_eps cur))) as [cps [E F]].
    rewrite E.
    pose proof (filter_enabled_layout ps fs (b_eps cur) cps _ Hen F) as Hf.
    split.
    + split; rewrite Hf.
      * intros c Hc. exists (rename ps fs c). split; [apply in_map; exact Hc|].
        destruct (rename_cases ps fs c) as [->|[n ->]]; split; try reflexivity; [apply recreated_self|apply recreated_rename].
      * intros o Ho. apply in_map_iff in Ho. destruct Ho as [c [<- Hc]]. exists c. split; [exact Hc|].
        destruct (rename_cases ps fs c) as [->|[n ->]]; reflexivity.
    + intros _. unfold dup_target in *. rewrite Hf, map_map.
      replace (map (fun x => ep_target (rename ps fs x)) (b_eps cur)) with (map ep_target (b_eps cur)).
      * assert (Hfc : filter ep_enabled (b_eps cur) = b_eps cur).
        { clear -Hen. induction Hen as [|c l Hc _ IH]; [reflexivity|]. cbn [filter]. rewrite Hc. f_equal. exact IH. }
        rewrite Hfc in D2. exact D2.
      * apply map_ext. intros c. destruct (rename_cases ps fs c) as [->|[n ->]]; reflexivity.
Qed.

Lemma cfg_eq_except_refl_r : forall names blank a b, cfg_eq_except names blank a b = true -> cfg_eq_except names blank b b = true.
Proof.
  induction names as [|n names IH]; intros blank a b H; destruct a as [|x a], b as [|y b]; cbn [cfg_eq_except] in *; try discriminate; [reflexivity|].
  apply andb_true_iff in H. destruct H as [_ H]. rewrite N.eqb_refl, orb_true_r. cbn [andb]. eapply IH; eauto.
Qed.

(* a history of spurious events: the backend is re-created again and again with the same content,
   each time against the layout the previous round left; whatever the socket would answer *)
Fixpoint resync (k : nat) (old cur : backend) (resps : nat -> nat -> answer) : backend :=
  match k with
  | O => old
  | S k' => let o := resync k' old cur resps in set_eps cur (r_eps (check_backend_pair o cur (resps k')))
  end.

Theorem noop_resync_history : forall k old cur resps,
  back_cfg_equal old cur = true -> b_dyn cur = true -> b_resolver cur = "" ->
  dup_target (b_eps old) = false -> dup_target (b_eps cur) = false -> cur_enabled (b_eps cur) ->
  noop_eps (b_eps old) (b_eps cur) ->
  let o := resync k old cur resps in
  let r := check_backend_pair o cur (resps k) in
  r_updated r = true /\ r_cmds r = [] /\ List.length (r_eps r) = List.length (b_eps old).
Proof.
  intros k old cur resps Hcfg Hdyn Hres D1 D2 Hen Hn. cbv zeta.
  assert (Inv : back_cfg_equal (resync k old cur resps) cur = true /\
                dup_target (b_eps (resync k old cur resps)) = false /\
                noop_eps (b_eps (resync k old cur resps)) (b_eps cur) /\
                List.length (b_eps (resync k old cur resps)) = List.length (b_eps old)).
  { induction k as [|k IH]; cbn [resync]; [auto|].
    destruct IH as [I1 [I2 [I3 I4]]].
    destruct (noop_no_reload _ cur (resps k) I1 Hdyn Hres I2 D2 Hen I3) as [U [_ Ln]].
    destruct (noop_after_update (resync k old cur resps) cur (resps k) Hen Hres U) as [N1 N2].
    cbn [set_eps b_eps b_cfg]. split; [|split; [|split]].
    - unfold back_cfg_equal in *. cbn [b_cfg]. eapply cfg_eq_except_refl_r; eauto.
    - apply N2. exact D2.
    - exact N1.
    - rewrite Ln. exact I4. }
  destruct Inv as [I1 [I2 [I3 I4]]].
  destruct (noop_no_reload _ cur (resps k) I1 Hdyn Hres I2 D2 Hen I3) as [U [C Ln]].
  split; [exact U|]. split; [exact C|]. rewrite Ln. exact I4.
Qed.
