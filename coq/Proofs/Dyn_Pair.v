(* Structure of checkBackendPair's pairing (Model/Dyn.v pair_loop) and what follows from it:
   no index out of range (no_panic), dyn_fault_reloads (C02), in_capacity_no_reload (C11). *)
From Coq Require Import List String Ascii Bool Arith ZArith NArith Lia Permutation.
From HI Require Import Model.Dyn Proofs.Dyn_Base.
Import ListNotations.
Open Scope string_scope.

(* ------------------------------------------------------------------ generic list facts *)

Lemma filter_partition_perm : forall {A} (f : A -> bool) l,
  Permutation l (filter f l ++ filter (fun x => negb (f x)) l).
Proof.
  induction l as [|x l IH]; cbn [filter app]; [constructor|].
  destruct (f x); cbn [negb app].
  - constructor. exact IH.
  - eapply perm_trans; [apply perm_skip; exact IH|]. apply Permutation_middle.
Qed.

Lemma filter_partition_length : forall {A} (f : A -> bool) l,
  (List.length (filter f l) + List.length (filter (fun x => negb (f x)) l) = List.length l)%nat.
Proof.
  intros. rewrite <- app_length. symmetry. apply Permutation_length. apply filter_partition_perm.
Qed.

Lemma NoDup_map_injective : forall {A B} (f : A -> B) l a b,
  NoDup (map f l) -> In a l -> In b l -> f a = f b -> a = b.
Proof.
  induction l as [|x l IH]; intros a b Hn Ha Hb E; [contradiction|].
  cbn [map] in Hn. inversion Hn as [|? ? Hx Hn']; subst.
  destruct Ha as [->|Ha], Hb as [->|Hb]; auto.
  - exfalso. apply Hx. rewrite E. apply in_map. exact Hb.
  - exfalso. apply Hx. rewrite <- E. apply in_map. exact Ha.
Qed.

(* ------------------------------------------------------------------ sorting *)

Lemma insert_by_target_perm : forall e l, Permutation (insert_by_target e l) (e :: l).
Proof.
  induction l as [|x l IH]; cbn [insert_by_target]; [constructor; constructor|].
  destruct (String.leb (ep_target e) (ep_target x)); [reflexivity|].
  eapply perm_trans; [apply perm_skip; exact IH|]. apply perm_swap.
Qed.

Lemma sort_by_target_perm : forall l, Permutation (sort_by_target l) l.
Proof.
  induction l as [|x l IH]; cbn; [constructor|].
  eapply perm_trans; [apply insert_by_target_perm|]. constructor. exact IH.
Qed.

(* ------------------------------------------------------------------ find_target *)

Lemma find_target_some : forall t l e, find_target t l = Some e -> In e l /\ ep_target e = t.
Proof.
  unfold find_target. intros t l e H. apply find_some in H. destruct H as [Hi He].
  apply String.eqb_eq in He. auto.
Qed.

Lemma find_target_none : forall t l, find_target t l = None -> forall e, In e l -> ep_target e <> t.
Proof.
  unfold find_target. intros t l H e Hi E.
  eapply find_none in H; eauto. cbn in H. rewrite E, String.eqb_refl in H. discriminate.
Qed.

Lemma find_target_in : forall l e, In e l -> exists e', find_target (ep_target e) l = Some e'.
Proof.
  intros l e Hi. destruct (find_target (ep_target e) l) eqn:E; eauto.
  exfalso. eapply find_target_none in E; eauto.
Qed.

Lemma find_target_unique : forall l e, NoDup (map ep_target l) -> In e l -> find_target (ep_target e) l = Some e.
Proof.
  intros l e Hn Hi. destruct (find_target_in l e Hi) as [e' E]. rewrite E. f_equal.
  apply find_target_some in E. destruct E as [Hi' Et].
  eapply NoDup_map_injective; eauto.
Qed.

(* ------------------------------------------------------------------ pair_loop *)

Definition some_list (x : option endpoint) : list endpoint := match x with Some c => [c] | None => [] end.
Definition somes (ps : list (endpoint * option endpoint)) : list endpoint := flat_map (fun p => some_list (snd p)) ps.
Definition matched (sorted cur : list endpoint) : list endpoint :=
  flat_map (fun o => some_list (find_target (ep_target o) cur)) sorted.

Lemma pair_loop_spec : forall sorted cur added0 ps added,
  pair_loop sorted cur added0 = (ps, added) ->
  map fst ps = sorted /\
  (exists assigned, added0 = (assigned ++ added)%list /\ Permutation (somes ps) (matched sorted cur ++ assigned)) /\
  (vacated ps <> [] -> added = []) /\
  (List.length (vacated ps) + List.length (somes ps) = List.length sorted)%nat.
Proof.
  induction sorted as [|o rest IH]; intros cur added0 ps added H; cbn [pair_loop] in H.
  - inversion H; subst. split; [reflexivity|]. split; [|split; [intros Hc; exfalso; apply Hc; reflexivity|reflexivity]].
    exists []. split; [reflexivity|constructor].
  - destruct (find_target (ep_target o) cur) as [c|] eqn:F.
    + destruct (pair_loop rest cur added0) as [l a] eqn:E. inversion H; subst. clear H.
      destruct (IH _ _ _ _ E) as [Hf [[asg [Ha Hp]] [Hv Hl]]].
      split; [|split; [|split]].
      * cbn [map fst]. f_equal. exact Hf.
      * exists asg. split; [exact Ha|].
        unfold somes, matched in *. cbn [flat_map snd]. rewrite F. cbn [some_list app].
        constructor. exact Hp.
      * exact Hv.
      * unfold somes, vacated in *. cbn [filter snd flat_map map some_list app List.length] in *. lia.
    + destruct added0 as [|a0 added'].
      * destruct (pair_loop rest cur []) as [l a] eqn:E. inversion H; subst. clear H.
        destruct (IH _ _ _ _ E) as [Hf [[asg [Ha Hp]] [Hv Hl]]].
        symmetry in Ha. apply app_eq_nil in Ha. destruct Ha as [-> ->].
        split; [|split; [|split]].
        -- cbn [map fst]. f_equal. exact Hf.
        -- exists []. split; [reflexivity|].
           unfold somes, matched in *. cbn [flat_map snd]. rewrite F. cbn [some_list app]. exact Hp.
        -- intros _. reflexivity.
        -- unfold somes, vacated in *. cbn [filter snd flat_map map some_list app List.length] in *. lia.
      * destruct (pair_loop rest cur added') as [l a] eqn:E. inversion H; subst. clear H.
        destruct (IH _ _ _ _ E) as [Hf [[asg [Ha Hp]] [Hv Hl]]].
        split; [|split; [|split]].
        -- cbn [map fst]. f_equal. exact Hf.
        -- exists (a0 :: asg). split; [cbn [app]; f_equal; exact Ha|].
           unfold somes, matched in *. cbn [flat_map snd]. rewrite F. cbn [some_list app].
           eapply perm_trans; [apply perm_skip; exact Hp|]. apply Permutation_middle.
        -- exact Hv.
        -- unfold somes, vacated in *. cbn [filter snd flat_map map some_list app List.length] in *. lia.
Qed.

Lemma matched_targets : forall sorted cur,
  map ep_target (matched sorted cur) =
  filter (fun t => match find_target t cur with Some _ => true | None => false end) (map ep_target sorted).
Proof.
  induction sorted as [|o rest IH]; intros cur; [reflexivity|].
  unfold matched in *. cbn [flat_map map filter].
  destruct (find_target (ep_target o) cur) as [c|] eqn:F; cbn [some_list app map].
  - apply find_target_some in F. destruct F as [_ ->]. f_equal. apply IH.
  - apply IH.
Qed.

Lemma in_matched : forall sorted cur x,
  In x (matched sorted cur) <-> exists o, In o sorted /\ find_target (ep_target o) cur = Some x.
Proof.
  intros sorted cur x. unfold matched. rewrite in_flat_map. split.
  - intros [o [Ho Hx]]. exists o. split; auto.
    destruct (find_target (ep_target o) cur); cbn in Hx; [destruct Hx as [->|[]]; reflexivity|contradiction].
  - intros [o [Ho Hx]]. exists o. split; auto. rewrite Hx. left; reflexivity.
Qed.

(* the new endpoints that have the target of an enabled old endpoint are the matched ones *)
Lemma matched_perm_filter : forall en sorted cur,
  Permutation sorted en -> NoDup (map ep_target en) -> NoDup (map ep_target cur) ->
  Permutation (filter (fun c => match find_target (ep_target c) en with None => false | Some _ => true end) cur)
              (matched sorted cur).
Proof.
  intros en sorted cur Hp Hen Hcur.
  assert (Hs : NoDup (map ep_target sorted)).
  { eapply Permutation_NoDup; [|exact Hen]. apply Permutation_map. symmetry; exact Hp. }
  apply NoDup_Permutation.
  - apply NoDup_filter. eapply NoDup_map_inv; eauto.
  - eapply NoDup_map_inv with (f := ep_target). rewrite matched_targets. apply NoDup_filter. exact Hs.
  - intros x. rewrite filter_In, in_matched. split.
    + intros [Hx Hf]. destruct (find_target (ep_target x) en) as [o|] eqn:F; [|discriminate].
      apply find_target_some in F. destruct F as [Ho Et].
      exists o. split; [eapply Permutation_in; [symmetry; exact Hp|exact Ho]|].
      rewrite Et. apply find_target_unique; auto.
    + intros [o [Ho F]]. apply find_target_some in F. destruct F as [Hx Et].
      split; auto.
      assert (Ho' : In o en) by (eapply Permutation_in; eauto).
      rewrite Et. destruct (find_target_in en o Ho') as [o' ->]. reflexivity.
Qed.

(* ------------------------------------------------------------------ the pairing of checkBackendPair *)

Section Pairing.
  Variables old cur : list endpoint.
  Let en := filter ep_enabled old.
  Let empty0 := filter (fun e => negb (ep_enabled e)) old.
  Let added0 := filter (fun c => match find_target (ep_target c) en with None => true | Some _ => false end) cur.

  Hypothesis Hold : dup_target old = false.
  Hypothesis Hcur : NoDup (map ep_target cur).

  Variables (ps : list (endpoint * option endpoint)) (added : list endpoint).
  Hypothesis Hloop : pair_loop (sort_by_target en) cur added0 = (ps, added).

  Lemma pairing_en_nodup : NoDup (map ep_target en).
  Proof. unfold dup_target in Hold. apply has_dup_false_NoDup in Hold. exact Hold. Qed.

  (* every new endpoint sits in exactly one place: a pair, or the left-over added list *)
  Lemma pairing_perm : Permutation cur (somes ps ++ added).
  Proof.
    destruct (pair_loop_spec _ _ _ _ _ Hloop) as [_ [[asg [Ha Hp]] _]].
    eapply perm_trans; [apply (filter_partition_perm (fun c => match find_target (ep_target c) en with None => false | Some _ => true end))|].
    assert (E : filter (fun x => negb (match find_target (ep_target x) en with None => false | Some _ => true end)) cur = added0).
    { unfold added0. apply filter_ext. intros a. destruct (find_target (ep_target a) en); reflexivity. }
    rewrite E, Ha.
    eapply perm_trans.
    - apply Permutation_app_tail. apply matched_perm_filter with (sorted := sort_by_target en); auto using sort_by_target_perm, pairing_en_nodup.
    - rewrite app_assoc. apply Permutation_app_tail. symmetry. exact Hp.
  Qed.

  Lemma pairing_counts :
    (List.length cur = List.length (somes ps) + List.length added)%nat /\
    (List.length (vacated ps) + List.length (somes ps) = List.length en)%nat /\
    (List.length en + List.length empty0 = List.length old)%nat /\
    (vacated ps <> [] -> added = []).
  Proof.
    destruct (pair_loop_spec _ _ _ _ _ Hloop) as [_ [_ [Hv Hl]]].
    repeat split.
    - rewrite (Permutation_length pairing_perm), app_length. reflexivity.
    - rewrite Hl. apply Permutation_length. apply sort_by_target_perm.
    - apply filter_partition_length.
    - exact Hv.
  Qed.

  (* line 295 `empty[i]` stays in range *)
  Lemma pairing_no_panic : (List.length cur <= List.length old)%nat ->
    (List.length added <= List.length (empty0 ++ vacated ps))%nat.
  Proof.
    intros Hle. destruct pairing_counts as [H1 [H2 [H3 _]]]. rewrite app_length. lia.
  Qed.
End Pairing.

(* ------------------------------------------------------------------ C02: no index out of range *)

Lemma cur_nodup_of_dup_target : forall cur,
  Forall (fun c => ep_enabled c = true) cur -> dup_target cur = false -> NoDup (map ep_target cur).
Proof.
  intros cur Hen Hd. unfold dup_target in Hd. apply has_dup_false_NoDup in Hd.
  replace (filter ep_enabled cur) with cur in Hd; auto.
  clear Hd. induction Hen as [|x l Hx _ IH]; [reflexivity|]. cbn [filter]. rewrite Hx. f_equal. exact IH.
Qed.

(* the new endpoints are enabled (AddEndpoint), as every converter creates them *)
Definition cur_enabled (cur : list endpoint) : Prop := Forall (fun c => ep_enabled c = true) cur.

(* checkBackendPair never indexes `empty` out of range *)
Theorem no_panic : forall old cur resp, cur_enabled (b_eps cur) ->
  r_panic (check_backend_pair old cur resp) = false.
Proof.
  intros old cur resp Hen. unfold check_backend_pair.
  destruct (Nat.ltb_spec (List.length (b_eps old)) (List.length (b_eps cur))) as [|Hle]; [reflexivity|].
  destruct (negb (b_resolver cur =? "")); [reflexivity|].
  destruct (negb (b_dyn cur)); [reflexivity|].
  destruct (dup_target (b_eps old)) eqn:D1; [reflexivity|].
  destruct (dup_target (b_eps cur)) eqn:D2; [reflexivity|].
  cbn [orb].
  destruct (pair_loop _ _ _) as [ps added] eqn:L.
  destruct (exec_pairs _ _ ps resp 0) as [ok1 w1].
  destruct (exec_fills _ _ _ resp _) as [ok2 w2].
  cbn [r_panic].
  apply Nat.ltb_ge.
  eapply pairing_no_panic; eauto.
  apply cur_nodup_of_dup_target; auto.
Qed.

(* ------------------------------------------------------------------ C02: faults reload *)

Lemma check_endpoint_pair_ok : forall id p o c resp n w,
  check_endpoint_pair id p o c resp n = (true, w) ->
  (w = [] \/ w = enable_cmds id c) /\
  forall i, (n <= i < n + List.length w)%nat -> bad_set_server (resp i) = false.
Proof.
  intros id p o c resp n w H. unfold check_endpoint_pair in H.
  destruct (ep_eqb (set_srcip o (ep_srcip c)) c).
  - inversion H; subst. split; auto. intros i Hi; cbn in Hi; lia.
  - destruct (p && negb (ep_cookie o =? ep_cookie c)); [discriminate|].
    unfold exec_enable in H.
    destruct (set_server_group (enable_cmds id c) resp n) as [ok w'] eqn:E.
    inversion H as [[Hok Hw]]. subst w'.
    apply andb_true_iff in Hok. destruct Hok as [Hok _]. apply andb_true_iff in Hok. destruct Hok as [-> _].
    apply set_server_group_ok in E. destruct E as [-> Hi]. split; auto.
Qed.

Lemma exec_pairs_ok : forall id p ps resp n w,
  exec_pairs id p ps resp n = (true, w) ->
  forall i, (n <= i < n + List.length w)%nat -> bad_set_server (resp i) = false.
Proof.
  induction ps as [|[o [c|]] ps IH]; intros resp n w H i Hi; cbn [exec_pairs] in H.
  - inversion H; subst. cbn in Hi; lia.
  - destruct (check_endpoint_pair id p o (set_name c (ep_name o)) resp n) as [ok w1] eqn:E1.
    destruct (exec_pairs id p ps resp (n + List.length w1)) as [ok' w2] eqn:E2.
    inversion H as [[Hok Hw]]. subst w. apply andb_true_iff in Hok. destruct Hok as [-> ->].
    rewrite app_length in Hi.
    destruct (Nat.lt_ge_cases i (n + List.length w1)).
    + apply check_endpoint_pair_ok in E1. destruct E1 as [_ E1]. apply E1. lia.
    + eapply IH; eauto. lia.
  - unfold exec_disable in H.
    destruct (set_server_group (disable_cmds id o) resp n) as [ok w1] eqn:E1.
    destruct (exec_pairs id p ps resp (n + List.length w1)) as [ok' w2] eqn:E2.
    inversion H as [[Hok Hw]]. subst w. apply andb_true_iff in Hok. destruct Hok as [Hok ->].
    apply andb_true_iff in Hok. destruct Hok as [-> _].
    rewrite app_length in Hi.
    destruct (Nat.lt_ge_cases i (n + List.length w1)).
    + apply set_server_group_ok in E1. destruct E1 as [-> E1]. apply E1. lia.
    + eapply IH; eauto. lia.
Qed.

Lemma exec_fills_ok : forall id p fs resp n w,
  exec_fills id p fs resp n = (true, w) ->
  forall i, (n <= i < n + List.length w)%nat -> bad_set_server (resp i) = false.
Proof.
  induction fs as [|[c e] fs IH]; intros resp n w H i Hi; cbn [exec_fills] in H.
  - inversion H; subst. cbn in Hi; lia.
  - destruct (p && negb (ep_cookie c =? ep_cookie e)).
    + destruct (exec_fills id p fs resp n) as [ok' w']. discriminate.
    + unfold exec_enable in H.
      destruct (set_server_group (enable_cmds id (set_name c (ep_name e))) resp n) as [ok w1] eqn:E1.
      destruct (exec_fills id p fs resp (n + List.length w1)) as [ok' w2] eqn:E2.
      inversion H as [[Hok Hw]]. subst w. apply andb_true_iff in Hok. destruct Hok as [Hok ->].
      apply andb_true_iff in Hok. destruct Hok as [-> _].
      rewrite app_length in Hi.
      destruct (Nat.lt_ge_cases i (n + List.length w1)).
      * apply set_server_group_ok in E1. destruct E1 as [-> E1]. apply E1. lia.
      * eapply IH; eauto. lia.
Qed.

(* if any command written to the socket for a backend was answered with an I/O error or with a
   text the code does not accept, checkBackendPair returns false: HAProxy is reloaded *)
Theorem dyn_fault_reloads : forall old cur resp i,
  let r := check_backend_pair old cur resp in
  (i < List.length (r_cmds r))%nat -> bad_set_server (resp i) = true -> r_updated r = false.
Proof.
  intros old cur resp i. cbv zeta. unfold check_backend_pair.
  destruct (Nat.ltb (List.length (b_eps old)) (List.length (b_eps cur))); [reflexivity|].
  destruct (negb (b_resolver cur =? "")); [cbn; lia|].
  destruct (negb (b_dyn cur)); [cbn; lia|].
  destruct (dup_target (b_eps old) || dup_target (b_eps cur)); [reflexivity|].
  destruct (pair_loop _ _ _) as [ps added] eqn:L.
  destruct (exec_pairs _ _ ps resp 0) as [ok1 w1] eqn:E1.
  destruct (exec_fills _ _ _ resp _) as [ok2 w2] eqn:E2.
  cbn [r_cmds r_updated]. intros Hi Hbad.
  destruct ok1; [|rewrite andb_false_r; reflexivity].
  destruct ok2; [|rewrite andb_false_r; reflexivity].
  exfalso. rewrite app_length in Hi.
  destruct (Nat.lt_ge_cases i (List.length w1)).
  - eapply exec_pairs_ok in E1; [|split; [apply Nat.le_0_l|cbn; eassumption]]. congruence.
  - eapply exec_fills_ok in E2; [|split; [eassumption|lia]]. congruence.
Qed.

(* non-vacuity: one replaced endpoint, the second command is answered with an error text *)
Example dyn_fault_example :
  let o := mkE "srv001" "10.0.0.1" 80 "10.0.0.1:80" true 1 "" "" "" 0 "" in
  let c := mkE "srv001" "10.0.0.2" 80 "10.0.0.2:80" true 1 "" "" "" 0 "" in
  let old := mkB "b" cfg0 true 0 1 false "" 1 [o] in
  let cur := mkB "b" cfg0 true 0 1 false "" 1 [c] in
  let resp := fun n => match n with 1%nat => AText "No such server." | _ => AText "" end in
  let r := check_backend_pair old cur resp in
  List.length (r_cmds r) = 3%nat /\ bad_set_server (resp 1%nat) = true /\ r_updated r = false.
Proof. vm_compute. repeat split; reflexivity. Qed.

(* ------------------------------------------------------------------ C11: changes that fit stay dynamic *)

Definition good_answers (resp : nat -> answer) : Prop := forall i, bad_set_server (resp i) = false.
Definition no_labels (eps : list endpoint) : Prop := Forall (fun e => ep_label e = "") eps.

Lemma check_endpoint_pair_good : forall id o c resp n,
  good_answers resp -> ep_label o = "" -> ep_label c = "" ->
  exists w, check_endpoint_pair id false o c resp n = (true, w).
Proof.
  intros id o c resp n Hg Ho Hc. unfold check_endpoint_pair.
  destruct (ep_eqb (set_srcip o (ep_srcip c)) c); [eexists; reflexivity|].
  cbn [andb]. unfold exec_enable. rewrite set_server_group_good by (intros; apply Hg).
  rewrite Ho, Hc. cbn. eexists; reflexivity.
Qed.

Lemma exec_pairs_good : forall id ps resp n,
  good_answers resp ->
  Forall (fun p => ep_label (fst p) = "" /\ match snd p with Some c => ep_label c = "" | None => True end) ps ->
  exists w, exec_pairs id false ps resp n = (true, w).
Proof.
  induction ps as [|[o [c|]] ps IH]; intros resp n Hg Hl; cbn [exec_pairs].
  - eexists; reflexivity.
  - inversion Hl as [|? ? [Ho Hc] Hl']; subst. cbn [fst snd] in *.
    destruct (check_endpoint_pair_good id o (set_name c (ep_name o)) resp n Hg Ho Hc) as [w1 ->].
    destruct (IH resp (n + List.length w1)%nat Hg Hl') as [w2 ->]. eexists; reflexivity.
  - inversion Hl as [|? ? [Ho _] Hl']; subst. cbn [fst snd] in *.
    unfold exec_disable. rewrite set_server_group_good by (intros; apply Hg).
    destruct (IH resp (n + List.length (disable_cmds id o))%nat Hg Hl') as [w2 ->].
    rewrite Ho. cbn. eexists; reflexivity.
Qed.

Lemma exec_fills_good : forall id fs resp n,
  good_answers resp -> Forall (fun p => ep_label (fst p) = "") fs ->
  exists w, exec_fills id false fs resp n = (true, w).
Proof.
  induction fs as [|[c e] fs IH]; intros resp n Hg Hl; cbn [exec_fills].
  - eexists; reflexivity.
  - inversion Hl as [|? ? Hc Hl']; subst. cbn [fst] in *. cbn [andb].
    unfold exec_enable. rewrite set_server_group_good by (intros; apply Hg).
    destruct (IH resp (n + List.length (enable_cmds id (set_name c (ep_name e))))%nat Hg Hl') as [w2 ->].
    rewrite Hc. cbn. eexists; reflexivity.
Qed.

Lemma copy_empties_length : forall w rest eps,
  List.length (copy_empties w rest eps) = (List.length eps + List.length rest)%nat.
Proof.
  induction rest as [|e rest IH]; intros eps; cbn [copy_empties List.length]; [lia|].
  rewrite IH, app_length. cbn [List.length]. lia.
Qed.

Lemma in_somes : forall ps c, In c (somes ps) <-> exists o, In (o, Some c) ps.
Proof.
  intros ps c. unfold somes. rewrite in_flat_map. split.
  - intros [[o x] [Hp Hc]]. destruct x as [c'|]; cbn in Hc; [|contradiction].
    destruct Hc as [->|[]]. exists o; exact Hp.
  - intros [o Hp]. exists (o, Some c). split; auto. left; reflexivity.
Qed.

(* with dynamic scaling on, no blue/green label, no preserved cookie, no DNS resolver and unique
   targets: an update that differs from the loaded backend only in its endpoints, holds no more
   endpoints than the backend has slots and gets acceptable answers is applied without a reload,
   and the backend keeps its slot count *)
Theorem in_capacity_no_reload : forall old cur resp,
  back_cfg_equal old cur = true ->
  (List.length (b_eps cur) <= List.length (b_eps old))%nat ->
  b_dyn cur = true -> b_resolver cur = "" -> b_preserve cur = false ->
  no_labels (b_eps old) -> no_labels (b_eps cur) -> cur_enabled (b_eps cur) ->
  dup_target (b_eps old) = false -> dup_target (b_eps cur) = false ->
  good_answers resp ->
  let r := check_backend_pair old cur resp in
  r_updated r = true /\ List.length (r_eps r) = List.length (b_eps old) /\ r_panic r = false.
Proof.
  intros old cur resp Hcfg Hle Hdyn Hres Hpre Hlo Hlc Hen D1 D2 Hg. cbv zeta.
  pose proof (no_panic old cur resp Hen) as Hnp.
  unfold check_backend_pair in *.
  destruct (Nat.ltb_spec (List.length (b_eps old)) (List.length (b_eps cur))) as [Hlt|_]; [lia|].
  rewrite Hres, Hdyn, D1, D2, Hcfg, Hpre in *. cbn [String.eqb negb orb andb] in *.
  destruct (pair_loop _ _ _) as [ps added] eqn:L.
  assert (Hcn : NoDup (map ep_target (b_eps cur))) by (apply cur_nodup_of_dup_target; auto).
  pose proof (pairing_perm _ _ D1 Hcn _ _ L) as Hperm.
  pose proof (pairing_counts _ _ D1 Hcn _ _ L) as [C1 [C2 [C3 C4]]].
  destruct (pair_loop_spec _ _ _ _ _ L) as [Hfst _].
  (* labels *)
  assert (Hps : Forall (fun p => ep_label (fst p) = "" /\ match snd p with Some c => ep_label c = "" | None => True end) ps).
  { apply Forall_forall. intros [o x] Hin. cbn [fst snd]. split.
    - assert (Ho : In o (sort_by_target (filter ep_enabled (b_eps old)))).
      { rewrite <- Hfst. apply in_map with (f := fst) in Hin. exact Hin. }
      eapply Permutation_in in Ho; [|apply sort_by_target_perm].
      apply filter_In in Ho. destruct Ho as [Ho _].
      unfold no_labels in Hlo. rewrite Forall_forall in Hlo. apply Hlo. exact Ho.
    - destruct x as [c|]; auto.
      assert (Hc : In c (b_eps cur)).
      { eapply Permutation_in; [symmetry; exact Hperm|]. apply in_or_app. left. apply in_somes. eauto. }
      unfold no_labels in Hlc. rewrite Forall_forall in Hlc. apply Hlc. exact Hc. }
  set (empty := (filter (fun e => negb (ep_enabled e)) (b_eps old) ++ vacated ps)%list) in *.
  assert (Hfs : Forall (fun p : endpoint * endpoint => ep_label (fst p) = "") (combine added empty)).
  { apply Forall_forall. intros [c e] Hin. cbn [fst]. apply in_combine_l in Hin.
    assert (Hc : In c (b_eps cur)).
    { eapply Permutation_in; [symmetry; exact Hperm|]. apply in_or_app. right. exact Hin. }
    unfold no_labels in Hlc. rewrite Forall_forall in Hlc. apply Hlc. exact Hc. }
  destruct (exec_pairs_good (b_id cur) ps resp 0 Hg Hps) as [w1 E1]. rewrite E1 in *.
  destruct (exec_fills_good (b_id cur) (combine added empty) resp (List.length w1) Hg Hfs) as [w2 E2]. rewrite E2 in *.
  cbn [r_updated r_eps r_panic] in *.
  split; [reflexivity|]. split; [|exact Hnp].
  rewrite Hnp. rewrite copy_empties_length, map_length, skipn_length.
  apply Nat.ltb_ge in Hnp. unfold empty in *. rewrite app_length in *. lia.
Qed.

(* the hypothesis on unique targets cannot be dropped: the repaired code reloads a backend that
   carries two endpoints on one target *)
Theorem in_capacity_no_reload_refuted : exists old cur resp,
  back_cfg_equal old cur = true /\
  (List.length (b_eps cur) <= List.length (b_eps old))%nat /\
  b_dyn cur = true /\ b_resolver cur = "" /\ b_preserve cur = false /\
  no_labels (b_eps old) /\ no_labels (b_eps cur) /\ cur_enabled (b_eps cur) /\
  good_answers resp /\
  r_updated (check_backend_pair old cur resp) = false.
Proof.
  pose (a := mkE "srv001" "10.0.0.1" 80 "10.0.0.1:80" true 1 "" "" "" 0 "").
  pose (b := mkE "srv002" "10.0.0.1" 80 "10.0.0.1:80" true 1 "" "" "" 0 "").
  pose (c := mkE "srv002" "10.0.0.2" 80 "10.0.0.2:80" true 1 "" "" "" 0 "").
  exists (mkB "b" cfg0 true 0 1 false "" 1 [a; b]), (mkB "b" cfg0 true 0 1 false "" 1 [a; c]), (fun _ => AText "").
  split; [reflexivity|]. split; [cbn; lia|]. split; [reflexivity|]. split; [reflexivity|]. split; [reflexivity|].
  split; [repeat constructor|]. split; [repeat constructor|]. split; [repeat constructor|].
  split; [intros i; reflexivity|]. reflexivity.
Qed.

Example in_capacity_example :
  let o1 := mkE "srv001" "10.0.0.1" 80 "10.0.0.1:80" true 1 "" "" "" 0 "" in
  let o2 := empty_endpoint 1 2 in
  let c1 := mkE "srv001" "10.0.0.1" 80 "10.0.0.1:80" true 1 "" "" "" 0 "" in
  let c2 := mkE "srv002" "10.0.0.2" 80 "10.0.0.2:80" true 1 "" "" "" 0 "" in
  let r := check_backend_pair (mkB "b" cfg0 true 1 1 false "" 1 [o1; o2]) (mkB "b" cfg0 true 1 1 false "" 1 [c1; c2]) (fun _ => AText "") in
  r_updated r = true /\ List.length (r_cmds r) = 3%nat /\ List.length (r_eps r) = 2%nat.
Proof. vm_compute. repeat split; reflexivity. Qed.
