(* C03 — Requests reach exactly the ready endpoints that Ingress and Service designate.
   Statements only; every proof is one `exact`.  Vocabulary (Model/Route.v):
   route_impl c r     what converter + frontends do with request r on cluster c (Serve servers | NotFound);
   spec_target c r    the rule the documented matching selects (TDecl d), else TDefaultBackend, else TNotFound;
   designated c svc sp s   server s = (ip, port, draining) is what service port sp designates: a ready
                      endpoint, or - only with drain-support - a not-ready / terminating one at weight 0;
   route_full_spec_at c r  C03 for one request (see Model/Route.v). *)
From Coq Require Import List Bool String ZArith Permutation Sorted.
From HI Require Import Model.Route Proofs.Route.
Import ListNotations.

(* The property at full strength is FALSE of the faithful model (and of the code: corpus case
   "two service ports share the target port but not the endpoints"): a backend section is keyed
   by (namespace, service, targetPort) and filled once. *)
Theorem C03_route_full_spec_refuted : exists c r, ~ route_full_spec_at c r.
Proof. exact route_full_spec_refuted. Qed.
Print Assumptions C03_route_full_spec_refuted.

(* The strongest true variant: whenever two ports of a service that share the targetPort also
   share their endpoints (always so for Endpoints written by the endpoints controller), every
   request of every cluster reaches exactly the designated servers of the service port named by
   the selected rule; else of the default host's rule; else of the default backend; else 404. *)
Theorem C03_route_full_spec_under_H : forall c, ports_consistent c -> forall r, route_full_spec_at c r.
Proof. exact route_full_spec_under_H. Qed.
Print Assumptions C03_route_full_spec_under_H.

(* Without any hypothesis: the rule selection is always the specified one; only WHICH port's
   servers fill the backend section depends on the hypothesis. *)
Theorem C03_rule_selection : forall c r,
  match spec_target c r with
  | TDecl d => exists svc sp, resolve c d = Some (svc, sp) /\ served_by c r svc sp
  | TDefaultBackend => exists svc sp, default_backend_port c = Some (svc, sp) /\ served_by c r svc sp
  | TNotFound => route_impl c r = NotFound
  end.
Proof. exact route_impl_target. Qed.
Print Assumptions C03_rule_selection.

(* Selected rule = host first (https: only hosts named by a tls block), then path: a matching
   effective declaration that no other matching one of that host beats (exact, then longer, then
   prefix before begin); the default host only when the request's host has no matching rule. *)
Theorem C03_selected_rule : forall c r d, spec_target c r = TDecl d ->
  In d (effective_decls c) /\ path_matches (d_type d) (d_path d) (rq_path r) = true /\
  ( (host_visible (tls_hosts c) r d = true /\
     forall d', In d' (effective_decls c) -> host_visible (tls_hosts c) r d' = true ->
                path_matches (d_type d') (d_path d') (rq_path r) = true -> better d' d = false)
    \/
    (default_visible d = true /\
     (forall d', In d' (effective_decls c) -> host_visible (tls_hosts c) r d' = true ->
                 path_matches (d_type d') (d_path d') (rq_path r) = false) /\
     forall d', In d' (effective_decls c) -> default_visible d' = true ->
                path_matches (d_type d') (d_path d') (rq_path r) = true -> better d' d = false) ).
Proof. exact spec_target_decl. Qed.
Print Assumptions C03_selected_rule.

(* First-created Ingress wins a duplicated path: a declaration is effective iff its service port
   exists and no earlier declaration (ingresses in (creation, namespace/name) order, then the
   order inside the ingress) whose service port exists has the same (host, path, type). *)
Theorem C03_first_declaration_wins : forall c d,
  In d (effective_decls c) <->
  exists earlier later, all_decls c = earlier ++ d :: later /\ resolves c d = true /\
    forall d', In d' earlier -> resolves c d' = true -> dkey d' <> dkey d.
Proof. exact effective_first_wins. Qed.
Print Assumptions C03_first_declaration_wins.

Theorem C03_ingress_order : forall c,
  Sorted ing_le (sorted_ingresses c) /\ Permutation (sorted_ingresses c) (filter i_valid (c_ingresses c)).
Proof. exact (fun c => conj (sorted_ingresses_sorted c) (sorted_ingresses_perm c)). Qed.
Print Assumptions C03_ingress_order.

(* ... and otherwise the default host, the default backend or the 404 backend, in that order *)
Theorem C03_fallback_order : forall c r, spec_target c r <> TNotFound ->
  (forall d, spec_target c r <> TDecl d) ->
  spec_target c r = TDefaultBackend /\ default_backend_port c <> None /\
  forall d, In d (effective_decls c) ->
    (host_visible (tls_hosts c) r d || default_visible d) && path_matches (d_type d) (d_path d) (rq_path r) = false.
Proof. exact spec_target_fallback. Qed.
Print Assumptions C03_fallback_order.

Theorem C03_not_found_iff : forall c r, route_impl c r = NotFound <-> spec_target c r = TNotFound.
Proof. exact route_not_found_iff. Qed.
Print Assumptions C03_not_found_iff.

(* The servers created for a service port are exactly the designated ones ... *)
Theorem C03_servers_of_port : forall c svc sp s, In s (servers_of c svc sp) <-> designated c svc sp s.
Proof. exact servers_of_designated. Qed.
Print Assumptions C03_servers_of_port.

(* ... and every answer, in every cluster, consists of the designated servers of some port of an
   existing service (no hypothesis): *)
Theorem C03_servers_are_designated : forall c r srv, route_impl c r = Serve srv ->
  exists svc sp, In svc (c_services c) /\ In sp (s_ports svc) /\ forall s, In s srv <-> designated c svc sp s.
Proof. exact served_are_designated. Qed.
Print Assumptions C03_servers_are_designated.

(* Not-ready or terminating endpoints appear only as weight-0 servers, and only with drain-support. *)
Theorem C03_drain_only_with_drain_support : forall c r srv s,
  route_impl c r = Serve srv -> In s srv -> sv_drain s = true -> c_drain c = true.
Proof. exact drain_only_with_drain_support. Qed.
Print Assumptions C03_drain_only_with_drain_support.

Theorem C03_without_drain_support_only_ready : forall c r srv s,
  route_impl c r = Serve srv -> In s srv -> c_drain c = false ->
  sv_drain s = false /\ exists svc sp, In svc (c_services c) /\ In sp (s_ports svc) /\ ready_at c svc sp (sv_target s).
Proof. exact without_drain_support_only_ready. Qed.
Print Assumptions C03_without_drain_support_only_ready.

Theorem C03_draining_server_is_not_ready_or_terminating : forall c r srv s,
  route_impl c r = Serve srv -> In s srv -> sv_drain s = true ->
  exists svc sp, In svc (c_services c) /\ In sp (s_ports svc) /\
    (notready_at c svc sp (sv_target s) \/ terminating_at c svc sp (sv_target s)).
Proof. exact draining_server_is_not_ready_or_terminating. Qed.
Print Assumptions C03_draining_server_is_not_ready_or_terminating.

(* ------------------------------------------------------------------------------------------
   End to end: the request is routed THROUGH THE GENERATED MAP FILES (composition with C04).
   route_maps tree mo enc c r (Model/RouteMaps.v) = converter (sync_full), then the map
   generator as config.WriteFrontendMaps drives it (Model/Maps.v rebuild_current, one chain per
   map: _front_http_host, _front_https_host for the hosts with TLS, _front_defaulthost), then
   HAProxy's lookups (Model/HAMatch.v lookup: str / beg / dir files in order; `tree` = beg maps
   answer the longest key) chained as the frontends chain them, then the backend section with
   the id that was looked up.  maps_agree_at ... := route_maps tree mo enc c r = route_impl c r.
   Route.v has three path types and no wildcard hosts, so regex keys do not occur. *)
From HI Require Import Model.Maps Model.RouteMaps Proofs.RouteMaps.

(* At full strength (every cluster and request inside C04's alphabet guard) the composition is
   FALSE: two matching rules of one host with the same declared length (/api Prefix and /api
   ImplementationSpecific) are answered in the order the generator happens to lay them out
   (here: the begin rule, moved to a priority file), Route.v's matcher says prefix first.
   C04 documents that order as unspecified; the real pipeline behaves like the model
   (corpus/C03/builtin-tie-prefix-begin.json, run on every check). *)
Theorem C03_maps_agree_refuted : exists tree mo enc c r,
  permitted mo /\ decls_in_guard c /\ request_in_guard r /\ ids_distinct enc c /\ ports_consistent c /\
  ~ maps_agree_at tree mo enc c r.
Proof. exact maps_agree_refuted. Qed.
Print Assumptions C03_maps_agree_refuted.

(* The strongest true variant: for both beg-map semantics, every permitted path-type-order,
   every injective-on-the-cluster rendering of backend ids, every cluster whose effective
   declarations are inside C04's guard (host/path alphabet, <= 1 trailing slash of a Prefix
   path, ASCII, no "*." host), every request inside the guard (host without / ? #, path without
   # ?) that is unambiguous (matching rules of the deciding host that are all exact, or have
   the same declared length, lead to the same backend): the lookups over the generated maps
   end in exactly the servers route_impl answers. *)
Theorem C03_maps_agree_under_H : forall tree mo enc c r,
  permitted mo -> decls_in_guard c -> request_in_guard r -> ids_distinct enc c -> unambiguous c r ->
  maps_agree_at tree mo enc c r.
Proof. exact maps_agree_under_H. Qed.
Print Assumptions C03_maps_agree_under_H.

(* C03 through the maps: composition of C04_path_precedence_current with
   C03_route_full_spec_under_H -- the rule the documented matching selects decides the service
   port whose designated servers answer the request that went through the generated maps. *)
Theorem C03_end_to_end_under_H : forall tree mo enc c r,
  ports_consistent c ->
  permitted mo -> decls_in_guard c -> request_in_guard r -> ids_distinct enc c -> unambiguous c r ->
  full_spec_for (route_maps tree mo enc c r) c r.
Proof. exact end_to_end_under_H. Qed.
Print Assumptions C03_end_to_end_under_H.

(* ------------------------------------------------------------------------------------------
   WILDCARD HOSTS ("*.example.com") and strict-host (Model/RouteWild.v, additive: on clusters
   without wildcard hosts route_w false = route_impl, C03_wildcard_conservative).
   route_w strict c r: a matching rule of the exact host (spec-level matcher) -- else the first
   matching key of the map's REGEX FILE, in which the code puts every path of a wildcard host
   (key = one label + quoted suffix # path regex, sorted by key length; Prefix and Begin both
   become "starts with", case sensitive) -- else the default host, default backend, 404.
   spec_target_w: the documented matching with the wildcard host between the exact host and the
   default host, path types meaning what they mean everywhere (Route.path_matches, Route.better).
   Regular expressions are modelled only in the anchored literal / prefix forms the converter
   generates for wildcard hosts (paths without regex metacharacters); the regex path type is
   not modelled. *)
From HI Require Import Model.RouteWild Proofs.RouteWild Proofs.RouteMapsWild.

(* exact host before wildcard host before default host; the wildcard suffix is unique *)
Theorem C03_wildcard_host_precedence : forall c r,
  let matches d := Route.path_matches (d_type d) (d_path d) (rq_path r) = true in
  ((exists d, In d (effective_decls c) /\ exact_visible (tls_hosts c) r d = true /\ matches d) ->
     exists d', spec_target_w c r = TDecl d' /\ In d' (effective_decls c) /\
                exact_visible (tls_hosts c) r d' = true /\ matches d') /\
  ((forall d, In d (effective_decls c) -> exact_visible (tls_hosts c) r d = true -> ~ matches d) ->
   (exists d, In d (effective_decls c) /\ wild_visible (tls_hosts c) r d = true /\ matches d) ->
     exists d', spec_target_w c r = TDecl d' /\ In d' (effective_decls c) /\
                wild_visible (tls_hosts c) r d' = true /\ matches d').
Proof. exact wildcard_host_precedence. Qed.
Print Assumptions C03_wildcard_host_precedence.

Theorem C03_wildcard_suffix_unique : forall h1 h2 reqhost,
  wild_host_matches h1 reqhost = true -> wild_host_matches h2 reqhost = true ->
  Route.lower (wild_suffix h1) = Route.lower (wild_suffix h2).
Proof. exact wildcard_suffix_unique. Qed.
Print Assumptions C03_wildcard_suffix_unique.

(* the implementation never lets a wildcard host take a request that a rule of the exact host
   matches (strict-host on or off, no hypothesis) *)
Theorem C03_exact_host_first : forall strict c r x,
  Route.best fst (filter (fun x => exact_visible (st_tls (sync_full c)) r (fst x) &&
                                    Route.path_matches (d_type (fst x)) (d_path (fst x)) (rq_path r))
                         (paths_w strict c (sync_full c))) = Some x ->
  route_w strict c r = serve_w (sync_full c) (snd x).
Proof. exact route_w_exact_first. Qed.
Print Assumptions C03_exact_host_first.

Theorem C03_wildcard_conservative : forall c r, no_wildcards c -> route_w false c r = route_impl c r.
Proof. exact route_w_conservative. Qed.
Print Assumptions C03_wildcard_conservative.

(* The Prefix / Exact / Begin reading of the DECLARED path types (spec_target_w) is not what a
   wildcard host gets, and that is documented (docs, Path type: "Wildcard hostnames and
   alias-regex match incoming requests using the regex path type, even if the path itself has a
   distinct one"; regex = case sensitive, implicit start, no ending boundary; "HAProxy Ingress
   doesn't calculate overlapping from regex paths"): on a wildcard host Exact /app/sub loses to
   Prefix /app (longer regex), Prefix /app answers /appx, Prefix /dir/ needs its slash, Begin is
   case sensitive. Not a defect: the harness judges wildcard hosts by the regex reading and only
   counts these situations (evidence buckets documented-wildcard-regex:<which>). The statement
   with the declared-type reading is therefore refuted ... *)
Theorem C03_wildcard_full_spec_refuted :
  exists c r, ports_consistent c /\ ~ full_spec_w_for (route_w false c r) c r.
Proof. exact route_w_full_spec_refuted. Qed.
Print Assumptions C03_wildcard_full_spec_refuted.

(* the strongest true variant: whenever the regex file's first matching key belongs to the rule
   the documented matching selects in the wildcard tier (wild_conform, decidable per request) *)
Theorem C03_wildcard_full_spec_under_H : forall c r,
  ports_consistent c -> wild_conform c r = true -> full_spec_w_for (route_w false c r) c r.
Proof. exact route_w_full_spec_under_H. Qed.
Print Assumptions C03_wildcard_full_spec_under_H.

(* strict-host on: a request of an existing exact host is answered inside that host, by one of
   its rules or by the ("/", begin) path SyncConfig adds (default host root, else default backend) *)
Theorem C03_strict_host_answers_inside : forall c r h,
  In (Some h) (acquired_hosts c (sync_full c)) ->
  exact_visible (st_tls (sync_full c)) r (strict_decl (Some h)) = true ->
  String.prefix "/"%string (rq_path r) = true ->
  exists x, In x (paths_w true c (sync_full c)) /\ exact_visible (st_tls (sync_full c)) r (fst x) = true /\
            route_w true c r = serve_w (sync_full c) (snd x).
Proof. exact strict_host_answers_inside. Qed.
Print Assumptions C03_strict_host_answers_inside.

(* through the rendered files, regex file included (sorted by file_less Regex of Model/Maps.v,
   looked up last; map_reg = first matching key): strict-host on or off *)
Theorem C03_maps_agree_w_under_H : forall tree mo enc strict c r,
  permitted mo -> plain_in_guard strict c -> request_in_guard r -> ids_ok enc c -> unambiguous_w strict c r ->
  route_maps_w tree mo enc strict c r = route_w strict c r.
Proof. exact maps_agree_w_under_H. Qed.
Print Assumptions C03_maps_agree_w_under_H.

Theorem C03_end_to_end_w_under_H : forall tree mo enc c r,
  ports_consistent c -> wild_conform c r = true ->
  permitted mo -> plain_in_guard false c -> request_in_guard r -> ids_ok enc c -> unambiguous_w false c r ->
  full_spec_w_for (route_maps_w tree mo enc false c r) c r.
Proof. exact end_to_end_w_under_H. Qed.
Print Assumptions C03_end_to_end_w_under_H.
