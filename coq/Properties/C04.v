(* C04 — Path precedence in the generated maps: exact first, then the longest declared
   path; a rule of one host never captures a request for another host.
   Statements only; every proof is one `exact`.
   Definitions: Model/HAMatch.v — HAProxy's lookup over the emitted files (`lookup`, with
   `tree` = beg maps answer the longest key / are scanned in order), the request sample
   `sample host path`, the specification `applies` / `best`, the checker `layout_ok`;
   Model/Maps.v — the model `rebuild` of types.rebuildMatchFiles, the calls `fed` with
   `add` (addTarget) and `rule_of` (the rule a call declares), the guards. *)
From Coq Require Import List.
From HI Require Import Model.HAMatch Model.Maps Proofs.HAMatch Proofs.Maps.
Import ListNotations.

(* ---- the property, end to end on the model of the generator ----
   For every list of AddHostnamePathMapping calls within the guard (wf_fed: host not
   empty, without '/', '?', '#', not a "*." wildcard; path not empty, without '#', '?';
   ASCII bytes; type exact, prefix or begin; a prefix path ends with at most one '/'),
   every path-type order that names
   each type once, every order in which Go visits the hosts of the map, and every
   request (host without '/', '?', '#'; path without '#', '?'):
   the lookup through the generated files answers an exact rule equal to the path if
   one applies, otherwise an applying rule whose declared path has maximal length, and
   answers nothing exactly when no rule of that host applies. *)
Theorem C04_path_precedence : forall tree mo hostorder feds,
  forallb wf_fed feds = true -> permitted mo -> host_order_ok hostorder (map add feds) ->
  forall host path, wf_request host path ->
  match lookup tree (rebuild mo hostorder (map add feds)) (sample host path) with
  | Some v => exists r, best (map rule_of feds) host path r /\ rtarget r = v
  | None => forall r, In r (map rule_of feds) -> ~ applies r host path
  end.
Proof. exact rebuild_precedence. Qed.
Print Assumptions C04_path_precedence.

(* the same for the model that is compared with the implementation on every run: hosts
   visited in sorted order, as the code does since /repo 5f31221 *)
Theorem C04_path_precedence_current : forall tree mo feds,
  forallb wf_fed feds = true -> permitted mo ->
  forall host path, wf_request host path ->
  match lookup tree (rebuild_current mo (map add feds)) (sample host path) with
  | Some v => exists r, best (map rule_of feds) host path r /\ rtarget r = v
  | None => forall r, In r (map rule_of feds) -> ~ applies r host path
  end.
Proof. exact rebuild_current_precedence. Qed.
Print Assumptions C04_path_precedence_current.

(* ---- A: the verified checker (independent of the generator) ----
   Whatever produced `files`: if the checker accepts them for `rules`, every request is
   answered as above. The harness runs the checker inside Coq on the files the real
   code produced. *)
Theorem C04_layout_ok_sound : forall tree files rules, layout_ok files rules = true ->
  forall host path, wf_request host path ->
  match lookup tree files (sample host path) with
  | Some v => exists r, best rules host path r /\ rtarget r = v
  | None => forall r, In r rules -> ~ applies r host path
  end.
Proof. exact layout_ok_sound. Qed.
Print Assumptions C04_layout_ok_sound.

(* an answer always comes from a rule declared for the requested host whose path matches *)
Theorem C04_no_cross_host : forall tree files rules, layout_ok files rules = true ->
  forall host path v, wf_request host path -> lookup tree files (sample host path) = Some v ->
  exists r, In r rules /\ rtarget r = v /\ lower (rhost r) = lower host /\
            path_matches (rtype r) (rpath r) path.
Proof. exact lookup_same_host. Qed.
Print Assumptions C04_no_cross_host.

(* functional form: when the specification leaves one possible answer, that is the answer *)
Theorem C04_unique_answer : forall tree files rules, layout_ok files rules = true ->
  forall host path r, wf_request host path -> best rules host path r ->
  (forall r', best rules host path r' -> rtarget r' = rtarget r) ->
  lookup tree files (sample host path) = Some (rtarget r).
Proof. exact lookup_unique_best. Qed.
Print Assumptions C04_unique_answer.

(* ---- B: the generating algorithm always passes the checker ---- *)
Theorem C04_rebuild_layout_ok : forall mo hostorder feds,
  forallb wf_fed feds = true -> permitted mo -> host_order_ok hostorder (map add feds) ->
  layout_ok (rebuild mo hostorder (map add feds)) (map rule_of feds) = true.
Proof. exact rebuild_layout_ok. Qed.
Print Assumptions C04_rebuild_layout_ok.

(* B for every arrangement the two sort.Slice calls may produce (not only the insertion
   sort of `rebuild`): any per-host lists that are sorted for the per-host comparator,
   any per-file sort whose result is sorted for the file's comparator *)
Theorem C04_rebuild_any_sort_layout_ok : forall fsort mo hls feds,
  forallb wf_fed feds = true -> permitted mo ->
  sorter_ok fsort (map add feds) -> hls_ok hls (map add feds) ->
  layout_ok (rebuild_with fsort mo hls (map add feds)) (map rule_of feds) = true.
Proof. exact rebuild_with_ok. Qed.
Print Assumptions C04_rebuild_any_sort_layout_ok.

(* ---- for the record: B was false of the algorithm as it stood before the repairs ----
   `rebuild_g` is `rebuild` with the overlap test, the per-host comparator and the
   `_upper` update as parameters (rebuild_g overlaps host_less upper_of = rebuild).
   First witness: the case-sensitive test and comparator of the original code
   (h: /App/sub prefix, /app begin; order exact,begin,prefix). Second witness: the
   original `e2._upper = el1` with the first repair in place (hosts g and h of
   corpus/C04/03-upper-overwrite.json, g visited first). Both are replayed on the
   implementation by the harness corpus and were repaired in /repo (fix: commits). *)
Theorem C04_unrepaired_refuted :
  (exists mo ho feds, forallb wf_fed feds = true /\ permitted mo /\ host_order_ok ho (map add feds) /\
     layout_ok (rebuild_g overlaps_cs host_less_cs (upper_last overlaps_cs) mo ho (map add feds))
               (map rule_of feds) = false) /\
  (exists mo ho feds, forallb wf_fed feds = true /\ permitted mo /\ host_order_ok ho (map add feds) /\
     layout_ok (rebuild_g overlaps host_less (upper_last overlaps) mo ho (map add feds))
               (map rule_of feds) = false).
Proof. exact unrepaired_refuted. Qed.
Print Assumptions C04_unrepaired_refuted.
