(* C01 / C06 on the executable model of the converter (Model/Conv.v): statements only.
   C06: the order in which the API lists the ingresses does not matter.
   C01: a partial sync of a well formed single-event batch re-establishes "the hosts are
   those of a full sync of the current cluster" together with the tracker invariant, for
   every cluster, batch and history; never fails.  The same for batches built from ANY
   sequence of Ingress events (several events for one object included).  Executable
   witnesses for the multi-event cases, and refutations of the merge /repo had before
   the two fixes (the added object always won). *)
From Coq Require Import List Bool String ZArith Permutation.
From HI Require Import Model.Tracker Model.Conv Proofs.Tracker Proofs.IncSync Proofs.Conv
                       Proofs.ConvSort Proofs.ConvHist_base Proofs.ConvHist_keys Proofs.ConvHist_sim
                       Proofs.ConvBack Proofs.ConvHist Proofs.ConvHist_events Proofs.ConvHist_multi
                       Proofs.ConvBack_multi.
Import ListNotations.
Open Scope string_scope.

(* ---- C06 ---- *)
Theorem C06_sort_ings_perm : forall l1 l2 : list ingress,
  Permutation l1 l2 -> NoDup (map i_full l1) -> sort_ings l1 = sort_ings l2.
Proof. exact sort_ings_perm. Qed.
Print Assumptions C06_sort_ings_perm.

Theorem C06_sync_full_perm : forall w1 w2 : world,
  Permutation (w_ings w1) (w_ings w2) -> NoDup (map i_full (w_ings w1)) ->
  w_svcs w1 = w_svcs w2 -> w_eps w1 = w_eps w2 -> w_secrets w1 = w_secrets w2 ->
  sync_full w1 = sync_full w2.
Proof. exact sync_full_perm. Qed.
Print Assumptions C06_sync_full_perm.

Theorem C06_str_ltb_strict_total :
  (forall a, str_ltb a a = false) /\
  (forall a b c, str_ltb a b = true -> str_ltb b c = true -> str_ltb a c = true) /\
  (forall a b, str_ltb a b = false -> str_ltb b a = false -> a = b).
Proof. exact str_ltb_strict_total. Qed.
Print Assumptions C06_str_ltb_strict_total.

Theorem C06_sort_filter : forall (p : ingress -> bool) (l : list ingress),
  NoDup (map i_full l) -> sort_ings (filter p l) = filter p (sort_ings l).
Proof. exact sort_filter. Qed.
Print Assumptions C06_sort_filter.

(* ---- C01, one step, under the view premise ----
   Inv w (s, T)   := hosts of s = hosts of sync_full w /\ T symmetric /\
                     every host declared by an ingress of w is linked to it in T
   batch_ok w w' b: names distinct in w and in w'; b_add / b_upd / b_del are exactly the
                     new / changed / gone ingresses; their names are in b_links
   H_view w w' x b: an unchanged ingress that QueryLinks (on T plus the links of
                     trackAddedIngress) does not reach has the same backend ids for its
                     paths and the same certificate hashes for its tls blocks in w and w' *)
Theorem C01_model_partial_step : forall (w w' : world) (x : st) (b : batch),
  Inv w x -> batch_ok w w' b -> H_view w w' x b ->
  exists x', sync_partial w' x b = Some x' /\ Inv w' x'.
Proof. exact model_partial_step. Qed.
Print Assumptions C01_model_partial_step.

(* the same for the weaker batch_wf, which batches with several events per object meet:
   the current record of every new or changed ingress is in b_add or b_upd, every name
   that is gone is in b_del, a deleted name that exists again is in b_add, an object that
   was only added is the current one, all the names are in b_links *)
Theorem C01_model_partial_step_wf : forall (w w' : world) (x : st) (b : batch),
  Inv w x -> batch_wf w w' b -> H_view w w' x b ->
  exists x', sync_partial w' x b = Some x' /\ Inv w' x'.
Proof. exact model_partial_step_wf. Qed.
Print Assumptions C01_model_partial_step_wf.

Theorem C01_batch_ok_wf : forall w w' b, batch_ok w w' b -> batch_wf w w' b.
Proof. exact batch_ok_wf. Qed.
Print Assumptions C01_batch_ok_wf.

(* histories: each step is batch_wf and has the view premise for the state reached *)
Theorem C01_model_history : forall (w0 : world) (h : list (batch * world)),
  hist_ok w0 (sync_full w0) h ->
  exists x', run_hist (sync_full w0) h = Some x' /\
             hosts_eq (fst x') (fst (sync_full (last_w w0 h))).
Proof. exact model_history. Qed.
Print Assumptions C01_model_history.

(* ---- C01, any sequence of Ingress events within one batch ----
   run_evs l es: the cluster after the events es (add: name absent; update / delete: name
   present); batch_of_events: b_add / b_upd / b_del are the added objects / updated
   objects / deleted names in event order, every event's name is in b_links *)
Theorem C01_events_wf : forall (w w' : world) (es : list event) (b : batch),
  NoDup (map i_full (w_ings w)) ->
  run_evs (w_ings w) es = Some (w_ings w') ->
  batch_of_events es b ->
  batch_wf w w' b.
Proof. exact events_wf. Qed.
Print Assumptions C01_events_wf.

Theorem C01_model_partial_step_events :
  forall (w w' : world) (x : st) (es : list event) (b : batch),
  Inv w x ->
  NoDup (map i_full (w_ings w)) ->
  run_evs (w_ings w) es = Some (w_ings w') ->
  batch_of_events es b ->
  H_view w w' x b ->
  exists x', sync_partial w' x b = Some x' /\ Inv w' x'.
Proof. exact model_partial_step_events. Qed.
Print Assumptions C01_model_partial_step_events.

(* ---- C01, the view premise discharged by the tracker ----
   InvT adds: the Service-Host link of every path and the Ingress-Secret link of every tls
   block of a current ingress are in T.  batch_links_ok: b_links names every Service and
   Secret whose entry changed.  no_redecl w': no (host, path, match type) is declared
   twice in the cluster (so no path is skipped as redeclared). *)
Theorem C01_model_partial_step_tracked : forall (w w' : world) (x : st) (b : batch),
  InvT w x -> batch_wf w w' b -> batch_links_ok w w' b -> no_redecl w' ->
  exists x', sync_partial w' x b = Some x' /\ InvT w' x'.
Proof. exact model_partial_step_tracked. Qed.
Print Assumptions C01_model_partial_step_tracked.

Theorem C01_model_history_tracked : forall (w0 : world) (h : list (batch * world)),
  no_redecl w0 -> hist_ok_t w0 h ->
  exists x', run_hist (sync_full w0) h = Some x' /\
             hosts_eq (fst x') (fst (sync_full (last_w w0 h))).
Proof. exact model_history_tracked. Qed.
Print Assumptions C01_model_history_tracked.

(* ---- C01, the general theorem: no view premise, redeclared paths allowed ----
   InvG w (s, T) := Inv w (s, T) /\
                    T holds every Service-Host link of the tracker of sync_full w /\
                    T holds the Ingress-Secret link of every tls block (with a host and a
                    secret name) of an ingress of w
   hist_ok_g: every step is batch_wf and batch_links_ok -- a condition on the clusters
   and the batches only. *)
Theorem C01_model_partial_step_general : forall (w w' : world) (x : st) (b : batch),
  InvG w x -> batch_wf w w' b -> batch_links_ok w w' b ->
  exists x', sync_partial w' x b = Some x' /\ InvG w' x'.
Proof. exact model_partial_step_general. Qed.
Print Assumptions C01_model_partial_step_general.

Theorem C01_sync_full_InvG : forall w, InvG w (sync_full w).
Proof. exact sync_full_InvG. Qed.
Print Assumptions C01_sync_full_InvG.

Theorem C01_model_history_general : forall (w0 : world) (h : list (batch * world)),
  hist_ok_g w0 h ->
  exists x', run_hist (sync_full w0) h = Some x' /\
             hosts_eq (fst x') (fst (sync_full (last_w w0 h))).
Proof. exact model_history_general. Qed.
Print Assumptions C01_model_history_general.

(* a history with a redeclared path, a Service read only by the skipped path changing, a
   Service port change, and the deletion of the ingress that shadowed the path *)
Theorem C01_model_general_history_example :
  hist_ok_g gw0 ghist /\ ~ no_redecl gw0 /\
  hosts_after (run_hist (sync_full gw0) ghist) = hosts_after (Some (sync_full gw3)) /\
  get_host (fst (sync_full gw3)) "k.local"
    = Some {| h_paths := [{| hp_path := "/"; hp_type := Prefix; hp_back := "d_t_7171" |}]; h_tls := None |}.
Proof. exact (conj general_history_ok (conj general_history_redeclares general_history_eval)). Qed.
Print Assumptions C01_model_general_history_example.

(* the premises are satisfiable *)
Theorem C01_model_step_premises_satisfiable :
  Inv (W [ing_k; ing_i1] svc1) (sync_full (W [ing_k; ing_i1] svc1)) /\
  batch_ok (W [ing_k; ing_i1] svc1) (W [ing_i1'; ing_k] svc1) b_upd1 /\
  H_view (W [ing_k; ing_i1] svc1) (W [ing_i1'; ing_k] svc1) (sync_full (W [ing_k; ing_i1] svc1)) b_upd1.
Proof. exact step_premises_satisfiable. Qed.
Print Assumptions C01_model_step_premises_satisfiable.

(* ---- multi-event batches, evaluated ---- *)
(* (i) created and deleted within one batch: nothing is configured for it *)
Theorem C01_model_add_then_del_ok :
  let w := W [ing_k] svc1 in
  batch_wf w w b_add_del /\
  hosts_after (sync_partial w (sync_full w) b_add_del) = hosts_after (Some (sync_full w)).
Proof. exact (conj multi_add_then_del_wf multi_add_then_del_ok). Qed.
Print Assumptions C01_model_add_then_del_ok.

(* the merge before commit e942d77 (the added object always wins) kept host h1.local *)
Theorem C01_model_add_then_del_old_refuted :
  let w := W [ing_k] svc1 in
  hosts_after (sync_partial_old w (sync_full w) b_add_del)
    = Some [get_host (fst (sync_full w)) "k.local";
            Some {| h_paths := [{| hp_path := "/"; hp_type := Prefix; hp_back := "d_s_8080" |}]; h_tls := None |};
            None] /\
  hosts_after (Some (sync_full w))
    = Some [get_host (fst (sync_full w)) "k.local"; None; None].
Proof. exact multi_add_then_del_old_refuted. Qed.
Print Assumptions C01_model_add_then_del_old_refuted.

(* (ii) deleted and re-created within one batch: converges (old and new merge) *)
Theorem C01_model_del_then_add_ok :
  let w := W [ing_k; ing_i1] svc1 in
  let w' := W [ing_k; ing_i1r] svc1 in
  hosts_after (sync_partial w' (sync_full w) b_del_add) = hosts_after (Some (sync_full w')) /\
  hosts_after (sync_partial_old w' (sync_full w) b_del_add) = hosts_after (Some (sync_full w')).
Proof. exact multi_del_then_add_ok. Qed.
Print Assumptions C01_model_del_then_add_ok.

(* (ii') created and updated within one batch: converges; the merge before commit
   703d978 converted the outdated added object *)
Theorem C01_model_add_then_upd_ok :
  let w := W [ing_k] svc1 in
  let w' := W [ing_k; ing_i1'] svc1 in
  hosts_after (sync_partial w' (sync_full w) b_add_upd) = hosts_after (Some (sync_full w')).
Proof. exact multi_add_then_upd_ok. Qed.
Print Assumptions C01_model_add_then_upd_ok.

Theorem C01_model_add_then_upd_old_refuted :
  let w := W [ing_k] svc1 in
  let w' := W [ing_k; ing_i1'] svc1 in
  hosts_after (sync_partial_old w' (sync_full w) b_add_upd) <> hosts_after (Some (sync_full w')).
Proof. exact multi_add_then_upd_old_refuted. Qed.
Print Assumptions C01_model_add_then_upd_old_refuted.

(* on batches with one event per object the old merge and the model's coincide *)
Theorem C01_model_sync_partial_old_eq : forall w w' x b,
  batch_ok w w' b -> sync_partial_old w' x b = sync_partial w' x b.
Proof. exact sync_partial_old_eq. Qed.
Print Assumptions C01_model_sync_partial_old_eq.

(* (iii) a Service port changes and a path now resolves to an existing backend *)
Theorem C01_model_svc_port_hosts_ok :
  let w := W [ing_k; ing_i1] svc1 in
  let w' := W [ing_k; ing_i1] svc2 in
  hosts_after (sync_partial w' (sync_full w) b_svc) = hosts_after (Some (sync_full w')).
Proof. exact multi_svc_port_hosts_ok. Qed.
Print Assumptions C01_model_svc_port_hosts_ok.

Theorem C01_model_svc_port_backs_ok :
  let w := W [ing_k; ing_i1] svc1 in
  let w' := W [ing_k; ing_i1] svc2 in
  backs_after (sync_partial w' (sync_full w) b_svc) = backs_after (Some (sync_full w')) /\
  backs_after (Some (sync_full w')) = Some [None; Some {| b_servers := [("10.0.0.2", 9090%Z)] |}].
Proof. exact multi_svc_port_backs_ok. Qed.
Print Assumptions C01_model_svc_port_backs_ok.

(* ================================================================== *)
(* The full observation obs_host: per host its paths WITH the servers   *)
(* they reach, and the certificate hash                                 *)
(* ================================================================== *)
(* InvO w (s, T) := InvG w (s, T) /\ J w (s, T), where J says: every backend of s is
   {servers w svc p} for a Service svc of w and a port p of it with that backend id, and
   is anchored in T by the links Ingress-Backend, Ingress-Host, Service-Host,
   Endpoints-Host; the backend of every path of every host exists and some ingress is
   linked to both.
   batch_links_ok_e: batch_links_ok, and b_links names every Endpoints entry that changed.
   back_det w: two (Service, port) pairs of w with the same backend id (ns_name_targetPort)
   have the same servers -- needed, see the refutations below. *)
Theorem C01_model_partial_step_obs : forall (w w' : world) (x : st) (b : batch),
  InvO w x -> batch_wf w w' b -> batch_links_ok_e w w' b ->
  exists x', sync_partial w' x b = Some x' /\ InvO w' x'.
Proof. exact model_partial_step_obs. Qed.
Print Assumptions C01_model_partial_step_obs.

Theorem C01_sync_full_InvO : forall w, InvO w (sync_full w).
Proof. exact sync_full_InvO. Qed.
Print Assumptions C01_sync_full_InvO.

Theorem C01_InvO_obs : forall w x, InvO w x -> back_det w ->
  forall hn, obs_host (fst x) hn = obs_host (fst (sync_full w)) hn.
Proof. exact InvO_obs. Qed.
Print Assumptions C01_InvO_obs.

Theorem C01_model_history_obs : forall (w0 : world) (h : list (batch * world)),
  hist_ok_o w0 h -> back_det (last_w w0 h) ->
  exists x', run_hist (sync_full w0) h = Some x' /\
             forall hn, obs_host (fst x') hn = obs_host (fst (sync_full (last_w w0 h))) hn.
Proof. exact model_history_obs. Qed.
Print Assumptions C01_model_history_obs.

(* histories that interleave full syncs (HFull w' = sync_full w') and partial syncs *)
Theorem C01_model_steps_obs : forall (w0 : world) (l : list hstep),
  steps_ok w0 l -> back_det (last_ws w0 l) ->
  exists x', run_steps (sync_full w0) l = Some x' /\
             forall hn, obs_host (fst x') hn = obs_host (fst (sync_full (last_ws w0 l))) hn.
Proof. exact model_steps_obs. Qed.
Print Assumptions C01_model_steps_obs.

Theorem C01_model_steps_hosts : forall (w0 : world) (l : list hstep),
  steps_ok w0 l ->
  exists x', run_steps (sync_full w0) l = Some x' /\
             hosts_eq (fst x') (fst (sync_full (last_ws w0 l))).
Proof. exact model_steps_hosts. Qed.
Print Assumptions C01_model_steps_hosts.

(* back_det cannot be dropped.  Service d/s has ports a and b, both with targetPort 9090
   (one backend d_s_9090), and Endpoints that differ per port name.
   (1) the oldest ingress owns path / of x.local, ing_dd redeclares it (port a) and is
       skipped, ing_k uses port b on k.local.  The oldest is deleted: ing_dd is re-synced
       and acquires the existing backend built from port b; a full sync builds it from
       port a (ing_dd is older than ing_k). *)
Theorem C01_model_obs_unskipped_path_refuted :
  batch_wf rw0 rw1 rb1 /\ batch_links_ok_e rw0 rw1 rb1 /\
  obs_after (sync_partial rw1 (sync_full rw0) rb1) ["x.local"; "k.local"]
    = Some [Some ([("/", Prefix, [("10.0.0.2", 9090%Z)])], None);
            Some ([("/", Prefix, [("10.0.0.2", 9090%Z)])], None)] /\
  obs_after (Some (sync_full rw1)) ["x.local"; "k.local"]
    = Some [Some ([("/", Prefix, [("10.0.0.1", 9090%Z)])], None);
            Some ([("/", Prefix, [("10.0.0.1", 9090%Z)])], None)] /\
  ~ back_det rw1.
Proof. exact obs_unskipped_path_refuted. Qed.
Print Assumptions C01_model_obs_unskipped_path_refuted.

(* (2) an ingress older than ing_k is created with an unspecified service port (r_port "",
       = first port = a): findBackend of trackAddedIngress does not find the empty port,
       so the existing backend is not linked and not removed. *)
Theorem C01_model_obs_unspecified_port_refuted :
  batch_ok sw0 sw1 sb1 /\ batch_links_ok_e sw0 sw1 sb1 /\
  obs_after (sync_partial sw1 (sync_full sw0) sb1) ["n.local"; "k.local"]
    = Some [Some ([("/", Prefix, [("10.0.0.2", 9090%Z)])], None);
            Some ([("/", Prefix, [("10.0.0.2", 9090%Z)])], None)] /\
  obs_after (Some (sync_full sw1)) ["n.local"; "k.local"]
    = Some [Some ([("/", Prefix, [("10.0.0.1", 9090%Z)])], None);
            Some ([("/", Prefix, [("10.0.0.1", 9090%Z)])], None)].
Proof. exact obs_unspecified_port_refuted. Qed.
Print Assumptions C01_model_obs_unspecified_port_refuted.

(* the premises of the history theorem are satisfiable: Endpoints change, a Service read by
   a skipped path changes, the shadowing ingress is deleted *)
Theorem C01_model_obs_history_example :
  hist_ok_o ow0 ohist /\ back_det ow3 /\
  obs_after (run_hist (sync_full ow0) ohist) ["k.local"; "h1.local"]
  = obs_after (Some (sync_full ow3)) ["k.local"; "h1.local"].
Proof.
  refine (conj (proj1 obs_history_ok) (conj (proj2 obs_history_ok) _)).
  rewrite (proj1 obs_history_eval), (proj2 obs_history_eval). reflexivity.
Qed.
Print Assumptions C01_model_obs_history_example.

(* C06 at the level of the observation *)
Theorem C06_sync_full_perm_obs : forall w1 w2 : world,
  Permutation (w_ings w1) (w_ings w2) -> NoDup (map i_full (w_ings w1)) ->
  w_svcs w1 = w_svcs w2 -> w_eps w1 = w_eps w2 -> w_secrets w1 = w_secrets w2 ->
  forall hn, obs_host (fst (sync_full w1)) hn = obs_host (fst (sync_full w2)) hn.
Proof. exact sync_full_perm_obs. Qed.
Print Assumptions C06_sync_full_perm_obs.

(* ---- an updated ingress that had configured nothing (no tracking link) ----
   d/e has an empty spec and is updated to a tls block for t.local.  The model converts it
   (the merge always includes the updated names).  The code before commits 42edb61 and
   3533ecf (pre-tracking of rule hosts only, updated ingresses converted only when
   QueryLinks returns them) never configured t.local; either repair alone is enough in the
   model. *)
Theorem C01_model_upd_untracked_ok :
  batch_ok ew0 ew1 eb1 /\
  (exists x', sync_partial ew1 (sync_full ew0) eb1 = Some x' /\ Inv ew1 x') /\
  hosts_kt (sync_partial ew1 (sync_full ew0) eb1) = hosts_kt (Some (sync_full ew1)) /\
  get_host (fst (sync_full ew1)) "t.local" = Some {| h_paths := []; h_tls := Some "DEFAULT" |}.
Proof. exact (conj upd_untracked_wf upd_untracked_ok). Qed.
Print Assumptions C01_model_upd_untracked_ok.

Theorem C01_model_upd_untracked_old_refuted :
  hosts_kt (sync_partial_gen track_added_ing_old merge_names_old ew1 (sync_full ew0) eb1)
    = Some [get_host (fst (sync_full ew0)) "k.local"; None] /\
  hosts_kt (Some (sync_full ew1))
    = Some [get_host (fst (sync_full ew0)) "k.local"; Some {| h_paths := []; h_tls := Some "DEFAULT" |}].
Proof. exact upd_untracked_old_refuted. Qed.
Print Assumptions C01_model_upd_untracked_old_refuted.

Theorem C01_model_upd_untracked_each_repair_ok :
  hosts_kt (sync_partial_gen track_added_ing_old merge_names ew1 (sync_full ew0) eb1)
    = hosts_kt (Some (sync_full ew1)) /\
  hosts_kt (sync_partial_gen track_added_ing merge_names_old ew1 (sync_full ew0) eb1)
    = hosts_kt (Some (sync_full ew1)).
Proof. exact upd_untracked_each_repair_ok. Qed.
Print Assumptions C01_model_upd_untracked_each_repair_ok.
