(* C19 — Disabled snippet keywords never reach the configuration through annotations.
   Statements only; every proof is one `exact`.  The functions are the model of
   firstToken / LineToSlice / buildBackendCustomConfig / Mapper.Get /
   buildGlobalCustomConfig in Model/Snippet.v; strings are byte lists.
   `kws` is --disable-config-keywords after the split on commas. *)
From Coq Require Import String Ascii List NArith.
From HI Require Import Lib.Snippet_Strs Model.Snippet Proofs.Snippet.
Import ListNotations.
Open Scope string_scope.

(* firstToken: leading blanks (space, \t, \n, \v, \f, \r) are skipped, the token runs up to
   the next blank or the end -- for every way of writing  ws ++ tok ++ rest *)
Theorem C19_first_token_spec : forall ws tok rest,
  all_space ws = true -> no_space tok = true -> starts_space rest ->
  (tok <> EmptyString \/ rest = EmptyString) ->
  first_token (ws ++ tok ++ rest) = tok.
Proof. exact first_token_spec. Qed.
Print Assumptions C19_first_token_spec.

(* ... and every string is of that shape around its first token, so the token is unique *)
Theorem C19_first_token_decomp : forall s,
  exists ws rest, s = ws ++ first_token s ++ rest /\
    all_space ws = true /\ no_space (first_token s) = true /\ starts_space rest.
Proof. exact first_token_decomp. Qed.
Print Assumptions C19_first_token_decomp.

(* the lines looked at are newline-free and, joined by newlines, are the whole value
   up to trailing newlines: nothing of a multi-line value is left unexamined *)
Theorem C19_lines_cover : forall v,
  (forall l, In l (line_to_slice v) -> no_nl l = true) /\
  exists n, v = join_nl (line_to_slice v) ++ nls n.
Proof. exact lines_cover. Qed.
Print Assumptions C19_lines_cover.

(* a non-empty snippet is dropped exactly when a non-empty listed keyword is `*` or is the
   first token of one of its lines *)
Theorem C19_dropped_iff : forall kws v, v <> EmptyString ->
  (custom_config kws v = None <->
   exists k, In k kws /\ k <> EmptyString /\
     (k = "*" \/ exists l, In l (line_to_slice v) /\ first_token l = k)).
Proof. exact dropped_iff. Qed.
Print Assumptions C19_dropped_iff.

(* what is emitted is the whole snippet and none of its lines starts with a listed keyword *)
Theorem C19_emitted_safe : forall kws v ls, custom_config kws v = Some ls ->
  ls = line_to_slice v /\ ls <> [] /\
  forall k, In k kws -> k <> EmptyString ->
    k <> "*" /\ forall l, In l ls -> first_token l <> k.
Proof. exact emitted_safe. Qed.
Print Assumptions C19_emitted_safe.

(* no spelling bypasses the check: the keyword after any blanks, followed by end of line
   or a blank and anything, on any line of a multi-line value -> the snippet is dropped *)
Theorem C19_no_bypass : forall kws k pre ws rest post,
  In k kws -> k <> EmptyString -> no_space k = true ->
  all_space ws = true -> no_nl ws = true ->
  starts_space rest -> no_nl rest = true ->
  ends_line pre -> begins_line post ->
  custom_config kws (pre ++ (ws ++ k ++ rest) ++ post) = None.
Proof. exact no_bypass. Qed.
Print Assumptions C19_no_bypass.

(* backend level, several annotations (service, ingress, class, several paths) merged by
   the mapper, `d` = config-backend of the global ConfigMap if any: whatever line reaches
   backend.CustomConfig, the list is the whole winning snippet, `*` is not listed and no
   emitted line starts with a listed keyword *)
Theorem C19_backend_emitted_safe : forall kws adds d l,
  In l (backend_custom kws adds d) ->
  backend_custom kws adds d = line_to_slice (mapper_get adds d) /\
  ~ In "*" kws /\
  forall k, In k kws -> k <> EmptyString ->
    forall l', In l' (backend_custom kws adds d) -> first_token l' <> k.
Proof. exact backend_emitted_safe. Qed.
Print Assumptions C19_backend_emitted_safe.

(* with `*` nothing at all is emitted on a backend *)
Theorem C19_star_nothing : forall kws adds d, In "*" kws -> backend_custom kws adds d = [].
Proof. exact backend_star_nothing. Qed.
Print Assumptions C19_star_nothing.

(* a listed keyword starting any line of the winning snippet -> nothing is emitted *)
Theorem C19_keyword_nothing : forall kws adds d k l,
  In k kws -> k <> EmptyString -> In l (line_to_slice (mapper_get adds d)) ->
  first_token l = k -> backend_custom kws adds d = [].
Proof. exact backend_keyword_nothing. Qed.
Print Assumptions C19_keyword_nothing.

(* the filter only filters: without keywords the winning snippet is emitted verbatim *)
Theorem C19_unfiltered_without_keywords : forall adds d,
  backend_custom [] adds d = line_to_slice (mapper_get adds d).
Proof. exact backend_unfiltered. Qed.
Print Assumptions C19_unfiltered_without_keywords.

(* config-tcp-service of a TCP service (frontend section _front_tcp_<port>): as soon as an
   annotation registered a value, the same guarantees hold *)
Theorem C19_tcp_emitted_safe : forall kws adds d l, adds <> [] ->
  In l (tcp_custom kws adds d) ->
  tcp_custom kws adds d = line_to_slice (mapper_get adds d) /\
  ~ In "*" kws /\
  forall k, In k kws -> k <> EmptyString ->
    forall l', In l' (tcp_custom kws adds d) -> first_token l' <> k.
Proof. exact tcp_emitted_safe. Qed.
Print Assumptions C19_tcp_emitted_safe.

Theorem C19_tcp_star_nothing : forall kws adds d,
  adds <> [] -> In "*" kws -> tcp_custom kws adds d = [].
Proof. exact tcp_star_nothing. Qed.
Print Assumptions C19_tcp_star_nothing.

Theorem C19_tcp_keyword_nothing : forall kws adds d k l, adds <> [] ->
  In k kws -> k <> EmptyString -> In l (line_to_slice (mapper_get adds d)) ->
  first_token l = k -> tcp_custom kws adds d = [].
Proof. exact tcp_keyword_nothing. Qed.
Print Assumptions C19_tcp_keyword_nothing.

(* ... and config-tcp-service of the global ConfigMap (no annotation) is not filtered *)
Theorem C19_tcp_default_unaffected : forall kws d,
  tcp_custom kws [] d = line_to_slice (match d with Some v => v | None => EmptyString end).
Proof. exact tcp_default_unaffected. Qed.
Print Assumptions C19_tcp_default_unaffected.

(* the global-scope snippet keys of the global ConfigMap (config-global, config-defaults,
   config-frontend[-early|-late], config-sections, config-tcp) do not depend on the
   keyword list: they are the lines of the configured value *)
Theorem C19_global_unaffected : forall kws g,
  global_custom kws g = global_custom [] g /\
  o_global (global_custom kws g) = line_to_slice (g_global g) /\
  o_defaults (global_custom kws g) = line_to_slice (g_defaults g) /\
  o_fe_early (global_custom kws g) = line_to_slice (g_fe_early g) /\
  o_sections (global_custom kws g) = line_to_slice (g_sections g) /\
  o_tcp (global_custom kws g) = line_to_slice (g_tcp g) /\
  (o_fe_late (global_custom kws g) = line_to_slice (g_fe_late g) \/
   (line_to_slice (g_fe_late g) = [] /\
    o_fe_late (global_custom kws g) = line_to_slice (g_fe g))).
Proof. exact global_unaffected. Qed.
Print Assumptions C19_global_unaffected.

(* On the WRITTEN file.  `written ls` is what the template and writeToDisk put in the backend
   section for the emitted lines (4 blanks, the line, LF; nothing else is done to the bytes:
   hypothesis checked byte for byte by the correspondence cases that write the files).
   HAProxy cuts the file at LF; in a line an unquoted CR ends the statement and the first word
   is delimited by space and tab (`haproxy_word`).  No line of the written block of an
   emitted snippet starts with a listed blank-free keyword, neither for the filter's reading
   of blanks nor for HAProxy's. *)
Theorem C19_written_safe : forall kws v ls, custom_config kws v = Some ls ->
  forall line, In line (split_nl (written ls)) ->
  forall k, In k kws -> k <> EmptyString -> no_space k = true ->
    first_token line <> k /\ haproxy_word line <> k.
Proof. exact written_safe. Qed.
Print Assumptions C19_written_safe.

(* the first word HAProxy reads on a line, when blank-free and not empty, is the first token
   the filter looked at: HAProxy's notion of a first word is covered by the filter's *)
Theorem C19_haproxy_word_covered : forall l k,
  haproxy_word l = k -> k <> EmptyString -> no_space k = true -> first_token l = k.
Proof. exact haproxy_word_first_token. Qed.
Print Assumptions C19_haproxy_word_covered.
