(* C15 -- each TLS host is served with the certificate its Ingress declares, else the
   default one, never another tenant's; replacing a Secret's content updates the served
   certificate for exactly the hosts that use it.  Statements only.

   Vocabulary (Model/CrtList.v): `served w n` = HAProxy's SNI selection (exact filter, then
   "*." + the name after its first label, then the first line) on the crt-list generated
   from the full sync of cluster w;  `secret_ref i s` = "" when the tls block has no
   secretName, else i_ns i/s;  `ref_cert w r` = the content hash of the present and valid
   secret r, else "DEFAULT";  `winner_ref w h` = the reference of the first tls block
   naming host h in (creation, ns/name) order of the ingresses;  `effective_ref w n` = the
   winner of n, else the winner of the wildcard host covering n;  `name_ok n` = n is not
   the internal name of the default host and does not start with "!";  `ing_ltb` = the
   order of sortIngress.  `no_tls_entry w h` = no tls block of any ingress names h;
   `no_custom_wildcard w n` = the wildcard host covering n, if some ingress declares tls
   for it, resolves to the default certificate. *)
From Coq Require Import List Bool String ZArith.
From HI Require Import Model.Tracker Model.Conv Model.CrtList Proofs.ConvHist Proofs.CrtList
                       Proofs.CrtList_e2e Proofs.CrtList_gen Model.CrtList_xns Proofs.CrtList_xns.
From HI Require Model.XNs.
Import ListNotations.
Open Scope string_scope.

(* the master characterisation: every SNI name gets the certificate its deciding
   declaration resolves to *)
Theorem C15_served_spec : forall w n, name_ok n ->
  served w n = match effective_ref w n with Some r => ref_cert w r | None => default_crt end.
Proof. exact served_spec. Qed.
Print Assumptions C15_served_spec.

(* a declared tls host is served with the secret of the FIRST ingress, in (creation,
   ns/name) order, declaring tls for it (its first block naming the host) if that secret is
   present and valid, else with the default certificate -- whatever other ingresses,
   namespaces and wildcard hosts declare *)
Theorem C15_sni_serves_declared : forall w i pre blk post h,
  NoDup (map i_full (w_ings w)) ->
  In i (w_ings w) -> i_tls i = (pre ++ blk :: post)%list -> In h (fst blk) ->
  (forall b, In b pre -> ~ In h (fst b)) ->
  (forall j, In j (w_ings w) -> j <> i -> (exists b, In b (i_tls j) /\ In h (fst b)) -> ing_ltb i j = true) ->
  name_ok h ->
  served w h = ref_cert w (secret_ref i (snd blk)).
Proof. exact sni_serves_declared. Qed.
Print Assumptions C15_sni_serves_declared.

(* a name nobody declares tls for: the certificate declared for the wildcard host
   covering it, else the default certificate *)
Theorem C15_sni_undeclared : forall w n, name_ok n -> no_tls_entry w n ->
  served w n = match wild_of n with
               | Some wn => match winner_ref w wn with Some r => ref_cert w r | None => default_crt end
               | None => default_crt
               end.
Proof. exact sni_undeclared. Qed.
Print Assumptions C15_sni_undeclared.

(* "hosts without a tls entry fall back to the default certificate": FALSE at full
   strength -- the statement would be
     forall w h, name_ok h -> has_rules w h -> no_tls_entry w h -> served w h = default_crt *)
Theorem C15_sni_default_otherwise_refuted :
  exists w h, name_ok h /\ has_rules w h /\ no_tls_entry w h /\ served w h <> default_crt.
Proof. exact sni_default_otherwise_refuted. Qed.
Print Assumptions C15_sni_default_otherwise_refuted.

Theorem C15_sni_default_otherwise_under_H : forall w h, name_ok h ->
  no_tls_entry w h -> no_custom_wildcard w h -> served w h = default_crt.
Proof. exact sni_default_otherwise_under_H. Qed.
Print Assumptions C15_sni_default_otherwise_under_H.

(* never another tenant's: the served certificate is the default one or the secret -- in the
   namespace of that ingress -- named by an ingress that declares tls for the name itself
   or for the wildcard host covering it; no hypothesis *)
Theorem C15_never_unrelated : forall w n, name_ok n ->
  served w n = default_crt \/
  exists i blk d, In i (w_ings w) /\ In blk (i_tls i) /\ In d (fst blk) /\
                  (d = n \/ wild_of n = Some d) /\
                  served w n = ref_cert w (secret_ref i (snd blk)).
Proof. exact never_unrelated. Qed.
Print Assumptions C15_never_unrelated.

(* "the host's own declaration or the default": FALSE at full strength (same witness) *)
Theorem C15_never_foreign_refuted :
  exists w n, name_ok n /\
    ~ (served w n = default_crt \/
       exists i blk, In i (w_ings w) /\ In blk (i_tls i) /\ In n (fst blk) /\
                     served w n = ref_cert w (secret_ref i (snd blk))).
Proof. exact never_foreign_refuted. Qed.
Print Assumptions C15_never_foreign_refuted.

Theorem C15_never_foreign_under_H : forall w n, name_ok n ->
  (no_tls_entry w n -> no_custom_wildcard w n) ->
  served w n = default_crt \/
  exists i blk, In i (w_ings w) /\ In blk (i_tls i) /\ In n (fst blk) /\
                served w n = ref_cert w (secret_ref i (snd blk)).
Proof. exact never_foreign_under_H. Qed.
Print Assumptions C15_never_foreign_under_H.

(* rotation: two clusters with the same ingresses whose secrets differ at most at k *)
Theorem C15_rotation_local : forall w w' k,
  w_ings w' = w_ings w ->
  (forall k', k' <> k -> assoc k' (w_secrets w') = assoc k' (w_secrets w)) ->
  forall n, name_ok n ->
    (effective_ref w n = Some k -> served w' n = ref_cert w' k) /\
    (effective_ref w n <> Some k -> served w' n = served w n).
Proof. exact rotation_local. Qed.
Print Assumptions C15_rotation_local.

Theorem C15_rotation_replace : forall w k c n, name_ok n -> k <> "" ->
  (effective_ref w n = Some k -> served (with_secret w k c) n = c) /\
  (effective_ref w n <> Some k -> served (with_secret w k c) n = served w n).
Proof. exact rotation_replace. Qed.
Print Assumptions C15_rotation_replace.

(* histories: after any well formed history of partial syncs (hist_ok_g: see
   Properties/C01_model.v) the crt-list generated from the state reached serves what a
   fresh full sync of the last cluster serves *)
Theorem C15_history_served : forall (w0 : world) (h : list (batch * world)),
  hist_ok_g w0 h ->
  exists x', run_hist (sync_full w0) h = Some x' /\
             forall n, served_in (host_names (last_w w0 h)) (fst x') n = served (last_w w0 h) n.
Proof. exact history_served. Qed.
Print Assumptions C15_history_served.

Theorem C15_history_rotation_local :
  forall (w0 : world) (h : list (batch * world)) (w : world) (k : string),
  hist_ok_g w0 h ->
  w_ings (last_w w0 h) = w_ings w ->
  (forall k', k' <> k -> assoc k' (w_secrets (last_w w0 h)) = assoc k' (w_secrets w)) ->
  exists x', run_hist (sync_full w0) h = Some x' /\
    forall n, name_ok n ->
      (effective_ref w n = Some k ->
         served_in (host_names (last_w w0 h)) (fst x') n = ref_cert (last_w w0 h) k) /\
      (effective_ref w n <> Some k ->
         served_in (host_names (last_w w0 h)) (fst x') n = served w n).
Proof. exact history_rotation_local. Qed.
Print Assumptions C15_history_rotation_local.

(* runtime (dynupdate.go checkHostPair / execUpdateCert): the pair of commands is sent iff
   the host has a certificate file, the same as before, whose content hash differs ... *)
Theorem C15_cert_cmd_sent_iff : forall (A : Type) (old new : hostview A),
  cert_cmd_sent old new = true <->
  hv_file new <> "" /\ hv_hash old <> hv_hash new /\ hv_file old = hv_file new.
Proof. exact @cert_cmd_sent_iff. Qed.
Print Assumptions C15_cert_cmd_sent_iff.

(* ... and the host is updated without reload by these commands exactly when nothing but
   the content of the certificate differs (and HAProxy accepted it) *)
Theorem C15_cert_update_dynamic_sent_iff :
  forall (A : Type) (eqA : A -> A -> bool), (forall a b, eqA a b = true <-> a = b) ->
  forall (old new : hostview A) (ok : bool),
  (cert_update_dynamic eqA old new ok = true /\ cert_cmd_sent old new = true) <->
  (hv_other old = hv_other new /\ hv_file old = hv_file new /\ hv_file new <> "" /\
   hv_hash old <> hv_hash new /\ ok = true).
Proof. exact @cert_update_dynamic_sent_iff. Qed.
Print Assumptions C15_cert_update_dynamic_sent_iff.

Theorem C15_cert_update_dynamic_quiet_iff :
  forall (A : Type) (eqA : A -> A -> bool), (forall a b, eqA a b = true <-> a = b) ->
  forall (old new : hostview A) (ok : bool),
  (cert_update_dynamic eqA old new ok = true /\ cert_cmd_sent old new = false) <->
  (hv_other old = hv_other new /\ hv_file old = hv_file new /\
   (hv_hash old = hv_hash new \/ hv_file new = "")).
Proof. exact @cert_update_dynamic_quiet_iff. Qed.
Print Assumptions C15_cert_update_dynamic_quiet_iff.

(* ================================================================== *)
(* Composition: Conv -> CrtList -> sni_select                          *)
(* ================================================================== *)
(* `declared_cert w n` = the certificate the deciding declaration of n resolves to
   (ref_cert of effective_ref, else DEFAULT).  For every cluster of the Conv.v subset: the
   names the crt-list is generated from are exactly the hosts of the state the converter
   model builds, and HAProxy's selection on the generated list serves, for every SNI, the
   certificate of the secret the winning declaration names. *)
Theorem C15_end_to_end : forall w,
  (forall h, In h (host_names w) <-> get_host (fst (sync_full w)) h <> None) /\
  (forall n, name_ok n ->
     sni_select (crt_list (host_names w) (fst (sync_full w))) n = declared_cert w n).
Proof. exact end_to_end. Qed.
Print Assumptions C15_end_to_end.

(* the same after every well formed history of partial syncs (C01_model_history_general) *)
Theorem C15_end_to_end_history : forall (w0 : world) (h : list (batch * world)),
  hist_ok_g w0 h ->
  exists x', run_hist (sync_full w0) h = Some x' /\
    (forall hn, In hn (host_names (last_w w0 h)) <-> get_host (fst x') hn <> None) /\
    (forall n, name_ok n ->
       sni_select (crt_list (host_names (last_w w0 h)) (fst x')) n = declared_cert (last_w w0 h) n).
Proof. exact end_to_end_history. Qed.
Print Assumptions C15_end_to_end_history.

(* ... and after every prefix of it: at no step of a history a stale certificate is served *)
Theorem C15_end_to_end_every_step : forall (w0 : world) (h1 h2 : list (batch * world)),
  hist_ok_g w0 (h1 ++ h2) ->
  exists x1, run_hist (sync_full w0) h1 = Some x1 /\
    forall n, name_ok n ->
      sni_select (crt_list (host_names (last_w w0 h1)) (fst x1)) n = declared_cert (last_w w0 h1) n.
Proof. exact end_to_end_every_step. Qed.
Print Assumptions C15_end_to_end_every_step.

(* ================================================================== *)
(* Rotation: delete, re-create, replicated secrets                     *)
(* ================================================================== *)
Theorem C15_rotation_delete : forall w k n, name_ok n -> k <> "" ->
  (effective_ref w n = Some k -> served (without_secret w k) n = default_crt) /\
  (effective_ref w n <> Some k -> served (without_secret w k) n = served w n).
Proof. exact rotation_delete. Qed.
Print Assumptions C15_rotation_delete.

Theorem C15_rotation_recreate : forall w k c n, name_ok n -> k <> "" ->
  (effective_ref w n = Some k -> served (with_secret (without_secret w k) k c) n = c) /\
  (effective_ref w n <> Some k -> served (with_secret (without_secret w k) k c) n = served w n).
Proof. exact rotation_recreate. Qed.
Print Assumptions C15_rotation_recreate.

(* identical content under two keys (a certificate replicated into two namespaces):
   whatever happens to k1, the names decided by k2 stay served with that content *)
Theorem C15_rotation_replicated : forall w w' k1 k2 c n, name_ok n ->
  k1 <> k2 -> k2 <> "" ->
  assoc k2 (w_secrets w) = Some c ->
  w_ings w' = w_ings w ->
  (forall k', k' <> k1 -> assoc k' (w_secrets w') = assoc k' (w_secrets w)) ->
  effective_ref w n = Some k2 ->
  served w' n = c.
Proof. exact rotation_replicated. Qed.
Print Assumptions C15_rotation_replicated.

Theorem C15_history_rotation_replicated :
  forall (w0 : world) (h : list (batch * world)) (w : world) (k1 k2 c : string),
  hist_ok_g w0 h ->
  k1 <> k2 -> k2 <> "" ->
  assoc k2 (w_secrets w) = Some c ->
  w_ings (last_w w0 h) = w_ings w ->
  (forall k', k' <> k1 -> assoc k' (w_secrets (last_w w0 h)) = assoc k' (w_secrets w)) ->
  exists x', run_hist (sync_full w0) h = Some x' /\
    forall n, name_ok n -> effective_ref w n = Some k2 ->
      served_in (host_names (last_w w0 h)) (fst x') n = c.
Proof. exact history_rotation_replicated. Qed.
Print Assumptions C15_history_rotation_replicated.

(* ================================================================== *)
(* Hosts level: ANY source of certificates and bind options            *)
(* ================================================================== *)
(* crt_list_gen d l = the crt-list of WriteFrontendMaps for the hosts l of the haproxy model
   (ingress tls, Gateway listeners, auth-tls / alpn / ciphers options, ssl-passthrough,
   ssl-always-add-https), d the default certificate file.  A host that terminates TLS is
   served with its own certificate file, the default one if it has none. *)
Theorem C15_hosts_serves_own : forall d l h,
  NoDup (map hc_name l) -> In h l -> name_ok (hc_name h) ->
  hc_pass h = false -> (hc_hastls h = true \/ hc_custom d h = true) ->
  served_gen d l (hc_name h) = gen_crtfile d h.
Proof. exact gen_serves_own. Qed.
Print Assumptions C15_hosts_serves_own.

Theorem C15_hosts_passthrough_no_line : forall d l h g,
  NoDup (map hc_name l) -> In h l -> hc_pass h = true -> is_neg (hc_name h) = false ->
  In g (crt_list_gen d l) -> gl_filter g <> hc_name h.
Proof. exact gen_passthrough_no_line. Qed.
Print Assumptions C15_hosts_passthrough_no_line.

Theorem C15_hosts_line_options : forall d l h,
  hc_pass h = false -> hc_custom d h = true ->
  gen_line d l h = Some {| gl_crt := gen_crtfile d h; gl_opts := hc_bind h; gl_filter := hc_name h |}.
Proof. exact gen_line_options. Qed.
Print Assumptions C15_hosts_line_options.

(* the converter-level crt-list of the theorems above is the hosts-level one applied to
   the hosts of the converter model *)
Theorem C15_hosts_refines : forall w,
  (forall k c, In (k, c) (w_secrets w) -> c <> "") ->
  forall n, name_ok n ->
    served_gen default_crt (map (hcfg_of (fst (sync_full w))) (host_names w)) n = served w n.
Proof. exact gen_refines_full. Qed.
Print Assumptions C15_hosts_refines.

(* ================================================================== *)
(* The cross-namespace permission (definitions of Model/XNs.v, C09)    *)
(* ================================================================== *)
(* d : XNs.dyn is the dynamic configuration (d_crt = --allow-cross-namespace or
   cross-namespace-secrets-crt=allow; d_ca is the bit of auth-tls CA bundles and is NOT read
   here).  xresolve d ns s = the secret ns'/name the secretName s written in an ingress of
   namespace ns names (XNs.content_protocol + XNs.build_resource_name with d_crt), None when
   it is malformed or not readable from ns.  cert_x d w ns s = the content of that secret
   if readable, present and valid, else DEFAULT.  xworld d w = the cluster as the converter
   model reads it under d.  ns_ok w = no ingress namespace contains "/". *)
Theorem C15_sni_serves_declared_x : forall d w i pre blk post h,
  ns_ok w -> NoDup (map i_full (w_ings w)) ->
  In i (w_ings w) -> i_tls i = (pre ++ blk :: post)%list -> In h (fst blk) ->
  (forall b, In b pre -> ~ In h (fst b)) ->
  (forall j, In j (w_ings w) -> j <> i -> (exists b, In b (i_tls j) /\ In h (fst b)) -> ing_ltb i j = true) ->
  name_ok h ->
  sni_select (crt_list (host_names w) (fst (sync_full (xworld d w)))) h = cert_x d w (i_ns i) (snd blk).
Proof. exact sni_serves_declared_x. Qed.
Print Assumptions C15_sni_serves_declared_x.

(* end to end with the permission: every SNI is served the default certificate or the
   secret the deciding tls entry names, if readable from the namespace of its ingress *)
Theorem C15_end_to_end_x : forall d w, ns_ok w ->
  (forall h, In h (host_names w) <-> get_host (fst (sync_full (xworld d w))) h <> None) /\
  (forall n, name_ok n ->
     let served_n := sni_select (crt_list (host_names w) (fst (sync_full (xworld d w)))) n in
     (effective_ref w n = None /\ served_n = default_crt) \/
     exists i blk dn, In i (w_ings w) /\ In blk (i_tls i) /\ In dn (fst blk) /\
                      (dn = n \/ wild_of n = Some dn) /\
                      effective_ref w n = Some (secret_ref i (snd blk)) /\
                      served_n = cert_x d w (i_ns i) (snd blk)).
Proof. exact end_to_end_x. Qed.
Print Assumptions C15_end_to_end_x.

(* the crt bit decides, the ca bit does not: a/inga names b/tls-b (plain and secret://) *)
Theorem C15_permission_example :
  map (served_x (q_dyn false true) q_world) ["a.example"; "s.example"; "l.example"] = [default_crt; default_crt; "HASH-A"] /\
  map (served_x (q_dyn true false) q_world) ["a.example"; "s.example"; "l.example"] = ["HASH-B"; "HASH-B"; "HASH-A"].
Proof. exact permission_example. Qed.
Print Assumptions C15_permission_example.
