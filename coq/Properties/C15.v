(* C15 -- each TLS host is served with the certificate its Ingress declares, else the
   default one, never another tenant's; replacing a Secret's content updates the served
   certificate for exactly the hosts that use it.  Statements only.

   Vocabulary (Model/CrtList.v): `served w n` = HAProxy's SNI selection (exact filter, then
   "*." + the name after its first label, then the first line) on the crt-list generated
   from the full sync of cluster w;  `secret_ref i s` = "" when the tls block has no
   secretName, else i_ns i/s;  `ref_cert w r` = the content hash of the present and valid
   secret r, else "DEFAULT";  `winner_ref w h` = the reference of the first tls block
   naming host h in (creation, ns/name) order of the ingresses;  `effective_ref w n` = the
   winner of n, else the winner of the wildcard host covering n;  `name_ok n` = n is not
   the internal name of the default host and does not start with "!";  `ing_ltb` = the
   order of sortIngress.  `no_tls_entry w h` = no tls block of any ingress names h;
   `no_custom_wildcard w n` = the wildcard host covering n, if some ingress declares tls
   for it, resolves to the default certificate. *)
From Coq Require Import List Bool String ZArith.
From HI Require Import Model.Tracker Model.Conv Model.CrtList Proofs.ConvHist Proofs.CrtList.
Import ListNotations.
Open Scope string_scope.

(* the master characterisation: every SNI name gets the certificate its deciding
   declaration resolves to *)
Theorem C15_served_spec : forall w n, name_ok n ->
  served w n = match effective_ref w n with Some r => ref_cert w r | None => default_crt end.
Proof. exact served_spec. Qed.
Print Assumptions C15_served_spec.

(* a declared tls host is served with the secret of the FIRST ingress, in (creation,
   ns/name) order, declaring tls for it (its first block naming the host) if that secret is
   present and valid, else with the default certificate -- whatever other ingresses,
   namespaces and wildcard hosts declare *)
Theorem C15_sni_serves_declared : forall w i pre blk post h,
  NoDup (map i_full (w_ings w)) ->
  In i (w_ings w) -> i_tls i = (pre ++ blk :: post)%list -> In h (fst blk) ->
  (forall b, In b pre -> ~ In h (fst b)) ->
  (forall j, In j (w_ings w) -> j <> i -> (exists b, In b (i_tls j) /\ In h (fst b)) -> ing_ltb i j = true) ->
  name_ok h ->
  served w h = ref_cert w (secret_ref i (snd blk)).
Proof. exact sni_serves_declared. Qed.
Print Assumptions C15_sni_serves_declared.

(* a name nobody declares tls for: the certificate declared for the wildcard host
   covering it, else the default certificate *)
Theorem C15_sni_undeclared : forall w n, name_ok n -> no_tls_entry w n ->
  served w n = match wild_of n with
               | Some wn => match winner_ref w wn with Some r => ref_cert w r | None => default_crt end
               | None => default_crt
               end.
Proof. exact sni_undeclared. Qed.
Print Assumptions C15_sni_undeclared.

(* "hosts without a tls entry fall back to the default certificate": FALSE at full
   strength -- the statement would be
     forall w h, name_ok h -> has_rules w h -> no_tls_entry w h -> served w h = default_crt *)
Theorem C15_sni_default_otherwise_refuted :
  exists w h, name_ok h /\ has_rules w h /\ no_tls_entry w h /\ served w h <> default_crt.
Proof. exact sni_default_otherwise_refuted. Qed.
Print Assumptions C15_sni_default_otherwise_refuted.

Theorem C15_sni_default_otherwise_under_H : forall w h, name_ok h ->
  no_tls_entry w h -> no_custom_wildcard w h -> served w h = default_crt.
Proof. exact sni_default_otherwise_under_H. Qed.
Print Assumptions C15_sni_default_otherwise_under_H.

(* never another tenant's: the served certificate is the default one or the secret -- in the
   namespace of that ingress -- named by an ingress that declares tls for the name itself
   or for the wildcard host covering it; no hypothesis *)
Theorem C15_never_unrelated : forall w n, name_ok n ->
  served w n = default_crt \/
  exists i blk d, In i (w_ings w) /\ In blk (i_tls i) /\ In d (fst blk) /\
                  (d = n \/ wild_of n = Some d) /\
                  served w n = ref_cert w (secret_ref i (snd blk)).
Proof. exact never_unrelated. Qed.
Print Assumptions C15_never_unrelated.

(* "the host's own declaration or the default": FALSE at full strength (same witness) *)
Theorem C15_never_foreign_refuted :
  exists w n, name_ok n /\
    ~ (served w n = default_crt \/
       exists i blk, In i (w_ings w) /\ In blk (i_tls i) /\ In n (fst blk) /\
                     served w n = ref_cert w (secret_ref i (snd blk))).
Proof. exact never_foreign_refuted. Qed.
Print Assumptions C15_never_foreign_refuted.

Theorem C15_never_foreign_under_H : forall w n, name_ok n ->
  (no_tls_entry w n -> no_custom_wildcard w n) ->
  served w n = default_crt \/
  exists i blk, In i (w_ings w) /\ In blk (i_tls i) /\ In n (fst blk) /\
                served w n = ref_cert w (secret_ref i (snd blk)).
Proof. exact never_foreign_under_H. Qed.
Print Assumptions C15_never_foreign_under_H.

(* rotation: two clusters with the same ingresses whose secrets differ at most at k *)
Theorem C15_rotation_local : forall w w' k,
  w_ings w' = w_ings w ->
  (forall k', k' <> k -> assoc k' (w_secrets w') = assoc k' (w_secrets w)) ->
  forall n, name_ok n ->
    (effective_ref w n = Some k -> served w' n = ref_cert w' k) /\
    (effective_ref w n <> Some k -> served w' n = served w n).
Proof. exact rotation_local. Qed.
Print Assumptions C15_rotation_local.

Theorem C15_rotation_replace : forall w k c n, name_ok n -> k <> "" ->
  (effective_ref w n = Some k -> served (with_secret w k c) n = c) /\
  (effective_ref w n <> Some k -> served (with_secret w k c) n = served w n).
Proof. exact rotation_replace. Qed.
Print Assumptions C15_rotation_replace.

(* histories: after any well formed history of partial syncs (hist_ok_g: see
   Properties/C01_model.v) the crt-list generated from the state reached serves what a
   fresh full sync of the last cluster serves *)
Theorem C15_history_served : forall (w0 : world) (h : list (batch * world)),
  hist_ok_g w0 h ->
  exists x', run_hist (sync_full w0) h = Some x' /\
             forall n, served_in (host_names (last_w w0 h)) (fst x') n = served (last_w w0 h) n.
Proof. exact history_served. Qed.
Print Assumptions C15_history_served.

Theorem C15_history_rotation_local :
  forall (w0 : world) (h : list (batch * world)) (w : world) (k : string),
  hist_ok_g w0 h ->
  w_ings (last_w w0 h) = w_ings w ->
  (forall k', k' <> k -> assoc k' (w_secrets (last_w w0 h)) = assoc k' (w_secrets w)) ->
  exists x', run_hist (sync_full w0) h = Some x' /\
    forall n, name_ok n ->
      (effective_ref w n = Some k ->
         served_in (host_names (last_w w0 h)) (fst x') n = ref_cert (last_w w0 h) k) /\
      (effective_ref w n <> Some k ->
         served_in (host_names (last_w w0 h)) (fst x') n = served w n).
Proof. exact history_rotation_local. Qed.
Print Assumptions C15_history_rotation_local.

(* runtime (dynupdate.go checkHostPair / execUpdateCert): the pair of commands is sent iff
   the host has a certificate file, the same as before, whose content hash differs ... *)
Theorem C15_cert_cmd_sent_iff : forall (A : Type) (old new : hostview A),
  cert_cmd_sent old new = true <->
  hv_file new <> "" /\ hv_hash old <> hv_hash new /\ hv_file old = hv_file new.
Proof. exact @cert_cmd_sent_iff. Qed.
Print Assumptions C15_cert_cmd_sent_iff.

(* ... and the host is updated without reload by these commands exactly when nothing but
   the content of the certificate differs (and HAProxy accepted it) *)
Theorem C15_cert_update_dynamic_sent_iff :
  forall (A : Type) (eqA : A -> A -> bool), (forall a b, eqA a b = true <-> a = b) ->
  forall (old new : hostview A) (ok : bool),
  (cert_update_dynamic eqA old new ok = true /\ cert_cmd_sent old new = true) <->
  (hv_other old = hv_other new /\ hv_file old = hv_file new /\ hv_file new <> "" /\
   hv_hash old <> hv_hash new /\ ok = true).
Proof. exact @cert_update_dynamic_sent_iff. Qed.
Print Assumptions C15_cert_update_dynamic_sent_iff.

Theorem C15_cert_update_dynamic_quiet_iff :
  forall (A : Type) (eqA : A -> A -> bool), (forall a b, eqA a b = true <-> a = b) ->
  forall (old new : hostview A) (ok : bool),
  (cert_update_dynamic eqA old new ok = true /\ cert_cmd_sent old new = false) <->
  (hv_other old = hv_other new /\ hv_file old = hv_file new /\
   (hv_hash old = hv_hash new \/ hv_file new = "")).
Proof. exact @cert_update_dynamic_quiet_iff. Qed.
Print Assumptions C15_cert_update_dynamic_quiet_iff.
