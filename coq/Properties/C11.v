(* C11 — No needless reloads: no-op resyncs and in-capacity endpoint changes stay dynamic;
   every reload leaves at least slots-min-free empty slots and a slot count multiple of the
   slots increment. Statements only; every proof is one `exact`. *)
From Coq Require Import List String ZArith.
From HI Require Import Model.Dyn Proofs.Dyn_Base Proofs.Dyn_Pair.
Import ListNotations.
Open Scope string_scope.

(* alignSlots (run on every backend whenever HAProxy is reloaded): for every previous slot list,
   every slots-min-free and every slots-increment (zero and negative values included) the
   backend ends with >= slots-min-free empty slots, a slot count that is a multiple of
   max 1 slots-increment, and keeps the slots it had *)
Theorem C11_align_slots_post : forall b, b_dyn b = true ->
  let eps' := align_slots b in
  (b_minfree b <= Z.of_nat (count_empty eps'))%Z /\
  (Z.of_nat (List.length eps') mod (Z.max 1 (b_block b)) = 0)%Z /\
  exists tl, eps' = (b_eps b ++ tl)%list /\ Forall (fun e => is_empty e = true /\ ep_enabled e = false) tl.
Proof. exact align_slots_post. Qed.
Print Assumptions C11_align_slots_post.

(* full statement of "a change confined to the endpoints that fits in the existing slots is applied
   without a reload" (dynamic scaling on, no label, no preserved cookie, no resolver, acceptable
   socket answers): false of the code as repaired, which reloads when two endpoints share a target *)
Theorem C11_in_capacity_no_reload_refuted : exists old cur resp,
  back_cfg_equal old cur = true /\
  (List.length (b_eps cur) <= List.length (b_eps old))%nat /\
  b_dyn cur = true /\ b_resolver cur = "" /\ b_preserve cur = false /\
  no_labels (b_eps old) /\ no_labels (b_eps cur) /\ cur_enabled (b_eps cur) /\
  good_answers resp /\
  r_updated (check_backend_pair old cur resp) = false.
Proof. exact in_capacity_no_reload_refuted. Qed.
Print Assumptions C11_in_capacity_no_reload_refuted.

(* ... and true under H = no two enabled endpoints of the old or of the new backend share a
   target: for every slot layout left by earlier updates, the update is dynamic, and the slot
   count is kept, so that the guarantee of C11_align_slots_post carries over to the next update *)
Theorem C11_in_capacity_no_reload_under_H : forall old cur resp,
  back_cfg_equal old cur = true ->
  (List.length (b_eps cur) <= List.length (b_eps old))%nat ->
  b_dyn cur = true -> b_resolver cur = "" -> b_preserve cur = false ->
  no_labels (b_eps old) -> no_labels (b_eps cur) -> cur_enabled (b_eps cur) ->
  dup_target (b_eps old) = false -> dup_target (b_eps cur) = false ->
  good_answers resp ->
  let r := check_backend_pair old cur resp in
  r_updated r = true /\ List.length (r_eps r) = List.length (b_eps old) /\ r_panic r = false.
Proof. exact in_capacity_no_reload. Qed.
Print Assumptions C11_in_capacity_no_reload_under_H.
