(* C11 — No needless reloads: no-op resyncs and in-capacity endpoint changes stay dynamic;
   every reload leaves at least slots-min-free empty slots and a slot count multiple of the
   slots increment. Statements only; every proof is one `exact`. Model: Model/Dyn.v. *)
From Coq Require Import List String ZArith.
From HI Require Import Model.Dyn Proofs.Dyn_Base Proofs.Dyn_Pair Proofs.Dyn_Refine Proofs.Dyn_Step Proofs.Dyn_Noop.
Import ListNotations.
Open Scope string_scope.

(* ---- every reload aligns the slots ---- *)

(* alignSlots (run on every backend whenever dynUpdater.update returns false, i.e. whenever
   HAProxy is reloaded): for every previous slot list, every slots-min-free and every
   slots-increment (zero and negative values included) the backend ends with >= slots-min-free
   empty slots, a slot count that is a multiple of max 1 slots-increment, and keeps the slots it
   had; the added ones are empty and disabled *)
Theorem C11_align_slots_post : forall b, b_dyn b = true ->
  let eps' := align_slots b in
  (b_minfree b <= Z.of_nat (count_empty eps'))%Z /\
  (Z.of_nat (List.length eps') mod (Z.max 1 (b_block b)) = 0)%Z /\
  exists tl, eps' = (b_eps b ++ tl)%list /\ Forall (fun e => is_empty e = true /\ ep_enabled e = false) tl.
Proof. exact align_slots_post. Qed.
Print Assumptions C11_align_slots_post.

(* ---- a change confined to the endpoints that fits in the slots stays dynamic ---- *)

(* full statement (dynamic scaling on, no blue/green label, no preserved cookie, no resolver,
   acceptable socket answers, no more endpoints than slots): false of the code as repaired for
   C02, which reloads when two endpoints of the backend share a target *)
Theorem C11_in_capacity_no_reload_refuted : exists old cur resp,
  back_cfg_equal old cur = true /\
  (List.length (b_eps cur) <= List.length (b_eps old))%nat /\
  b_dyn cur = true /\ b_resolver cur = "" /\ b_preserve cur = false /\
  no_labels (b_eps old) /\ no_labels (b_eps cur) /\ cur_enabled (b_eps cur) /\
  good_answers resp /\
  r_updated (check_backend_pair old cur resp) = false.
Proof. exact in_capacity_no_reload_refuted. Qed.
Print Assumptions C11_in_capacity_no_reload_refuted.

(* true under H = no two enabled endpoints of the old or of the new backend share a target
   (dup_target = false): for every slot layout left by earlier updates, every endpoint add /
   remove / replace / readiness / weight change that fits is applied without a reload, without
   an index out of range, and the backend keeps its slot count, so that the guarantee of
   C11_align_slots_post (free slots, multiple of the increment) carries over to the next update *)
Theorem C11_in_capacity_no_reload_under_H : forall old cur resp,
  back_cfg_equal old cur = true ->
  (List.length (b_eps cur) <= List.length (b_eps old))%nat ->
  b_dyn cur = true -> b_resolver cur = "" -> b_preserve cur = false ->
  no_labels (b_eps old) -> no_labels (b_eps cur) -> cur_enabled (b_eps cur) ->
  dup_target (b_eps old) = false -> dup_target (b_eps cur) = false ->
  good_answers resp ->
  let r := check_backend_pair old cur resp in
  r_updated r = true /\ List.length (r_eps r) = List.length (b_eps old) /\ r_panic r = false.
Proof. exact in_capacity_no_reload. Qed.
Print Assumptions C11_in_capacity_no_reload_under_H.

(* ---- re-notifying unchanged resources never reloads ---- *)

(* a re-created backend with the configuration and the enabled endpoints of the loaded one
   (noop_eps: same fields but the slot name and the lazily filled source address), whatever
   slot layout the loaded one is in and whatever the socket would answer: no command, applied *)
Theorem C11_noop_no_reload : forall old cur resp,
  back_cfg_equal old cur = true -> b_dyn cur = true -> b_resolver cur = "" ->
  dup_target (b_eps old) = false -> dup_target (b_eps cur) = false -> cur_enabled (b_eps cur) ->
  noop_eps (b_eps old) (b_eps cur) ->
  let r := check_backend_pair old cur resp in
  r_updated r = true /\ r_cmds r = [] /\ List.length (r_eps r) = List.length (b_eps old).
Proof. exact noop_no_reload. Qed.
Print Assumptions C11_noop_no_reload.

(* at the level of HAProxyUpdate: Shrink keeps the old object, or checkBackendPair does nothing *)
Theorem C11_noop_backend_step : forall p old,
  bp_old p = Some old ->
  back_cfg_equal old (bp_cur p) = true -> b_dyn (bp_cur p) = true -> b_resolver (bp_cur p) = "" ->
  dup_target (b_eps old) = false -> dup_target (b_eps (bp_cur p)) = false -> cur_enabled (b_eps (bp_cur p)) ->
  noop_eps (b_eps old) (b_eps (bp_cur p)) ->
  let r := backend_step true p in br_updated r = true /\ br_cmds r = [].
Proof. exact noop_backend_step. Qed.
Print Assumptions C11_noop_backend_step.

(* dynamic scaling off, or DNS resolver: an identical endpoint list is no change *)
Theorem C11_noop_static_no_reload : forall old cur resp,
  back_cfg_equal old cur = true -> b_eps cur = b_eps old ->
  (b_dyn cur = false \/ b_resolver cur <> "") ->
  let r := check_backend_pair old cur resp in r_updated r = true /\ r_cmds r = [].
Proof. exact noop_static_no_reload. Qed.
Print Assumptions C11_noop_static_no_reload.

(* the layout an applied update leaves is in the no-op relation with the backend just applied *)
Theorem C11_noop_after_update : forall old cur resp,
  cur_enabled (b_eps cur) -> b_resolver cur = "" ->
  let r := check_backend_pair old cur resp in
  r_updated r = true ->
  noop_eps (r_eps r) (b_eps cur) /\ (dup_target (b_eps cur) = false -> dup_target (r_eps r) = false).
Proof. exact noop_after_update. Qed.
Print Assumptions C11_noop_after_update.

(* histories of spurious events: k re-creations of the same backend, each checked against the
   layout the previous one left, for every k and every socket behaviour: never a reload, never a
   command, the slot count stays *)
Theorem C11_noop_resync_history : forall k old cur resps,
  back_cfg_equal old cur = true -> b_dyn cur = true -> b_resolver cur = "" ->
  dup_target (b_eps old) = false -> dup_target (b_eps cur) = false -> cur_enabled (b_eps cur) ->
  noop_eps (b_eps old) (b_eps cur) ->
  let o := resync k old cur resps in
  let r := check_backend_pair o cur (resps k) in
  r_updated r = true /\ r_cmds r = [] /\ List.length (r_eps r) = List.length (b_eps old).
Proof. exact noop_resync_history. Qed.
Print Assumptions C11_noop_resync_history.
