(* C16 — Weighted balancing: server weights are valid and split traffic as configured.
   Statements only; every proof is one `exact`. *)
From Coq Require Import ZArith List.
From HI Require Import Model.Weights Proofs.Weights.
Import ListNotations.
Open Scope Z_scope.

(* every weight written for a group that has replicas is an integer in 0..256 *)
Theorem C16_range : forall cls iw, wf_input cls iw ->
  forall c w, In (c, w) (combine cls (rebalance cls iw)) -> 0 < clen c -> 0 <= w <= 256.
Proof. exact rebalance_range. Qed.
Print Assumptions C16_range.

(* zero exactly when the configured weight of the group is zero *)
Theorem C16_zero_iff : forall cls iw, wf_input cls iw ->
  forall c w, In (c, w) (combine cls (rebalance cls iw)) -> 0 < clen c -> (w = 0 <-> cw c = 0).
Proof. exact rebalance_zero_iff. Qed.
Print Assumptions C16_zero_iff.

(* order of (configured weight / replicas) is preserved by the server weights *)
Theorem C16_order : forall cls iw, wf_input cls iw ->
  forall c w d v, In (c, w) (combine cls (rebalance cls iw)) -> In (d, v) (combine cls (rebalance cls iw)) ->
    0 < clen c -> 0 < clen d -> cw c * clen d <= cw d * clen c -> w <= v.
Proof. exact rebalance_order. Qed.
Print Assumptions C16_order.

(* proportions: with one common positive factor n/dn, each server weight is the floor
   of n/dn * (configured weight * L / replicas) -- so weight * replicas of a group is
   within `replicas` of n/dn * L * configured weight whatever the replica counts --
   or 1 where that floor would have starved a group whose weight is not zero *)
Theorem C16_share : forall cls iw, wf_input cls iw ->
  exists n dn L, 0 < n /\ 0 < dn /\
    forall c w, In (c, w) (combine cls (rebalance cls iw)) -> 0 < clen c ->
      exists x, x * clen c = cw c * L /\
        (w = n * x / dn \/ (w = 1 /\ n * x / dn = 0 /\ 0 < cw c)).
Proof. exact rebalance_share. Qed.
Print Assumptions C16_share.

(* ---- blue/green (buildBackendBlueGreenBalance), both modes ---- *)

(* every weight written on a server is in 0..256, whatever the configured numbers
   (they are clamped), the replica counts and the labels *)
Theorem C16_bluegreen_deploy_range : forall ws iw eps, 1 <= iw <= 256 ->
  forall w, In w (bg_server_weights ws iw eps) -> 0 <= w <= 256.
Proof. exact bg_deploy_range. Qed.
Print Assumptions C16_bluegreen_deploy_range.

Theorem C16_bluegreen_pod_range : forall ws eps,
  forall w, In w (bg_pod_weights ws eps) -> 0 <= w <= 256.
Proof. exact bg_pod_range. Qed.
Print Assumptions C16_bluegreen_pod_range.

(* a draining server, or one that matches no group, gets weight zero in both modes *)
Theorem C16_bluegreen_unmatched_zero : forall ws iw eps k e,
  nth_error eps k = Some e -> fst e = true \/ bg_group (length ws) e = None ->
  nth_error (bg_server_weights ws iw eps) k = Some 0 /\ nth_error (bg_pod_weights ws eps) k = Some 0.
Proof. exact bg_unmatched_zero. Qed.
Print Assumptions C16_bluegreen_unmatched_zero.

(* a live server of group i: zero exactly when the (clamped) configured weight of the group
   is zero (mode deploy); exactly the clamped configured weight (mode pod) *)
Theorem C16_bluegreen_deploy_zero_iff : forall ws iw eps k e i, 1 <= iw <= 256 ->
  nth_error eps k = Some e -> fst e = false -> bg_group (length ws) e = Some i ->
  exists w, nth_error (bg_server_weights ws iw eps) k = Some w /\ (w = 0 <-> clamp256 (nth i ws 0) = 0).
Proof. exact bg_deploy_zero_iff. Qed.
Print Assumptions C16_bluegreen_deploy_zero_iff.

Theorem C16_bluegreen_pod_value : forall ws eps k e i,
  nth_error eps k = Some e -> fst e = false -> bg_group (length ws) e = Some i ->
  nth_error (bg_pod_weights ws eps) k = Some (clamp256 (nth i ws 0)).
Proof. exact bg_pod_value. Qed.
Print Assumptions C16_bluegreen_pod_value.
