(* C05 - Files on disk hold exactly the current model; no stale or missing content.
   Statements only; every proof is one `exact`.
   [disk_ok e c d] (Proofs/ConfigSM.v) says, of what `haproxy -f <cfgdir>` loads from the
   files d: every backend of the current state c is loaded from exactly one file (the main
   file without sharding, the file of its shard otherwise) with its current content and
   nothing else is (nothing removed remains, nothing twice); the main file renders the
   current globals, default backend and tcp services; the certificate list, every frontend
   map, backend map, tcp map and tcp crt-list the loaded files refer to render the current
   hosts / backends / tcp services.
   [wf_hist] = every batch follows the converters' protocol ([wf_batch]: a full sync = Clear
   then acquisitions, or a partial sync = the dirty sets removed once then acquisitions; names
   within the universes; when the update starts the backend of a host's root path exists; a
   backend that needs maps and is not acquired again has only paths of hosts that the batch left
   as they were - [tracked], what the tracker of the converters provides).
   [shard_range] = shards are below the shard count. *)
From Coq Require Import NArith List.
From HI Require Import Model.ConfigSM Model.ConfigSM_Faults Proofs.ConfigSM Proofs.ConfigSM_Faults.
Import ListNotations.
Open Scope N_scope.

(* for every shard count (0, 1, N), every shard assignment, every history of full and partial
   syncs following the protocol - histories that empty a shard, move the only changed backend
   between the add and delete sets or revert a change within one batch included -: every
   update succeeds and after it the files hold exactly the current model *)
Theorem C05_disk_invariant : forall e, shard_range e ->
  forall h l, wf_hist e inst_empty (nofault (h ++ [l])) ->
    snd (step e (run e inst_empty h) l) = false /\
    disk_ok e (i_cfg (run e inst_empty (h ++ [l]))) (i_disk (run e inst_empty (h ++ [l]))).
Proof. exact disk_invariant. Qed.
Print Assumptions C05_disk_invariant.

(* histories may contain failed updates between the successful ones ([run_f]: each update with
   an arbitrary set of armed write faults - unwritable map, crt-list, main or shard file,
   Model/ConfigSM.v [fpoint]; [wf_hist] only leaves out FReloadSilent, which is no write fault):
   after every update that succeeds - the first one after any number of failed ones included,
   whatever its batch: empty, an unchanged backend parsed again, or new changes - the files hold
   exactly the current model *)
Theorem C05_disk_invariant_after_faults : forall e, shard_range e ->
  forall h, wf_hist e inst_empty h ->
  forall l fs s', wf_batch e (i_cfg (run_f e inst_empty h)) l -> armed fs FReloadSilent = false ->
    step_f e fs (run_f e inst_empty h) l = (s', false) ->
    disk_ok e (i_cfg s') (i_disk s').
Proof. exact disk_invariant_after_faults. Qed.
Print Assumptions C05_disk_invariant_after_faults.

(* the hypotheses are satisfiable (two shards; a full sync - w_s1 is the state it leads to -,
   then a partial sync that removes the only backend of shard 1) *)
Theorem C05_hypotheses_satisfiable :
  shard_range w_env /\ wf_hist w_env inst_empty [(w_full2, [])] /\ wf_batch w_env (i_cfg w_s1) w_part.
Proof. exact (conj w_range wf_hist_example). Qed.
Print Assumptions C05_hypotheses_satisfiable.

(* the idpath maps of a backend follow the host side: host 0 (alias 100) routes / and /a to
   backend 0, which needs maps; a partial sync renames the alias to 101 and builds the backend
   again with the very same content (w_a1, w_a2: the states after the full and the partial
   sync).  Both batches follow the protocol - [tracked] is not vacuous - and the map holds the
   keys of the new alias afterwards *)
Theorem C05_backend_maps_follow_hosts :
  wf_hist w_env inst_empty [(w_afull, [])] /\ wf_batch w_env (i_cfg w_a1) w_apart /\
  d_backmap (i_disk w_a1) 0 = Some [(0, 0); (100, 0); (0, 1); (100, 1)] /\
  d_backmap (i_disk w_a2) 0 = Some [(0, 0); (101, 0); (0, 1); (101, 1)].
Proof. exact alias_rename_witness. Qed.
Print Assumptions C05_backend_maps_follow_hosts.
