(* C06 -- Same cluster state gives the same behaviour, whatever the processing order:
   the order in which the API lists the objects, the order of the events inside a batch,
   the order in which Go visits a map.  Conflicts between Ingresses are resolved by
   creation time then name.  Statements only; every proof is one `exact`.

   Vocabulary.  Model/Conv.v: sort_ings (sortIngress), sync_full, sync_partial, batch,
   obs_host (what the written files show of a host).  Model/Order.v: read_config_keys
   (readConfigKeys; passes = [(prefix, the order in which that pass visited the
   annotations)]), add_annotations / run_calls / mget / cget (annotations.Mapper; a call =
   one AddAnnotations, its c_ann list is the order in which the Go map was visited), feed
   (the calls of a full sync: sortIngress, then per path the service's annotations before
   the ingress'), apply_redirects (the hosts loop of fullSyncAnnotations running
   buildHostRedirect in the order given), host_redirects (that loop as the code runs it
   since /repo aaa0a06: declaration order of the sorted ingress list), alloc_auth (auth
   proxy ports), find_oauth / find_oauth_old (oauth lookup after / before /repo b0329d0),
   alias_owner (server-alias, /repo d513333), userlists_of.  Model/Maps.v: rebuild with
   the visiting order of the hostnames as a parameter (sorted since /repo 5f31221). *)
From Coq Require Import List Bool String ZArith Permutation Sorted.
From HI Require Import Model.HAMatch Model.Maps Proofs.HAMatch Proofs.Maps.
From HI Require Import Model.Route Proofs.Route.
From HI Require Import Model.Tracker Model.Conv Proofs.Tracker Proofs.Conv Proofs.ConvSort Proofs.ConvBack_multi.
From HI Require Import Model.Order Proofs.Order Proofs.Order_batch.
Import ListNotations.
Open Scope string_scope.
Open Scope list_scope.

(* ================================================================== *)
(* 1. the order in which the API lists the ingresses                    *)
(* ================================================================== *)
(* creation time then namespace/name is a strict total order on distinct names ... *)
Theorem C06_str_ltb_strict_total :
  (forall a, str_ltb a a = false) /\
  (forall a b c, str_ltb a b = true -> str_ltb b c = true -> str_ltb a c = true) /\
  (forall a b, str_ltb a b = false -> str_ltb b a = false -> a = b).
Proof. exact str_ltb_strict_total. Qed.
Print Assumptions C06_str_ltb_strict_total.

(* ... so sortIngress gives one list for every listing order *)
Theorem C06_sort_ings_perm : forall l1 l2 : list Conv.ingress,
  Permutation l1 l2 -> NoDup (map Conv.i_full l1) -> sort_ings l1 = sort_ings l2.
Proof. exact sort_ings_perm. Qed.
Print Assumptions C06_sort_ings_perm.

(* a full sync is a function of the set of ingresses *)
Theorem C06_sync_full_perm : forall w1 w2 : world,
  Permutation (w_ings w1) (w_ings w2) -> NoDup (map Conv.i_full (w_ings w1)) ->
  w_svcs w1 = w_svcs w2 -> w_eps w1 = w_eps w2 -> w_secrets w1 = w_secrets w2 ->
  sync_full w1 = sync_full w2.
Proof. exact sync_full_perm. Qed.
Print Assumptions C06_sync_full_perm.

Theorem C06_sync_full_perm_obs : forall w1 w2 : world,
  Permutation (w_ings w1) (w_ings w2) -> NoDup (map Conv.i_full (w_ings w1)) ->
  w_svcs w1 = w_svcs w2 -> w_eps w1 = w_eps w2 -> w_secrets w1 = w_secrets w2 ->
  forall hn, obs_host (fst (sync_full w1)) hn = obs_host (fst (sync_full w2)) hn.
Proof. exact sync_full_perm_obs. Qed.
Print Assumptions C06_sync_full_perm_obs.

(* the same in the routing model of C03: the ingresses are processed in creation order *)
Theorem C06_ingress_order : forall c,
  Sorted Route.ing_le (sorted_ingresses c) /\ Permutation (sorted_ingresses c) (filter Route.i_valid (c_ingresses c)).
Proof. exact (fun c => conj (sorted_ingresses_sorted c) (sorted_ingresses_perm c)). Qed.
Print Assumptions C06_ingress_order.

(* Gateway API: sortHTTPRoutes / sortTCPRoutes use the same key (creation stamp, then the text
   namespace/name); the sorted list, and with it the first come, first served conversion of
   the routes' claims (listener + hostname + path + match, or a TCP listener port), is the
   same for every order in which the cache lists the routes; the sorted list is strictly
   sorted (a total order on distinct names: no two routes are left to the input order) and
   a claim goes to the first route of that order that makes it *)
Theorem C06_gateway_sort_perm : forall l1 l2 : list groute,
  Permutation l1 l2 -> NoDup (map gr_full l1) ->
  sort_routes l1 = sort_routes l2 /\ route_conversion l1 = route_conversion l2 /\
  StronglySorted (fun a b => groute_ltb a b = true) (sort_routes l1).
Proof. exact gateway_sort_perm. Qed.
Print Assumptions C06_gateway_sort_perm.

Theorem C06_gateway_first_claim : forall (l : list groute) (k : string),
  assoc k (route_conversion l) = assoc k (flat_map gr_claims (sort_routes l)).
Proof. exact route_first_claim. Qed.
Print Assumptions C06_gateway_first_claim.

(* EndpointSlices (--enable-endpointslices-api): slice_server drain pname l t = the server the
   backend gets for target t (none / serving / weight 0) from the slices l of the service, in
   the order the lister returned them: every ready entry is a server, with drain-support every
   not ready entry is a server of weight 0.  It is a function of the SET of slices ... *)
Theorem C06_endpointslices_perm : forall (drain : bool) (pname : string) (l l' : list slice) (t : string * Z),
  Permutation l l' -> slice_server drain pname l t = slice_server drain pname l' t.
Proof. exact endpointslices_perm. Qed.
Print Assumptions C06_endpointslices_perm.

(* ... which a de-duplication keeping the first entry of an address, whatever its readiness,
   would not be *)
Theorem C06_endpointslices_dedup_first_refuted :
  exists (drain : bool) (pname : string) (l l' : list slice) (t : string * Z), Permutation l l' /\
    slice_server_dedup_first drain pname l t <> slice_server_dedup_first drain pname l' t.
Proof. exact endpointslices_dedup_first_refuted. Qed.
Print Assumptions C06_endpointslices_dedup_first_refuted.

(* ================================================================== *)
(* 2. readConfigKeys: `range ann` inside `range AnnotationPrefix`       *)
(* ================================================================== *)
(* a configuration key comes from the first prefix (option order) that has it ... *)
Theorem C06_read_config_keys_first_prefix : forall passes k,
  assoc k (read_config_keys passes) = offers passes k.
Proof. exact read_config_keys_first_prefix. Qed.
Print Assumptions C06_read_config_keys_first_prefix.

(* ... whatever the order in which each pass visits the annotations map: two prefixes naming
   the same key with two values are NOT settled by map iteration *)
Theorem C06_read_config_keys_order_indep : forall passes passes',
  Forall2 pass_perm passes passes' -> Forall pass_wf passes ->
  forall k, assoc k (read_config_keys passes) = assoc k (read_config_keys passes').
Proof. exact read_config_keys_order_indep. Qed.
Print Assumptions C06_read_config_keys_order_indep.

(* annotation names are opaque strings compared exactly (the modelled fact; Kubernetes
   annotation names are case sensitive): two names that yield the same key in one pass are the
   same name, and a name that is not exactly prefix/key never contributes to key -- no letter
   case folding, no "_" for "-", no trimming.  A reader that identified two distinct names of
   one object would let the visiting order of the map pick between their values; the
   correspondence (CKeys) fails on such a reader. *)
Theorem C06_read_config_keys_names_exact : forall prefix n1 n2 k,
  trim_prefix prefix n1 = Some k -> trim_prefix prefix n2 = Some k -> n1 = n2.
Proof. exact read_config_keys_names_exact. Qed.
Print Assumptions C06_read_config_keys_names_exact.

Theorem C06_read_config_keys_other_names : forall (passes : list (string * annots)) (k : string),
  (forall p e, In p passes -> In e (snd p) -> fst e <> (fst p ++ "/" ++ k)%string) ->
  assoc k (read_config_keys passes) = None.
Proof. exact read_config_keys_other_names. Qed.
Print Assumptions C06_read_config_keys_other_names.

(* (they would be with the two loops the other way round: the model can tell) *)
Theorem C06_read_config_keys_swapped_order_dependent :
  exists prefixes visit visit' k,
    Permutation visit visit' /\ NoDup (map fst visit) /\
    assoc k (read_config_keys_swapped prefixes visit) <> assoc k (read_config_keys_swapped prefixes visit').
Proof. exact read_config_keys_swapped_order_dependent. Qed.
Print Assumptions C06_read_config_keys_swapped_order_dependent.

(* ================================================================== *)
(* 3. annotations.Mapper: first writer of a key wins                    *)
(* ================================================================== *)
(* the value of a key for a path is the one of the first call, in call order, that carries
   the key for that path with a value its validator accepts *)
Theorem C06_mapper_first_writer_wins : forall vld cs p k, Forall call_wf cs ->
  path_get (run_calls vld [] cs) p k = first_offer vld cs p k.
Proof. exact first_writer_wins. Qed.
Print Assumptions C06_mapper_first_writer_wins.

(* one AddAnnotations call may visit its map in any order: same mapper for every reader,
   same conflicts (as a set) *)
Theorem C06_add_annotations_iter_indep : forall vld m m' src p ann ann',
  NoDup (map fst ann) -> Permutation ann ann' -> meq m m' ->
  meq (fst (add_annotations vld m src p ann)) (fst (add_annotations vld m' src p ann')) /\
  Permutation (snd (add_annotations vld m src p ann)) (snd (add_annotations vld m' src p ann')).
Proof. exact add_annotations_iter_indep. Qed.
Print Assumptions C06_add_annotations_iter_indep.

(* with the sources added in the canonical order -- ingresses by creation time then name,
   per path the service's annotations before the ingress' -- what Mapper.Get and
   KeyConfig.Get answer is a function of the set of ingresses: the API may list them in any
   order (l' for l) and every call may visit its map in any order (cs' for feed l') *)
Theorem C06_mapper_order_indep : forall vld defaults l l' cs',
  Permutation l l' -> NoDup (map a_name l) -> Forall call_wf (feed l) ->
  Forall2 call_perm (feed l') cs' ->
  (forall k, mget defaults (run_calls vld [] cs') k = mget defaults (run_calls vld [] (feed l)) k) /\
  (forall p k, cget defaults (run_calls vld [] cs') p k = cget defaults (run_calls vld [] (feed l)) p k).
Proof. exact mapper_order_indep. Qed.
Print Assumptions C06_mapper_order_indep.

(* ================================================================== *)
(* 4. fullSyncAnnotations: state shared between hosts / backends        *)
(* ================================================================== *)
(* redirect-from is first come, first served: the requests for r go to the first host, in
   the order of the hosts loop, that has paths and claims r *)
Theorem C06_redirect_first_claim : forall order regex r, r <> "" ->
  find_target (apply_redirects order) r regex = option_map hc_name (find (claims regex r) order).
Proof. exact redirect_first_claim. Qed.
Print Assumptions C06_redirect_first_claim.

(* so the behaviour depends on the order of that loop (a Go map until /repo aaa0a06), and
   on the order of the backends loop when the auth proxy has fewer ports than there are
   authentication services *)
Theorem C06_annotations_order_refuted :
  (exists hosts hosts', Permutation hosts hosts' /\ NoDup (map hc_name hosts) /\
     redirect_of (apply_redirects hosts) "redir.example" <> redirect_of (apply_redirects hosts') "redir.example") /\
  (exists cap reqs reqs' t, Permutation reqs reqs' /\ auth_granted cap reqs t <> auth_granted cap reqs' t).
Proof. exact annotations_order_refuted. Qed.
Print Assumptions C06_annotations_order_refuted.

(* the exact side condition: no name claimed by two hosts with paths, enough ports *)
Theorem C06_annotations_order_indep_under_H : forall hosts hosts' cap reqs reqs',
  Permutation hosts hosts' -> unique_claims hosts ->
  Permutation reqs reqs' -> (List.length (nodup string_dec reqs) <= cap)%nat ->
  (forall regex r, find_target (apply_redirects hosts) r regex = find_target (apply_redirects hosts') r regex) /\
  (forall t, auth_granted cap reqs t = auth_granted cap reqs' t).
Proof. exact annotations_order_indep_under_H. Qed.
Print Assumptions C06_annotations_order_indep_under_H.

(* the code as it is now visits hosts (and backends) in the order they were declared by the
   sorted ingress list: no side condition, the listing order of the API does not matter,
   and the winner of a name is the first declaring host of the oldest ingress *)
Theorem C06_host_redirects_perm : forall vld defaults prefixes ings ings',
  Permutation ings ings' -> NoDup (map (fun i => Conv.i_full (hi_ing i)) ings) ->
  host_redirects vld defaults prefixes ings = host_redirects vld defaults prefixes ings'.
Proof. exact host_redirects_perm. Qed.
Print Assumptions C06_host_redirects_perm.

Theorem C06_host_redirects_first_claim : forall vld defaults prefixes ings regex r, r <> "" ->
  let sorted := sort_hings ings in
  find_target (host_redirects vld defaults prefixes ings) r regex
  = option_map hc_name (find (claims regex r) (map (claim_of vld defaults prefixes sorted) (decl_order sorted))).
Proof. exact host_redirects_first_claim. Qed.
Print Assumptions C06_host_redirects_first_claim.

(* what a host claims does not depend on any map visit either: every pass of readConfigKeys
   may visit the annotations of every ingress in its own order (visits), and every
   AddAnnotations call of addHost may visit its map in its own order (cs') *)
Theorem C06_host_claim_iter_indep :
  forall vld defaults prefixes (visits : hing -> list (string * annots)) sorted h cs',
  (forall i, Forall2 pass_perm (map (fun p => (p, hi_raw i)) prefixes) (visits i)) ->
  (forall i, NoDup (map fst (hi_raw i))) ->
  Forall2 call_perm (host_calls (fun i => read_config_keys (visits i)) sorted h) cs' ->
  claim_from defaults sorted h (run_calls vld [] cs') = claim_of vld defaults prefixes sorted h.
Proof. exact host_claim_iter_indep_keys. Qed.
Print Assumptions C06_host_claim_iter_indep.

(* oauth: the hosts map may be visited in any order (own host, then hostname order) ... *)
Theorem C06_oauth_lookup_order_indep : forall visit visit' own ns prefix,
  Permutation visit visit' -> NoDup (map fst visit) ->
  find_oauth visit own ns prefix = find_oauth visit' own ns prefix.
Proof. exact find_oauth_order_indep. Qed.
Print Assumptions C06_oauth_lookup_order_indep.

(* ... which was false of the lookup before /repo b0329d0 (first match in map order) *)
Theorem C06_oauth_lookup_old_refuted :
  exists visit visit' ns prefix, Permutation visit visit' /\ NoDup (map fst visit) /\
    find_oauth_old visit ns prefix <> find_oauth_old visit' ns prefix.
Proof. exact find_oauth_old_refuted. Qed.
Print Assumptions C06_oauth_lookup_old_refuted.

(* server-alias: one owner per alias, whatever the order of the hosts map *)
Theorem C06_alias_owner_order_indep : forall visit visit' alias,
  Permutation visit visit' -> NoDup (map fst visit) ->
  alias_owner visit alias = alias_owner visit' alias.
Proof. exact alias_owner_order_indep. Qed.
Print Assumptions C06_alias_owner_order_indep.

(* basic authentication: a userlist holds the users of the secret it is named after,
   whichever backend needed it first *)
Theorem C06_userlists_order_indep : forall secrets reqs reqs' name,
  Permutation reqs reqs' ->
  assoc name (userlists_of secrets reqs) = assoc name (userlists_of secrets reqs').
Proof. exact userlists_order_indep. Qed.
Print Assumptions C06_userlists_order_indep.

(* tcp-services ConfigMap: the keys "9000", "09000", "+9000" are one port; the first valid
   declaration in key order configures it, whatever the order of the map ... *)
Theorem C06_tcp_owner_order_indep :
  forall (valid : string -> bool) (visit visit' : list (string * string)) (port : Z),
  Permutation visit visit' -> NoDup (map fst visit) ->
  tcp_owner valid visit port = tcp_owner valid visit' port.
Proof. exact tcp_owner_order_indep. Qed.
Print Assumptions C06_tcp_owner_order_indep.

(* ... while before /repo c870730 the last declaration visited named the shared backend *)
Theorem C06_tcp_name_old_refuted :
  exists (valid : string -> bool) (visit visit' : list (string * string)) (port : Z),
    Permutation visit visit' /\ NoDup (map fst visit) /\
    tcp_name_old valid visit port <> tcp_name_old valid visit' port.
Proof. exact tcp_name_old_refuted. Qed.
Print Assumptions C06_tcp_name_old_refuted.

(* ================================================================== *)
(* 5. the host maps: the visiting order of the hostnames                *)
(* ================================================================== *)
(* for every visiting order the lookup through the generated files answers by the
   precedence rules (C04) ... *)
Theorem C06_map_layout_any_host_order : forall tree mo hostorder feds,
  forallb wf_fed feds = true -> permitted mo -> host_order_ok hostorder (map add feds) ->
  forall host path, wf_request host path ->
  match lookup tree (rebuild mo hostorder (map add feds)) (sample host path) with
  | Some v => exists r, HAMatch.best (map rule_of feds) host path r /\ rtarget r = v
  | None => forall r, In r (map rule_of feds) -> ~ applies r host path
  end.
Proof. exact rebuild_precedence. Qed.
Print Assumptions C06_map_layout_any_host_order.

(* ... and since /repo 5f31221 the order is the sorted one, so the files themselves (and
   with them the choice the rules leave open: one path declared with two match types) are
   a function of the entries *)
Theorem C06_map_layout_current : forall tree mo feds,
  forallb wf_fed feds = true -> permitted mo ->
  forall host path, wf_request host path ->
  match lookup tree (rebuild_current mo (map add feds)) (sample host path) with
  | Some v => exists r, HAMatch.best (map rule_of feds) host path r /\ rtarget r = v
  | None => forall r, In r (map rule_of feds) -> ~ applies r host path
  end.
Proof. exact rebuild_current_precedence. Qed.
Print Assumptions C06_map_layout_current.

(* ================================================================== *)
(* 6. the order of the events inside a batch                            *)
(* ================================================================== *)
(* batch_perm b b': the links, added, updated and deleted lists of b' are permutations of
   those of b.  add_consistent b: two added objects of one name are the same object unless
   the name was also updated or deleted in the batch (then the cache is read).
   st_equiv: same haproxy model as a function, same tracker as a set of links. *)
Theorem C06_sync_partial_batch_perm : forall w' x x' b b',
  st_equiv x x' -> batch_perm b b' -> add_consistent b ->
  match sync_partial w' x b, sync_partial w' x' b' with
  | Some y, Some y' => st_equiv y y'
  | _, _ => False
  end.
Proof. exact sync_partial_batch_perm. Qed.
Print Assumptions C06_sync_partial_batch_perm.

Theorem C06_sync_partial_batch_perm_obs : forall w' x b b',
  batch_perm b b' -> add_consistent b ->
  match sync_partial w' x b, sync_partial w' x b' with
  | Some y, Some y' => forall hn, obs_host (fst y) hn = obs_host (fst y') hn
  | _, _ => False
  end.
Proof. exact sync_partial_batch_perm_obs. Qed.
Print Assumptions C06_sync_partial_batch_perm_obs.

(* any history of batches, each delivered in another event order *)
Theorem C06_run_batches_perm : forall h h' x x',
  Forall2 (fun p p' => snd p = snd p' /\ batch_perm (fst p) (fst p') /\ add_consistent (fst p)) h h' ->
  st_equiv x x' ->
  match run_batches x h, run_batches x' h' with
  | Some y, Some y' => st_equiv y y'
  | _, _ => False
  end.
Proof. exact run_batches_perm. Qed.
Print Assumptions C06_run_batches_perm.
