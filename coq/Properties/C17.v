(* C17 — ACME: certificates requested exactly when needed, queue tracks Ingress changes.
   Statements only; every proof is one `exact`. *)
From Coq Require Import ZArith NArith List String Ascii.
From HI Require Import Model.Acme Proofs.Acme.
Import ListNotations.
Open Scope string_scope.

(* For every clock reading, window, certificate state, answer of the acme client and queue item
   "secret,chain,domains": the client is asked to sign (once, with the item's domains and chain)
   if and only if the secret is missing/unreadable, or its certificate ends before
   now + expiring, or some declared domain is not matched by the certificate's DNS names. *)
Theorem C17_sign_iff :
  forall now expiring sec ans item secret chain domains,
  split "," item = secret :: chain :: domains ->
  let out := notify true now expiring sec ans item in
  (o_signs out = [(domains, chain)] \/ o_signs out = []) /\
  (o_signs out = [(domains, chain)] <->
     sec = None \/
     exists not_after dns, sec = Some (not_after, dns) /\
       ((not_after < now + expiring)%Z \/ exists d, In d domains /\ verify_hostname dns d = false)).
Proof. exact sign_iff. Qed.
Print Assumptions C17_sign_iff.

(* A certificate still valid at now + expiring (that instant included) that covers every
   domain is never re-requested: no signature, no write, no error. *)
Theorem C17_valid_certificate_untouched :
  forall now expiring ans item secret chain domains not_after dns,
  split "," item = secret :: chain :: domains ->
  (now + expiring <= not_after)%Z ->
  (forall d, In d domains -> verify_hostname dns d = true) ->
  let out := notify true now expiring (Some (not_after, dns)) ans item in
  o_signs out = [] /\ o_sets out = [] /\ o_err out = 0%N.
Proof. exact valid_certificate_untouched. Qed.
Print Assumptions C17_valid_certificate_untouched.

(* The secret is written (once, under its own name) exactly when a signature was requested and
   both the certificate and the key came back. *)
Theorem C17_store_only_complete :
  forall now expiring sec ans item secret chain domains,
  split "," item = secret :: chain :: domains ->
  let out := notify true now expiring sec ans item in
  (o_sets out = [secret] \/ o_sets out = []) /\
  (o_sets out = [secret] <->
   o_signs out = [(domains, chain)] /\ a_crt ans = true /\ a_key ans = true).
Proof. exact store_only_complete. Qed.
Print Assumptions C17_store_only_complete.

(* "covers": a DNS name of the certificate matches a domain label by label; a `*` stands for
   exactly one label and only as the left-most one (match_hostnames compares the dot-separated
   labels of the lower-cased pattern and domain with parts_match, starting at index 0). *)
Theorem C17_wildcard_first_label_only :
  forall p pt h ht,
  parts_match 0 (p :: pt) (h :: ht) = true <-> (p = "*" \/ p = h) /\ pt = ht.
Proof. exact parts_match_zero. Qed.
Print Assumptions C17_wildcard_first_label_only.

(* A signer without acme account asks nothing and writes nothing. *)
Theorem C17_no_account_no_call :
  forall now expiring sec ans item,
  let out := notify false now expiring sec ans item in
  o_signs out = [] /\ o_sets out = [] /\ o_err out = 1%N.
Proof. exact no_account_no_call. Qed.
Print Assumptions C17_no_account_no_call.

(* The wanted storages follow the declarations: after a sync, storage n holds what the Acquire
   calls of the re-read ingresses declare for it, on top of nothing if n was dirty (or the sync
   was full) and on top of its previous content otherwise. *)
Theorem C17_wanted_storages :
  forall s st n,
  lookup n (items (do_sync s st)) =
  match s with
  | Partial dirty acqs =>
      declared n acqs (if existsb (String.eqb n) dirty then None else lookup n (items st))
  | Full acqs => declared n acqs None
  end.
Proof. exact wanted_after_sync. Qed.
Print Assumptions C17_wanted_storages.

(* The queue follows the cluster, for every history of reconciliations (partial syncs with any
   dirty list and any Acquire calls, full syncs, leading or not, with or without account) from
   the start of the controller.  For each reconciliation, with `before`/`after` the wanted
   storages (name -> domains, chain) before and after its sync:
   - leading, with an account: the storages passed to queue.Add are exactly those of `after`
     that are new or differ from `before` (all of `after` when the sync was full), each once;
     those passed to queue.Remove are exactly those of `before` that are absent from or differ
     in `after`, each once; so an unchanged storage is neither added nor removed by a partial sync;
   - otherwise (not leading, AcmeUpdate skipped, or no account): no call at all. *)
Theorem C17_queue_follows_cluster :
  forall h : list step,
  Forall (fun tr =>
    let s := t_step tr in
    if (s_called s && s_leader s && s_account s)%bool then
      NoDup (map fst (t_adds tr)) /\ NoDup (map fst (t_dels tr)) /\
      (forall n c, In (n, c) (t_adds tr) <->
         lookup n (t_after tr) = Some c /\
         (is_full (s_sync s) = true \/ lookup n (t_before tr) <> Some c)) /\
      (forall n c, In (n, c) (t_dels tr) <->
         lookup n (t_before tr) = Some c /\ lookup n (t_after tr) <> Some c)
    else t_adds tr = [] /\ t_dels tr = [])
  (reconcile_all empty_storages h).
Proof. exact queue_follows_cluster. Qed.
Print Assumptions C17_queue_follows_cluster.

(* The operation list run by the correspondence (`run`, compared with the real Instance) and
   the reconciliation used above perform the same calls and report the same queue strings. *)
Theorem C17_run_is_reconcile :
  forall st s,
  let '(st', tr) := reconcile st s in
  run (ops_of_step s) st =
  (st', if s_called s
        then [(map render (t_adds tr), map render (t_dels tr), map render (t_after tr))]
        else []).
Proof. exact run_reconcile. Qed.
Print Assumptions C17_run_is_reconcile.

(* ---------------------------------------------------------------------------------------------
   The acme account life cycle (signer.AcmeAccount; `load_ok` = acme.NewClient would succeed now:
   key readable, ACME directory reachable). *)

(* No sticky failure: after ANY history of calls -- loads that failed, the configuration removed,
   other accounts configured in between -- a call with a configured account at a moment the load
   can succeed ends with the account loaded (HasAccount() = true). *)
Theorem C17_account_retry :
  forall (h : list (bool * account)) cfg,
  configured cfg = true ->
  sg_client (acme_account true cfg (run_accounts h new_signer)) = true.
Proof. exact account_retry. Qed.
Print Assumptions C17_account_retry.

(* The queue follows the cluster with the real signer in the loop: for every history of
   reconciliations (any syncs, leading or not, any acme configuration, loads failing or not), each
   reconciliation satisfies the statement of C17_queue_follows_cluster with "has an account"
   answered by the signer (`has`), and on the leader the account is there as soon as acme is
   configured and the load can succeed -- so from the first such reconciliation on, exactly the
   storages that appeared or changed are added and those that disappeared or changed removed. *)
Theorem C17_queue_follows_cluster_account :
  forall h : list astep,
  Forall (fun e : astep * step_trace * bool =>
    let '(s, tr, has) := e in
    (let st := t_step tr in
     if (s_called st && s_leader st && s_account st)%bool then
       NoDup (map fst (t_adds tr)) /\ NoDup (map fst (t_dels tr)) /\
       (forall n c, In (n, c) (t_adds tr) <->
          lookup n (t_after tr) = Some c /\
          (is_full (s_sync st) = true \/ lookup n (t_before tr) <> Some c)) /\
       (forall n c, In (n, c) (t_dels tr) <->
          lookup n (t_before tr) = Some c /\ lookup n (t_after tr) <> Some c)
     else t_adds tr = [] /\ t_dels tr = []) /\
    s_called (t_step tr) = true /\ s_leader (t_step tr) = as_leader s /\ s_account (t_step tr) = has /\
    (as_leader s = true -> as_load_ok s = true -> configured (as_config s) = true -> has = true))
  (areconcile_all (empty_storages, new_signer) h).
Proof. exact queue_follows_cluster_account. Qed.
Print Assumptions C17_queue_follows_cluster_account.
