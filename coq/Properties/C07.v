(* C07 — Every generated configuration is loadable: references resolve, names are unique.
   Statements only; every proof is one `exact`. Definitions: Model/CfgRefs.v. *)
From Coq Require Import String List ZArith Permutation.
From HI Require Import Model.CfgRefs Proofs.CfgRefs.
Import ListNotations.

(* (A) the verified checker. `cfg` is the reference structure scanned from a WRITTEN
   configuration; the harness evaluates `wellformed` inside Coq on every configuration the
   real controller wrote, so for each of them the conjunction below is settled by the kernel:
   every backend named by use_backend / default_backend / lua.auth-intercept / a value of a
   map feeding a dynamic use_backend (incl. the TCP service frontends) is exactly one
   section; userlists are defined, map / list / crt-list / certificate files are on disk;
   server names and non-zero ids are unique per section (and use-server names a server);
   every path id used in an ACL is a value of that backend's id maps; auth-proxy ports and
   socket ids are bound once and every helper backend points to a bound port. *)
Theorem C07_wellformed_sound : forall c : cfg, wellformed c = true ->
  backends_resolve c /\ files_present c /\ servers_unique c /\ path_ids_defined c /\ auth_ports_unique c.
Proof. exact wellformed_sound. Qed.
Print Assumptions C07_wellformed_sound.

(* the checker is exact: it rejects only configurations that violate the property *)
Theorem C07_wellformed_complete : forall c : cfg,
  backends_resolve c /\ files_present c /\ servers_unique c /\ path_ids_defined c /\ auth_ports_unique c ->
  wellformed c = true.
Proof. exact wellformed_complete. Qed.
Print Assumptions C07_wellformed_complete.

(* (B1) backend.go AddEndpoint / AddEmptyEndpoint / sanitizeName (as repaired): for the three
   naming modes and all sequences of calls, the server names of a backend are distinct *)
Theorem C07_sanitize_names_nodup : forall (m : naming) (ops : list ep_op), NoDup (run_names m ops).
Proof. exact sanitize_names_nodup. Qed.
Print Assumptions C07_sanitize_names_nodup.

(* (B2) backend.go AddBackendPath: whatever order sortPaths leaves the paths in, the ids
   of the paths of a backend are distinct *)
Theorem C07_path_ids_nodup :
  forall (L : Type) (leqb : L -> L -> bool) (sortp : list (L * string) -> list (L * string)),
  (forall l, Permutation (sortp l) l) ->
  forall ops : list L, NoDup (map snd (run_paths leqb sortp ops)).
Proof. exact path_ids_nodup. Qed.
Print Assumptions C07_path_ids_nodup.

(* (B3) frontend.go AcquireAuthBackendName / RemoveAuthBackendExcept / RemoveAuthBackendByTarget:
   for all sequences of calls, with any port range on each call, no port is held twice *)
Theorem C07_acquire_auth_port_nodup : forall ops : list auth_op, NoDup (map b_port (run_auth ops)).
Proof. exact acquire_auth_port_nodup. Qed.
Print Assumptions C07_acquire_auth_port_nodup.

(* a port handed out to a backend that held none lies in the range of the call and was
   held by nobody *)
Theorem C07_acquire_new_port_free : forall (ops : list auth_op) (rs re : Z) (backend : string) (p : Z),
  let l := run_auth ops in
  find_bind backend l = None ->
  snd (acquire rs re backend l) = Some p ->
  (rs <= p <= re)%Z /\ ~ In p (map b_port l).
Proof. exact acquire_new_port_free. Qed.
Print Assumptions C07_acquire_new_port_free.

(* the call fails exactly when every port of the range is held; a failed call changes nothing *)
Theorem C07_acquire_error_iff_full : forall (ops : list auth_op) (rs re : Z) (backend : string),
  let l := run_auth ops in
  find_bind backend l = None ->
  (snd (acquire rs re backend l) = None <-> forall q, (rs <= q <= re)%Z -> In q (map b_port l)).
Proof. exact acquire_error_iff_full. Qed.
Print Assumptions C07_acquire_error_iff_full.

Theorem C07_acquire_error_keeps : forall (rs re : Z) (backend : string) (l : list bind),
  snd (acquire rs re backend l) = None -> fst (acquire rs re backend l) = l.
Proof. exact acquire_error_keeps. Qed.
Print Assumptions C07_acquire_error_keeps.

(* ---- the converter side, on the mini-converter model (coq/Model/Conv.v) ---- *)
From HI Require Import Model.Tracker Model.Conv Proofs.ConvHist Proofs.CfgRefs_conv.

(* After a full sync of any cluster, and after any history of well-formed batches of
   partial syncs, every path of every host names a backend that exists in the model: the
   values the host maps are written from always name a backend section. *)
Theorem C07_model_full_refs_resolve : forall w hn hr p,
  get_host (fst (sync_full w)) hn = Some hr -> In p (h_paths hr) ->
  get_back (fst (sync_full w)) (hp_back p) <> None.
Proof. exact model_full_refs_resolve. Qed.
Print Assumptions C07_model_full_refs_resolve.

Theorem C07_model_refs_resolve : forall w0 h,
  hist_ok_o w0 h ->
  exists x', run_hist (sync_full w0) h = Some x' /\
    forall hn hr p, get_host (fst x') hn = Some hr -> In p (h_paths hr) ->
      get_back (fst x') (hp_back p) <> None.
Proof. exact model_refs_resolve. Qed.
Print Assumptions C07_model_refs_resolve.

(* ---- the generative side: what the template emits (coq/Model/TmplRefs.v) ---- *)
From HI Require Import Model.TmplRefs Proofs.TmplRefs.

(* `emitted_sections st` / `references st` transcribe the conditional structure of
   haproxy.tmpl and of the frontend / tcp map writers for a model state `st` (hosts,
   backends, userlists, resolvers, tcp services, auth proxy, global flags). For every state
   that satisfies the decidable invariants `st_inv` — the HasSSLPassthrough counter agrees
   with the hosts, the paths of the hosts / the auth proxy binds / the tcp services / the
   default backend name backends of the model, the userlists, resolvers and auth helper
   backends named by backends exist, identifiers are distinct — every reference the
   template writes names a section it writes, and no section is written twice. *)
Theorem C07_template_refs_closed : forall st : tstate, st_inv st = true ->
  (forall r, In r (references st) -> In (snd r) (emitted_sections st)) /\ NoDup (emitted_sections st).
Proof. exact template_refs_closed. Qed.
Print Assumptions C07_template_refs_closed.

(* composed with C07_wellformed_complete: the reference structure of the generated
   configuration (sections and references to sections) passes the verified checker *)
Theorem C07_template_generates_wellformed : forall st : tstate, st_inv st = true ->
  wellformed (gen_cfg st) = true.
Proof. exact template_generates_wellformed. Qed.
Print Assumptions C07_template_generates_wellformed.

(* the first invariant is maintained by the bookkeeping of Hosts: for every sequence of
   reconciliations — full (Clear) or partial (RemoveAll of any hosts), then any AcquireHost /
   SetSSLPassthrough / other edits, then Shrink and Commit — the counter is the number of
   ssl-passthrough hosts of the model, hence HasSSLPassthrough() is exact *)
Theorem C07_hosts_counter : forall cs : list hcycle,
  let s := run_cycles cs in
  NoDup (map fst (hs_items s)) /\ hs_count s = pass_count (hs_items s) /\ hs_add s = [] /\ hs_del s = [].
Proof. exact hosts_counter. Qed.
Print Assumptions C07_hosts_counter.

Theorem C07_has_passthrough_exact : forall cs : list hcycle,
  let s := run_cycles cs in
  (0 <? hs_count s)%Z = existsb th_pass (map snd (hs_items s)).
Proof. exact has_passthrough_exact. Qed.
Print Assumptions C07_has_passthrough_exact.

(* the invariant "the paths of the hosts name backends of the model" cannot be dropped: the
   state of the strict-host finding (the borrowed root backend went away; repaired in /repo
   by 423708d, kept here as a model-level regression) satisfies all the others and has a
   dangling map value. C07_template_refs_closed is the _under_H
   variant, with the hypothesis spelled out in st_inv (inv_hostrefs). *)
Theorem C07_template_refs_closed_without_host_backends_refuted :
  exists st : tstate, inv_rest st = true /\
    ~ (forall r, In r (references st) -> In (snd r) (emitted_sections st)).
Proof. exact template_refs_closed_without_host_backends_refuted. Qed.
Print Assumptions C07_template_refs_closed_without_host_backends_refuted.

(* the crt-list named by a bind (tcp service frontends with TLS, the https frontend) is a
   file the instance writes for the same state: same emission condition on both sides. The
   harness checks on every observed state that these files are on disk. *)
Theorem C07_template_crtlists_written : forall (st : tstate) (r : string * string),
  In r (file_refs st) -> In (snd r) (written_files st).
Proof. exact template_crtlists_written. Qed.
Print Assumptions C07_template_crtlists_written.
