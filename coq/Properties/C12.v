(* C12 - A change is never lost to a transient failure: the next reconcile applies it.
   Statements only; every proof is one `exact`.  Definitions: see Properties/C05.v;
   [run_f] runs a history whose updates have fault points armed ([fpoint]: tcp maps, the four
   frontend map files, backend maps, tcp crt-lists, main file, each shard file, reload
   request, reload result, connection carrying `reload` reset by the master; and FReloadSilent,
   below); [step_f e fs s l] is one reconciliation (batch l, faults fs).
   [wf_hist] and the hypotheses [armed fs FReloadSilent = false] leave out exactly one fault: a
   master that reads `reload`, drops it (no answer or garbage) WITHOUT reloading and whose
   `show proc` shows the old healthy worker - nothing signals it to the controller; see
   C12_silent_reload_drop_refuted. *)
From Coq Require Import NArith List.
From HI Require Import Model.ConfigSM Model.ConfigSM_Faults Proofs.ConfigSM Proofs.ConfigSM_Faults.
From HI Require Import Model.RetryLoop Proofs.RetryLoop.
Import ListNotations.
Open Scope N_scope.

(* a failed update is reported (err) and remembered (lastFailed) *)
Theorem C12_failure_is_remembered : forall e fs s l s', step_f e fs s l = (s', true) -> i_failed s' = true.
Proof. exact failure_is_remembered. Qed.
Print Assumptions C12_failure_is_remembered.

(* for every history and every set of faults armed in each of its updates (so: any number of
   failed updates, repeated or not, at any fault point), one more reconciliation without
   fault - the scheduled retry with an empty batch, or the next event, full or partial -
   succeeds and leaves the files, and the haproxy the update reloads, exactly those of the
   current state *)
Theorem C12_retry_converges : forall e, shard_range e ->
  forall h, wf_hist e inst_empty h ->
  forall l, wf_batch e (i_cfg (run_f e inst_empty h)) l ->
    let r := step_f e [] (run_f e inst_empty h) l in
    snd r = false /\ i_failed (fst r) = false /\
    disk_ok e (i_cfg (fst r)) (i_disk (fst r)) /\
    (inline e = true -> exists run, i_running (fst r) = Some run /\ disk_ok e (i_cfg (fst r)) run).
Proof. exact retry_converges. Qed.
Print Assumptions C12_retry_converges.

(* ... which is the state of the execution that suffers no fault ([erase h] = the same batches,
   no fault armed): after the retry, the files and the reloaded haproxy of the execution that
   suffered the faults are exactly the state the fault-free execution is in - as its own files are *)
Theorem C12_retry_equals_fault_free : forall e, shard_range e ->
  forall h, wf_hist e inst_empty h ->
  forall l, wf_batch e (i_cfg (run_f e inst_empty h)) l ->
    let faulty := fst (step_f e [] (run_f e inst_empty h) l) in
    let faultfree := fst (step_f e [] (run_f e inst_empty (erase h)) l) in
    disk_ok e (i_cfg faultfree) (i_disk faulty) /\ disk_ok e (i_cfg faultfree) (i_disk faultfree) /\
    (inline e = true -> exists r, i_running faulty = Some r /\ disk_ok e (i_cfg faultfree) r).
Proof. exact retry_equals_fault_free. Qed.
Print Assumptions C12_retry_equals_fault_free.

(* more generally: whatever faults are armed, an update that reports success has left files
   (and, inline, a running haproxy) that are exactly those of the current state *)
Theorem C12_success_is_convergence : forall e, shard_range e ->
  forall h, wf_hist e inst_empty h ->
  forall l fs s', wf_batch e (i_cfg (run_f e inst_empty h)) l -> armed fs FReloadSilent = false ->
    step_f e fs (run_f e inst_empty h) l = (s', false) ->
    i_failed s' = false /\ disk_ok e (i_cfg s') (i_disk s') /\
    (inline e = true -> exists r, i_running s' = Some r /\ disk_ok e (i_cfg s') r).
Proof. exact success_is_convergence. Qed.
Print Assumptions C12_success_is_convergence.

(* a reload issued through the reload queue is retried by the queue: once one attempt
   succeeds the running haproxy has loaded the files of the current state *)
Theorem C12_retry_converges_reload_queue : forall e, shard_range e -> inline e = false ->
  forall h, wf_hist e inst_empty h ->
  forall l fs s', wf_batch e (i_cfg (run_f e inst_empty h)) l -> armed fs FReloadSilent = false ->
    step_f e fs (run_f e inst_empty h) l = (s', false) ->
  forall results, i_pending s' = true -> In true results ->
    let s'' := reload_attempts results s' in
    exists run, i_running s'' = Some run /\ disk_ok e (i_cfg s'') run /\ disk_ok e (i_cfg s'') (i_disk s'') /\
                i_pending s'' = false.
Proof. exact retry_converges_reload_queue. Qed.
Print Assumptions C12_retry_converges_reload_queue.

(* crash points: a crash at any point of an update, or a restart, gives a new instance over
   whatever the directory holds (files of an interrupted update, shard files of backends that
   are gone, files of shards beyond a smaller shard count); the reconciliations that follow
   converge: an update that reports success leaves exactly the current state *)
Theorem C12_restart_converges : forall e, shard_range e ->
  forall s l fs s', wf_batch e (i_cfg (restart s)) l -> armed fs FReloadSilent = false ->
    step_f e fs (restart s) l = (s', false) ->
    disk_ok e (i_cfg s') (i_disk s') /\
    (inline e = true -> exists r, i_running s' = Some r /\ disk_ok e (i_cfg s') r).
Proof. exact restart_converges. Qed.
Print Assumptions C12_restart_converges.

Theorem C12_restart_then_history : forall e, shard_range e ->
  forall s h, wf_hist e (restart s) h ->
  forall l fs s', wf_batch e (i_cfg (run_f e (restart s) h)) l -> armed fs FReloadSilent = false ->
    step_f e fs (run_f e (restart s) h) l = (s', false) ->
    disk_ok e (i_cfg s') (i_disk s').
Proof. exact restart_then_history. Qed.
Print Assumptions C12_restart_then_history.

(* the hypotheses are satisfiable, and the witness of the defect repaired by 7d37a3e (two
   shards; backend 1 alone in shard 1; restart; the cluster only has backend 0): the restarted
   instance removes the stale haproxy5-backend001.cfg *)
Theorem C12_restart_witness :
  disk_ok w_env (i_cfg w_s2) (i_disk w_s2) /\ d_shard (i_disk w_s2) 1 = None /\ d_shard (i_disk w_s1) 1 <> None.
Proof. exact restart_witness_converges. Qed.
Print Assumptions C12_restart_witness.

(* without that hypothesis the statement is false: the master drops `reload` silently; the
   update reports success, the files are right, nothing is retried, and what the running
   haproxy has loaded is not the current state (it keeps a backend that is gone) *)
Theorem C12_silent_reload_drop_refuted :
  exists e h l fs s',
    shard_range e /\ inline e = true /\ wf_hist e inst_empty h /\
    wf_batch e (i_cfg (run_f e inst_empty h)) l /\
    step_f e fs (run_f e inst_empty h) l = (s', false) /\
    disk_ok e (i_cfg s') (i_disk s') /\
    forall r, i_running s' = Some r -> ~ disk_ok e (i_cfg s') r.
Proof. exact silent_reload_drop_refuted. Qed.
Print Assumptions C12_silent_reload_drop_refuted.

(* ---------------------------------------------------------------- the layer that retries
   Model/RetryLoop.v: watchers (changes handed over to a reconciliation are swapped out), work
   queue (a set of rparam{fullsync} items, ready or delayed), IngressReconciler.Reconcile (on
   error the SAME rparam is scheduled again after ReloadRetry), Services.ReconcileIngress,
   reload queue; the legacy controller is the sub-case with one kind of request.  [lrun] runs
   a trace of events: LChange full (a watched object changed, handler with h.full = full),
   LLeader, LTick full (a delayed request becomes ready), LAttempt full l fs (the worker takes
   rparam{full}; the converters make the calls l; faults fs), LReload ok.  [wf_trace] = the
   worker only takes ready requests, batches follow the converters' protocol, a full request is
   served by a full sync, no silent reload drop.  [pending] = a request is ready or delayed, or a
   reload sits in the reload queue.  Taken as given: client-go's work queue does deliver a
   delayed / ready item (the theorems are about every finite trace). *)

(* (1) safety, for every interleaving of events, attempts, faults and reloads: when nothing is
   pending, the watchers hold no change, and - unless nothing was ever reconciled - the last
   update succeeded, the files are exactly the model and haproxy has loaded exactly it *)
Theorem C12_pending_until_converged : forall e, shard_range e ->
  forall tr, wf_trace e loop_init tr ->
    let L := lrun e loop_init tr in
    pending L = false ->
    q_wch (l_q L) = false /\
    (untouched (l_inst L) \/
     (i_failed (l_inst L) = false /\ disk_ok e (i_cfg (l_inst L)) (i_disk (l_inst L)) /\
      exists r, i_running (l_inst L) = Some r /\ disk_ok e (i_cfg (l_inst L)) r)).
Proof. exact pending_until_converged. Qed.
Print Assumptions C12_pending_until_converged.

(* (2) a failed attempt schedules the same request (full stays full) and is remembered ... *)
Theorem C12_failed_attempt_is_requeued : forall e L full l fs,
  rset_mem (q_ready (l_q L)) full = true -> snd (step_f e fs (l_inst L) l) = true ->
  let L' := lstep e L (LAttempt full l fs) in
  rset_mem (q_delay (l_q L')) full = true /\ i_failed (l_inst L') = true.
Proof. exact failed_attempt_is_requeued. Qed.
Print Assumptions C12_failed_attempt_is_requeued.

(* ... and after any trace (new events between the failure and the retry, other attempts
   failing, reloads), while the last update failed a request is pending, and the next attempt
   without fault - the scheduled retry or any other request, full or partial, whatever batch
   it is handed, empty included - converges (C12_retry_converges at this layer) *)
Theorem C12_attempt_after_failure_converges : forall e, shard_range e ->
  forall tr, wf_trace e loop_init tr ->
    let L := lrun e loop_init tr in
    (i_failed (l_inst L) = true -> q_pending (l_q L) = true) /\
    forall full l, wf_trace e L [LAttempt full l []] ->
      let L' := lstep e L (LAttempt full l []) in
      i_failed (l_inst L') = false /\ disk_ok e (i_cfg (l_inst L')) (i_disk (l_inst L')) /\
      ((inline e = true \/ i_pending (l_inst L') = false) ->
         exists r, i_running (l_inst L') = Some r /\ disk_ok e (i_cfg (l_inst L')) r).
Proof. exact attempt_after_failure_converges. Qed.
Print Assumptions C12_attempt_after_failure_converges.

(* (3) every trace that ends with an attempt reporting success: files, and what haproxy has
   loaded once no reload is queued, are exactly the state FF the same reconciliations reach
   without any fault ([attempts] = the batches of the trace, [erase] = no fault armed) *)
Theorem C12_eventually_fault_free_converges : forall e, shard_range e ->
  forall tr full l fs, wf_trace e loop_init (tr ++ [LAttempt full l fs]) ->
    let L := lrun e loop_init (tr ++ [LAttempt full l fs]) in
    let FF := run_f e inst_empty (erase (attempts e loop_init (tr ++ [LAttempt full l fs]))) in
    i_failed (l_inst L) = false ->
    disk_ok e (i_cfg (l_inst L)) (i_disk (l_inst L)) /\
    disk_ok e (i_cfg FF) (i_disk (l_inst L)) /\ disk_ok e (i_cfg FF) (i_disk FF) /\
    ((inline e = true \/ i_pending (l_inst L) = false) ->
       exists r, i_running (l_inst L) = Some r /\ disk_ok e (i_cfg FF) r).
Proof. exact eventually_fault_free_converges. Qed.
Print Assumptions C12_eventually_fault_free_converges.

(* the hypotheses on traces are satisfiable (a change, the rate limiter's delay, a reconciliation
   whose main file cannot be written - it fails -, then the retry with an empty batch) *)
Theorem C12_trace_hypotheses_satisfiable :
  wf_trace w_env loop_init [LChange false; LTick false; LAttempt false w_full2 [FMain]] /\
  snd (step_f w_env [FMain] (l_inst w_L2) w_full2) = true /\
  wf_trace w_env (lstep w_env w_L3 (LTick false)) [LAttempt false w_retry []].
Proof. exact wf_trace_example. Qed.
Print Assumptions C12_trace_hypotheses_satisfiable.
