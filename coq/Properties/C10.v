(* C10 — Gateway API routes attach only where class, listener and namespace rules allow.
   Statements only; every proof is one `exact`.
   Vocabulary (coq/Model/Gateway.v): `attach_impl cl` is the converter run on the object set cl
   (st_paths: PathLink key -> backend id; st_backs: backend id -> servers);
   `combinations cl` lists every (HTTPRoute, parentRef, Gateway, listener, rule, match, hostname)
   tuple in declaration order; `admitted cl a` are the Gateway API rules of the property:
   the parentRef designates the Gateway, the Gateway's class names this controller, the listener
   matches the sectionName and its allowedRoutes admit the route's kind and namespace
   (Same / All / Selector on the namespace's labels), and the rule has a usable backendRef;
   `wf_objects cl`: names are unique per kind, backend ids are distinct, and routes carry the Kind
   that the informer cache reports. *)
From Coq Require Import ZArith List String.
From HI Require Import Model.Weights Proofs.Weights Model.Gateway Proofs.Gateway.
Import ListNotations.
Open Scope string_scope.
Open Scope list_scope.

(* `combinations` misses no tuple: it holds exactly the tuples made of a listed HTTPRoute, one of
   its parentRefs, a listed Gateway, one of its listeners, one of the route's rules (with its
   index), one of the rule's matches (or the default match) and one of the hostnames the
   listener/route pair declares. *)
Theorem C10_combinations_exhaustive :
  forall cl a,
  In a (combinations cl) <->
  In (at_route a) (c_routes cl) /\ rt_tcp (at_route a) = false /\
  In (at_parent a) (rt_parents (at_route a)) /\
  In (at_gateway a) (c_gateways cl) /\
  In (at_listener a) (g_listeners (at_gateway a)) /\
  nth_error (rt_rules (at_route a)) (at_index a) = Some (at_rule a) /\
  In (at_match a) (matches_or_default (r_matches (at_rule a))) /\
  In (at_hostname a) (filter_hostnames (at_listener a) (at_route a)).
Proof. exact combinations_exhaustive. Qed.
Print Assumptions C10_combinations_exhaustive.

(* Nothing is produced for a non-admitted combination: for all object sets, every host/path rule
   of the configuration (key k served by backend b) comes from an admitted combination that yields
   that key and that backend (namespace, route, rule index), and no admitted combination declared
   earlier yields the same key (first declaration wins). *)
Theorem C10_attach_sound :
  forall cl k b,
  wf_objects cl -> In (k, b) (st_paths (attach_impl cl)) ->
  exists a before after,
    combinations cl = before ++ a :: after /\
    admitted cl a /\ at_key a = k /\ at_owner a = b /\
    (forall a', In a' before -> admitted cl a' -> at_key a' <> k).
Proof. exact attach_sound. Qed.
Print Assumptions C10_attach_sound.

(* Every admitted combination yields its host/path rule. *)
Theorem C10_attach_complete :
  forall cl a,
  wf_objects cl -> In a (combinations cl) -> admitted cl a ->
  exists b, In (at_key a, b) (st_paths (attach_impl cl)).
Proof. exact attach_complete. Qed.
Print Assumptions C10_attach_complete.

(* ... and a key is served by one backend only (the one C10_attach_sound names). *)
Theorem C10_attach_keys_unique :
  forall cl, wf_objects cl -> NoDup (map fst (st_paths (attach_impl cl))).
Proof. exact attach_keys_unique. Qed.
Print Assumptions C10_attach_keys_unique.

(* Every backend of the configuration belongs to a rule of a listed route and holds the weighted
   servers computed from that rule's backendRefs. *)
Theorem C10_backends_from_rules :
  forall cl id eps,
  wf_objects cl -> In (id, eps) (st_backs (attach_impl cl)) ->
  exists r i rule, In r (c_routes cl) /\ nth_error (rt_rules r) i = Some rule /\
    id = rule_id r i /\ backend_servers cl (rt_ns r) (r_backends rule) = Some eps.
Proof. exact backends_from_rules. Qed.
Print Assumptions C10_backends_from_rules.

(* The rule's backendRefs as weighted servers (through the C16 theorems, base 128): each server
   is a ready endpoint of a usable backendRef; with configured weights within 0..256 its weight
   lies in 0..256 and is zero exactly when the configured weight is zero. *)
Theorem C10_backend_weights :
  forall cl ns refs eps,
  backend_servers cl ns refs = Some eps ->
  (forall u, In (Some u) (map (usable_ref cl ns) refs) -> (0 <= fst u <= 256)%Z) ->
  forall ip port w, In (ip, port, w) eps ->
    exists u, In (Some u) (map (usable_ref cl ns) refs) /\ In (ip, port) (snd u) /\
              (0 <= w <= 256)%Z /\ (w = 0%Z <-> fst u = 0%Z).
Proof. exact backend_servers_weights. Qed.
Print Assumptions C10_backend_weights.

(* TCPRoutes (`tcp_combinations`: TCPRoute, parentRef, Gateway, listener, rule; `tcp_admitted`:
   the same rules): a TCP service exists on a port only through an admitted combination on a
   listener with that port, the first one declared ... *)
Theorem C10_tcp_attach_sound :
  forall cl port b,
  wf_objects cl -> In (port, b) (st_tcp (attach_impl cl)) ->
  exists a before after,
    tcp_combinations cl = before ++ a :: after /\
    tcp_admitted cl a /\ ta_port a = port /\ ta_owner a = b /\
    (forall a', In a' before -> tcp_admitted cl a' -> ta_port a' <> port).
Proof. exact tcp_attach_sound. Qed.
Print Assumptions C10_tcp_attach_sound.

(* ... and every admitted TCPRoute combination gets its listener port served. *)
Theorem C10_tcp_attach_complete :
  forall cl a,
  wf_objects cl -> In a (tcp_combinations cl) -> tcp_admitted cl a ->
  exists b, In (ta_port a, b) (st_tcp (attach_impl cl)).
Proof. exact tcp_attach_complete. Qed.
Print Assumptions C10_tcp_attach_complete.

(* ---------------------------------------------------------------------------------------------
   Extension: listener protocol, TLS passthrough, API versions, hostname intersection.
   `attach_impl_x` / `attach_versions` (Model/Gateway.v) are the converter with what a listener in
   tls.mode Passthrough adds and with one sync per enabled API version over a shared state; the
   correspondence runs them.  The theorems above are about `attach_impl`; `admitted` now includes
   the listener protocol as far as the project implements it (a TCPRoute is not attached through
   an HTTP, HTTPS, TLS or UDP listener -- after the fix of /repo 236a4c8). *)

(* Without a passthrough listener the extended driver is the plain one: same host/path rules,
   backends and TCP services, no ssl-passthrough host, no HTTPPassthroughBackend. *)
Theorem C10_extended_driver_conservative :
  forall cl, no_passthrough cl ->
  x_core (attach_impl_x cl) = attach_impl cl /\ x_pass (attach_impl_x cl) = [] /\ x_hpb (attach_impl_x cl) = [].
Proof. exact attach_x_conservative. Qed.
Print Assumptions C10_extended_driver_conservative.

(* ... so soundness and completeness carry over to it. *)
Theorem C10x_attach_sound :
  forall cl k b,
  wf_objects cl -> no_passthrough cl -> In (k, b) (st_paths (x_core (attach_impl_x cl))) ->
  exists a before after,
    combinations cl = before ++ a :: after /\
    admitted cl a /\ at_key a = k /\ at_owner a = b /\
    (forall a', In a' before -> admitted cl a' -> at_key a' <> k).
Proof. exact attach_x_sound. Qed.
Print Assumptions C10x_attach_sound.

Theorem C10x_attach_complete :
  forall cl a,
  wf_objects cl -> no_passthrough cl -> In a (combinations cl) -> admitted cl a ->
  exists b, In (at_key a, b) (st_paths (x_core (attach_impl_x cl))).
Proof. exact attach_x_complete. Qed.
Print Assumptions C10x_attach_complete.

(* PARTIAL: for any object sets, any listener TLS mode and any succession of API versions, every
   host/path rule is served by a backend that exists.  Gap: with passthrough listeners (root path
   moved to HTTPPassthroughBackend, matches dropped, duplicate links) and with several versions,
   admission of the rules (soundness) and completeness are not proved; they are covered by the
   correspondence and the oracle only. *)
Theorem C10x_paths_backed_partial :
  forall cls k b,
  In (k, b) (st_paths (x_core (attach_versions cls))) ->
  has_key b (st_backs (x_core (attach_versions cls))) = true.
Proof. exact attach_versions_backed_partial. Qed.
Print Assumptions C10x_paths_backed_partial.

(* Against the Gateway API text alone (`admitted_by_spec`: the project's relation plus listener
   protocol HTTP/HTTPS for an HTTPRoute and the hostname taken from the intersection
   `spec_hostnames` of listener and route hostnames, wildcards on either side).
   The full statement is false of the converter: *)
Theorem C10_attach_sound_spec_refuted :
  exists cl k b,
    wf_objects cl /\ no_passthrough cl /\ In (k, b) (st_paths (attach_impl cl)) /\
    forall a, In a (combinations cl) -> ~ admitted_by_spec cl a.
Proof. exact attach_sound_spec_refuted. Qed.
Print Assumptions C10_attach_sound_spec_refuted.

(* (an HTTPRoute attached through a TCP listener; and the hostname override is not the intersection) *)
Theorem C10_hostname_intersection_refuted :
  exists l r, spec_hostnames l r = [] /\ filter_hostnames l r = ["gw.example"].
Proof. exact hostnames_spec_refuted. Qed.
Print Assumptions C10_hostname_intersection_refuted.

(* The hostnames agree with the intersection when the listener has no hostname (or "*") or the
   route has none. *)
Theorem C10_hostname_intersection_under_H :
  forall l r,
  (l_hostname l = None \/ l_hostname l = Some "" \/ l_hostname l = Some "*" \/ rt_hostnames r = []) ->
  filter_hostnames l r = spec_hostnames l r.
Proof. exact hostnames_spec_under_H. Qed.
Print Assumptions C10_hostname_intersection_under_H.

(* The strongest true variant: inside the documented conformance (every admitting listener speaks
   a protocol fit for the route and its hostname override coincides with the intersection) the
   converter is sound and complete for the Gateway API relation too. *)
Theorem C10_attach_sound_spec_under_H :
  forall cl k b,
  wf_objects cl -> within_documented_conformance cl -> In (k, b) (st_paths (attach_impl cl)) ->
  exists a before after,
    combinations cl = before ++ a :: after /\
    admitted_by_spec cl a /\ at_key a = k /\ at_owner a = b /\
    (forall a', In a' before -> admitted_by_spec cl a' -> at_key a' <> k).
Proof. exact attach_sound_spec_under_H. Qed.
Print Assumptions C10_attach_sound_spec_under_H.

Theorem C10_attach_complete_spec :
  forall cl a,
  wf_objects cl -> In a (combinations cl) -> admitted_by_spec cl a ->
  exists b, In (at_key a, b) (st_paths (attach_impl cl)).
Proof. exact attach_complete_spec_under_H. Qed.
Print Assumptions C10_attach_complete_spec.
