(* C14 — Every Kubernetes event lands in exactly one reconciliation batch.
   Statements only; every proof is one `exact`.
   A history `steps` is any finite list of atomic steps `Ev e` (one event offered to the
   watchers: predicates, then the handler body under the mutex) and `Swap`
   (getChangedObjects). All interleavings of concurrent deliveries and swaps are such
   lists, because each step runs under watchers.mu (assumed, not proved: see props/C14.json).
   `segments steps` are the events between consecutive swaps, `open_segment steps` those
   after the last swap; `content cfg seg b` (Proofs/Watch.v) says that batch b holds exactly
   what the accepted events of seg left: change descriptions equal to the concatenation of
   theirs (in order, nothing twice), links and object entries exactly theirs (each once),
   the full-sync flag, and the last ConfigMap data captured. *)
From Coq Require Import ZArith NArith List Bool String.
From HI Require Import Model.Watch Proofs.Watch Model.WatchLegacy Proofs.WatchLegacy.
Import ListNotations.

(* the segments cut the history: every event is in exactly one of them *)
Theorem C14_segments_partition_events : forall steps,
  List.concat (segments steps) ++ open_segment steps = events_of steps.
Proof. exact segments_partition. Qed.
Print Assumptions C14_segments_partition_events.

(* one batch per swap, and batch k holds exactly what the events between swap k-1 and swap k left *)
Theorem C14_batches_count : forall cfg steps,
  List.length (w_batches (wrun cfg steps)) = List.length (segments steps).
Proof. exact batches_count. Qed.
Print Assumptions C14_batches_count.

Theorem C14_batches_partition : forall cfg steps k b,
  nth_error (w_batches (wrun cfg steps)) k = Some b ->
  exists seg, nth_error (segments steps) k = Some seg /\ content cfg seg b.
Proof. exact batches_partition. Qed.
Print Assumptions C14_batches_partition.

(* in particular: the link, the object entry and the change description of an accepted event
   are in the batch delivered by the first swap after it *)
Theorem C14_accepted_event_in_its_batch : forall cfg steps k b seg e,
  nth_error (w_batches (wrun cfg steps)) k = Some b ->
  nth_error (segments steps) k = Some seg ->
  In e seg -> accepted cfg e = true ->
  (forall d, In d (descr e) -> In d (c_desc b)) /\
  (forall r n, link_of e = Some (r, n) -> In n (links_get r (c_links b))) /\
  (is_generic e = false -> In (obj_entry e) (c_objects b)).
Proof. exact accepted_event_in_its_batch. Qed.
Print Assumptions C14_accepted_event_in_its_batch.

(* events after the last swap are held by the accumulator, which is what the next swap delivers *)
Theorem C14_pending_not_lost : forall cfg steps,
  content cfg (open_segment steps) (w_ch (wrun cfg steps)).
Proof. exact pending_not_lost. Qed.
Print Assumptions C14_pending_not_lost.

Theorem C14_next_swap_delivers_pending : forall cfg steps,
  w_batches (wrun cfg (steps ++ [Swap])) = w_batches (wrun cfg steps) ++ [w_ch (wrun cfg steps)].
Proof. exact next_swap_delivers_pending. Qed.
Print Assumptions C14_next_swap_delivers_pending.

(* A delivered batch is not changed by anything that happens after its swap. In this functional
   model a batch is a value, so the statement is immediate; what it stands for in the Go code
   is that the accumulator started by initCh shares no slice backing array and no map with
   the batch just handed out, and that no handler writes into a delivered map. That part is
   tied by the correspondence and the oracle: the harness keeps every *ChangedObjects as
   returned, fires the rest of the history, and re-reads all delivered batches at every later
   swap and at the end (Corr_C14.wfinal; oracle C14/batch-mutated-after-delivery). *)
Theorem C14_delivered_batches_stable : forall cfg steps more k b,
  nth_error (w_batches (wrun cfg steps)) k = Some b ->
  nth_error (w_batches (wrun cfg (steps ++ more))) k = Some b.
Proof. exact delivered_batches_stable. Qed.
Print Assumptions C14_delivered_batches_stable.

(* ConfigMap data chain: Cur of the first batch is empty, Cur of batch k+1 is New of batch k
   if present, else Cur of batch k; the accumulator continues the chain *)
Theorem C14_configmap_chain_first : forall cfg steps b,
  nth_error (w_batches (wrun cfg steps)) 0 = Some b -> c_gcur b = None /\ c_tcur b = None.
Proof. exact configmap_chain_first. Qed.
Print Assumptions C14_configmap_chain_first.

Theorem C14_configmap_chain : forall cfg steps k b b',
  nth_error (w_batches (wrun cfg steps)) k = Some b ->
  nth_error (w_batches (wrun cfg steps)) (S k) = Some b' ->
  c_gcur b' = carry (c_gcur b) (c_gnew b) /\ c_tcur b' = carry (c_tcur b) (c_tnew b).
Proof. exact configmap_chain. Qed.
Print Assumptions C14_configmap_chain.

Theorem C14_configmap_chain_pending : forall cfg steps b,
  List.last (map Some (w_batches (wrun cfg steps))) None = Some b ->
  c_gcur (w_ch (wrun cfg steps)) = carry (c_gcur b) (c_gnew b) /\
  c_tcur (w_ch (wrun cfg steps)) = carry (c_tcur b) (c_tnew b).
Proof. exact configmap_chain_pending. Qed.
Print Assumptions C14_configmap_chain_pending.

(* an accepted create / update / delete of the global (tcp) ConfigMap always shows as new,
   non-nil data in the batch of its segment (`cm_new cfg true e`: e is an accepted ConfigMap
   event whose key is the global ConfigMap's; `false`: the tcp one's) *)
Theorem C14_configmap_event_delivers_data : forall cfg seg b,
  content cfg seg b ->
  ((exists e, In e seg /\ cm_new cfg true e = true) -> exists d, c_gnew b = Some d) /\
  ((exists e, In e seg /\ cm_new cfg false e = true) -> exists d, c_tnew b = Some d).
Proof. exact configmap_event_delivers_data. Qed.
Print Assumptions C14_configmap_event_delivers_data.

(* an Ingress update moving out of / into the class is a delete / an add, inside the class an
   update, outside nothing *)
Theorem C14_class_transition : forall cfg e,
  e_kind e = KIngress -> e_type e = EUpdate ->
  let ov := o_valid (e_old e) in let nv := o_valid (e_new e) in
  (ov = true -> nv = false -> descr e = [(IngDel, o_id (e_old e))]) /\
  (ov = false -> nv = true -> descr e = [(IngAdd, o_id (e_new e))]) /\
  (ov = true -> nv = true -> descr e = [(IngUpd, o_id (e_new e))]) /\
  (ov = false -> nv = false -> accepted cfg e = false /\ descr e = []) /\
  accepted cfg e = (ann_changed e || gen_changed e) && (ov || nv).
Proof. exact class_transition. Qed.
Print Assumptions C14_class_transition.

(* every accepted event puts one notification on the reconciliation queue *)
Theorem C14_notifications : forall cfg steps,
  w_notifs (wrun cfg steps) = map (fun e => full_of (e_kind e)) (filter (accepted cfg) (events_of steps)).
Proof. exact notifications. Qed.
Print Assumptions C14_notifications.

(* ---- the legacy controller's event path (pkg/controller/legacy/cache.go): k8scache.Notify fills
        c.changed, k8scache.SwapChangedObjects describes it and hands it over. Same shape of
        statements on Model/WatchLegacy.v; every Notify is accepted (the listers filter before).
        `lcontent cfg seg b`: every slice of b holds exactly the objects the Notify calls of seg
        appended (in order, nothing twice), with the full-sync flag and the last ConfigMap data;
        Objects and Links are functions of the slices (lobjects, llinks). ---- *)

Theorem C14_legacy_segments_partition_events : forall steps,
  List.concat (lsegments steps) ++ lopen_segment steps = levents_of steps.
Proof. exact legacy_segments_partition. Qed.
Print Assumptions C14_legacy_segments_partition_events.

Theorem C14_legacy_batches_partition : forall cfg steps k b,
  nth_error (l_batches (lrun cfg steps)) k = Some b ->
  exists seg, nth_error (lsegments steps) k = Some seg /\ lcontent cfg seg b.
Proof. exact legacy_batches_partition. Qed.
Print Assumptions C14_legacy_batches_partition.

(* slice by slice: the Go slice ln of batch k is the concatenation of what each Notify of
   segment k appended to ln *)
Theorem C14_legacy_batch_slices : forall cfg steps k b seg ln,
  nth_error (l_batches (lrun cfg steps)) k = Some b ->
  nth_error (lsegments steps) k = Some seg ->
  llist_of ln (lc_desc b) = flat_map (fun e => llist_of ln (ldescr e)) seg.
Proof. exact legacy_batch_slices. Qed.
Print Assumptions C14_legacy_batch_slices.

Theorem C14_legacy_pending_not_lost : forall cfg steps,
  lcontent cfg (lopen_segment steps) (l_ch (lrun cfg steps)) /\
  l_clear (lrun cfg steps) = negb (nonempty (lopen_segment steps)).
Proof. exact legacy_pending_not_lost. Qed.
Print Assumptions C14_legacy_pending_not_lost.

Theorem C14_legacy_next_swap_delivers_pending : forall cfg steps,
  l_batches (lrun cfg (steps ++ [LSwap])) = l_batches (lrun cfg steps) ++ [l_ch (lrun cfg steps)].
Proof. exact legacy_next_swap_delivers_pending. Qed.
Print Assumptions C14_legacy_next_swap_delivers_pending.

Theorem C14_legacy_configmap_chain : forall cfg steps k b b',
  nth_error (l_batches (lrun cfg steps)) k = Some b ->
  nth_error (l_batches (lrun cfg steps)) (S k) = Some b' ->
  lc_gcur b' = lcarry (lc_gcur b) (lc_gnew b) /\ lc_tcur b' = lcarry (lc_tcur b) (lc_tnew b).
Proof. exact legacy_configmap_chain. Qed.
Print Assumptions C14_legacy_configmap_chain.

Theorem C14_legacy_configmap_chain_first : forall cfg steps b,
  nth_error (l_batches (lrun cfg steps)) 0 = Some b -> lc_gcur b = None /\ lc_tcur b = None.
Proof. exact legacy_configmap_chain_first. Qed.
Print Assumptions C14_legacy_configmap_chain_first.

(* a reconciliation is requested once per non-empty segment (by its first Notify) *)
Theorem C14_legacy_notifications : forall cfg steps,
  l_notifs (lrun cfg steps) = List.length (filter nonempty (lsegments steps ++ [lopen_segment steps])).
Proof. exact legacy_notifications. Qed.
Print Assumptions C14_legacy_notifications.
