(* C08 — Only Ingresses classified for this controller are ever configured.
   Statements only; every proof is one `exact`. Models: Model/ClassSel.v (IsValidIngress,
   GetIngress, GetIngressList, the documented rule [selected]), Model/ClassWatch.v
   (Ingress watcher, API-server generation, merge of a batch by syncPartial; fixed class
   table) and Model/ClassWatchIC.v (the same with IngressClass create / update / delete
   events: the class table is part of the state). *)
From Coq Require Import String List Bool NArith.
From HI Require Import Lib.XNs_Strs Model.ClassSel Model.ClassWatch Model.ClassWatchIC
  Proofs.ClassSel Proofs.ClassWatch Proofs.ClassWatchIC.
Import ListNotations.
Open Scope string_scope.

(* The decision coded in IsValidIngress is the documented rule, for every configuration,
   every set of IngressClass objects and every Ingress: all strings, via the
   3 x 4 x 2 x 2 table and the proof that the table's abstraction is what the code's
   string comparisons observe. wf_cfg: the controller name is not empty; wf_classes:
   IngressClass names are unique; wf_ingress: ingressClassName holds no '/'. *)
Theorem C08_is_valid_iff_selected : forall c cls ing,
  wf_cfg c -> wf_classes cls -> wf_ingress ing ->
  (is_valid c cls ing = true <-> selected c cls ing).
Proof. exact is_valid_iff_selected. Qed.
Print Assumptions C08_is_valid_iff_selected.

(* the finite table itself: code decision = documented rule on every abstract row *)
Theorem C08_table : forall a k w p, is_valid_abs a k w p = selected_abs a k w p.
Proof. exact abs_decision. Qed.
Print Assumptions C08_table.

(* the copy in pkg/controller/legacy/cache.go takes the same decision *)
Theorem C08_legacy_same_decision : forall c cls ing,
  wf_cfg c -> wf_ingress ing -> is_valid_legacy c cls ing = is_valid c cls ing.
Proof. exact legacy_same_decision. Qed.
Print Assumptions C08_legacy_same_decision.

(* An Ingress that is not selected adds nothing: a full sync of the cluster equals the
   full sync of the cluster with any set of non-selected ingresses erased, whatever an
   ingress contributes (contrib) and whatever the rest of the cluster (e) is ... *)
Theorem C08_unselected_contributes_nothing :
  forall (item env : Type) (contrib : env -> ingress -> list item) e c cls ings keep,
  wf_cfg c -> wf_classes cls -> (forall i, In i ings -> wf_ingress i) ->
  (forall i, In i ings -> selected c cls i -> keep i = true) ->
  sync_full contrib e c cls (filter keep ings) = sync_full contrib e c cls ings.
Proof. exact @unselected_contributes_nothing. Qed.
Print Assumptions C08_unselected_contributes_nothing.

(* ... and every item of a full sync is contributed by a selected ingress *)
Theorem C08_contribution_from_selected :
  forall (item env : Type) (contrib : env -> ingress -> list item) e c cls ings x,
  wf_cfg c -> wf_classes cls -> (forall i, In i ings -> wf_ingress i) ->
  In x (sync_full contrib e c cls ings) ->
  exists i, In i ings /\ selected c cls i /\ In x (contrib e i).
Proof. exact @contribution_from_selected. Qed.
Print Assumptions C08_contribution_from_selected.

(* Transitions: for every history of creations, updates and deletions of ingresses (any
   validity before and after each of them, any number of operations per ingress between
   two reconciliations), after a reconciliation the converted ingresses are exactly the
   existing ingresses that are valid now: becoming unselected (or deleted) removes the
   ingress, becoming selected adds it. The IngressClass objects are fixed. *)
Theorem C08_view_tracks_validity : forall c cls ops n,
  let s := run c cls (ops ++ [OSwap]) in
  In n (w_view s) <-> exists i, find_ingress (w_objs s) n = Some i /\ is_valid c cls i = true.
Proof. exact view_tracks_validity. Qed.
Print Assumptions C08_view_tracks_validity.

(* the same in the terms of the documented rule *)
Theorem C08_view_tracks_selection : forall c cls ops n,
  wf_cfg c -> wf_classes cls -> (forall i, In (OPut i) ops -> wf_ingress i) ->
  let s := run c cls (ops ++ [OSwap]) in
  In n (w_view s) <-> exists i, find_ingress (w_objs s) n = Some i /\ selected c cls i.
Proof. exact view_tracks_selection. Qed.
Print Assumptions C08_view_tracks_selection.

(* The same at full strength, with IngressClass events in the history. A history is any
   list of: create-or-update of an Ingress (IPut), deletion of an Ingress (IDelete),
   create-or-update of an IngressClass - controller name, parameters or metadata only
   such as the is-default-class annotation - (KPut), deletion of an IngressClass (KDel),
   and reconciliations (ISwap, with any set [extra] of converted ingresses that the
   tracker also marks dirty because they share hosts or backends). It starts from the
   IngressClass objects ks0 that exist at start-up. After every reconciliation the
   converted ingresses are exactly the existing ingresses that are valid - selected by
   the documented rule - against the IngressClass objects that exist at that moment: a
   deleted class makes its ingresses leave, a re-created class or a controller name
   changed to ours makes them (re)enter, an ingress that stops matching is removed, and
   nothing else changes. wf_op: ingressClassName holds no '/'. *)
Theorem C08_view_tracks_validity_ic : forall c, wf_cfg c -> forall ks0 ops extra n,
  Forall wf_op ops ->
  let s := run2 c ks0 (ops ++ [ISwap extra]) in
  In n (map fst (s_view s)) <->
  exists i, find_ingress (s_objs s) n = Some i /\ is_valid c (to_classes (s_ks s)) i = true.
Proof. exact view_tracks_validity_ic. Qed.
Print Assumptions C08_view_tracks_validity_ic.

Theorem C08_view_tracks_selection_ic : forall c ks0 ops extra n,
  wf_cfg c -> NoDup (map k_name ks0) -> Forall wf_op ops ->
  let s := run2 c ks0 (ops ++ [ISwap extra]) in
  In n (map fst (s_view s)) <->
  exists i, find_ingress (s_objs s) n = Some i /\ selected c (to_classes (s_ks s)) i.
Proof. exact view_tracks_selection_ic. Qed.
Print Assumptions C08_view_tracks_selection_ic.
