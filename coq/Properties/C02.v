(* C02 — Running HAProxy never diverges from the on-disk config after runtime updates;
   anything not expressible or any failed/unexpected command answer => reload.
   Statements only; every proof is one `exact`. *)
From Coq Require Import List String ZArith.
From HI Require Import Model.Dyn Proofs.Dyn_Base Proofs.Dyn_Pair.
Import ListNotations.
Open Scope string_scope.

(* if any command written for a backend is answered with an I/O error or with a text the code
   does not accept, checkBackendPair returns false (=> reload), for every old layout, every new
   endpoint list and every pattern of answers *)
Theorem C02_dyn_fault_reloads : forall old cur resp i,
  let r := check_backend_pair old cur resp in
  (i < List.length (r_cmds r))%nat -> bad_set_server (resp i) = true -> r_updated r = false.
Proof. exact dyn_fault_reloads. Qed.
Print Assumptions C02_dyn_fault_reloads.

(* checkBackendPair (as repaired) never indexes the empty-slot list out of range *)
Theorem C02_no_panic : forall old cur resp, cur_enabled (b_eps cur) ->
  r_panic (check_backend_pair old cur resp) = false.
Proof. exact no_panic. Qed.
Print Assumptions C02_no_panic.

(* certificates: a successful `set ssl cert` + `commit ssl cert` leaves the file content running *)
Theorem C02_cert_update_sound : forall st payload accept lost0 lost1 h,
  c_pending st = None -> h_content h = Some payload ->
  let '(st', resp) := run_cert st payload accept lost0 lost1 in
  fst (exec_update_cert h resp 0) = true -> c_running st' = payload.
Proof. exact cert_update_sound. Qed.
Print Assumptions C02_cert_update_sound.

Theorem C02_cert_fault_reloads : forall h resp ok w,
  exec_update_cert h resp 0 = (ok, w) -> ok = true ->
  resp 0%nat <> AIOErr /\ exists s, resp 1%nat = AText s /\ commit_ok s = true.
Proof. exact cert_fault_reloads. Qed.
Print Assumptions C02_cert_fault_reloads.
