(* C02 — Running HAProxy never diverges from the on-disk config after runtime updates;
   anything not expressible or any failed/unexpected command answer => reload.
   Statements only; every proof is one `exact`. Model: Model/Dyn.v (pkg/haproxy/dynupdate.go as
   repaired by fixes/C02-*.patch). `resp : nat -> answer` is the socket: the n-th command written
   gets `resp n`, an I/O error or any text; nothing is assumed about it. *)
From Coq Require Import List String ZArith Permutation.
From HI Require Import Model.Dyn Proofs.Dyn_Base Proofs.Dyn_Pair Proofs.Dyn_Refine Proofs.Dyn_Step.
Import ListNotations.
Open Scope string_scope.

(* ---- an applied update leaves HAProxy as if it had loaded the files ---- *)

(* One update. For every slot layout `old` left by earlier updates (layout_ok: distinct server
   names, a slot is disabled iff it is the empty 127.0.0.1:1023), every re-created backend `cur`
   whose endpoints are as the converters create them (cur_ok: enabled, not 127.0.0.1, weight >= 0;
   backends with a DNS resolver are written as one server-template line, see
   C02_resolver_keeps_template) and every pattern of socket answers: if checkBackendPair reports
   the update as applied, then replaying the commands it wrote on a HAProxy that had loaded the old
   layout gives, for every slot name, the observation (enabled?, address, port, effective weight,
   draining, cookie value when cookies are preserved) that loading the new layout gives. *)
Theorem C02_dyn_refines_reload : forall old cur resp,
  layout_ok (b_eps old) -> cur_ok (b_eps cur) -> b_resolver cur = "" ->
  let r := check_backend_pair old cur resp in
  r_updated r = true ->
  forall n, obs (b_preserve cur) (apply_cmds (load (b_eps old)) (r_cmds r)) n = obs (b_preserve cur) (load (r_eps r)) n.
Proof. exact dyn_refines_reload. Qed.
Print Assumptions C02_dyn_refines_reload.

(* The same from any running state related to the old layout (not only a fresh load), together
   with the preservation of the layout invariant and of the slot count: this is the induction
   step over histories. slot_rel: same server names; disabled <-> maintenance; enabled => same
   address, port, effective weight; same cookie value when preserved. *)
Theorem C02_dyn_step : forall old cur resp run,
  layout_ok (b_eps old) -> cur_ok (b_eps cur) -> b_resolver cur = "" ->
  slot_rel (b_preserve cur) run (b_eps old) ->
  let r := check_backend_pair old cur resp in
  r_updated r = true ->
  slot_rel (b_preserve cur) (apply_cmds run (r_cmds r)) (r_eps r) /\
  layout_ok (r_eps r) /\ List.length (r_eps r) = List.length (b_eps old).
Proof. exact dyn_step. Qed.
Print Assumptions C02_dyn_step.

(* All histories between two reloads (`history`: any number of applied updates of one backend,
   each checked against the layout the previous one left, reordered or not in between): the
   running HAProxy is observed, slot by slot, as if it had loaded the last files written. *)
Theorem C02_dyn_history_refines_reload : forall pre old b' run',
  layout_ok (b_eps old) ->
  history pre old (load (b_eps old)) b' run' ->
  forall n, obs pre run' n = obs pre (load (b_eps b')) n.
Proof. exact dyn_history_refines_reload. Qed.
Print Assumptions C02_dyn_history_refines_reload.

Theorem C02_dyn_history_invariant : forall pre old run b' run',
  history pre old run b' run' ->
  layout_ok (b_eps old) -> slot_rel pre run (b_eps old) ->
  slot_rel pre run' (b_eps b') /\ layout_ok (b_eps b') /\ List.length (b_eps b') = List.length (b_eps old).
Proof. exact dyn_history_rel. Qed.
Print Assumptions C02_dyn_history_invariant.

(* related states are indistinguishable by the observation *)
Theorem C02_slot_rel_obs : forall pre run eps, NoDup (map ep_name eps) -> slot_rel pre run eps ->
  forall n, obs pre run n = obs pre (load eps) n.
Proof. exact slot_rel_obs. Qed.
Print Assumptions C02_slot_rel_obs.

(* DNS resolver backends: an applied update sends nothing and keeps the slot count of the
   server-template line *)
Theorem C02_resolver_keeps_template : forall old cur resp,
  b_resolver cur <> "" ->
  let r := check_backend_pair old cur resp in
  r_updated r = true -> r_cmds r = [] /\ List.length (r_eps r) = List.length (b_eps old).
Proof. exact resolver_keeps_template. Qed.
Print Assumptions C02_resolver_keeps_template.

(* ---- a failed or unexpectedly answered command reloads ---- *)

(* for every old layout, every new endpoint list and every pattern of answers: if any command
   written for the backend is answered with an I/O error or with a text the code does not accept,
   checkBackendPair returns false *)
Theorem C02_dyn_fault_reloads : forall old cur resp i,
  let r := check_backend_pair old cur resp in
  (i < List.length (r_cmds r))%nat -> bad_set_server (resp i) = true -> r_updated r = false.
Proof. exact dyn_fault_reloads. Qed.
Print Assumptions C02_dyn_fault_reloads.

(* ... and then HAProxyUpdate reloads, whatever else the update contains *)
Theorem C02_step_fault_reloads : forall s p i,
  In p (si_backs s) ->
  (i < List.length (br_cmds (backend_step (si_committed s) p)))%nat ->
  bad_set_server (bp_resp p i) = true ->
  so_reload (step s) = true.
Proof. exact step_fault_reloads. Qed.
Print Assumptions C02_step_fault_reloads.

(* checkBackendPair (as repaired) never indexes the empty-slot list out of range *)
Theorem C02_no_panic : forall old cur resp, cur_enabled (b_eps cur) ->
  r_panic (check_backend_pair old cur resp) = false.
Proof. exact no_panic. Qed.
Print Assumptions C02_no_panic.

(* ---- what cannot be expressed by runtime commands reloads ---- *)

(* nothing loaded yet / full sync; a change of global, tcp services, frontend or userlists; an
   added or removed host or backend; a difference in any field of a Backend other than ID,
   Dynamic, Endpoints (and the two caches PathsMap, pathConfig that Shrink ignores); a difference
   in any field of a Host other than the certificate's common name, hash and expiry: reload *)
Theorem C02_non_runtime_change_reloads : forall s, non_runtime_change s -> so_reload (step s) = true.
Proof. exact non_runtime_change_reloads. Qed.
Print Assumptions C02_non_runtime_change_reloads.

Theorem C02_backend_change_reloads : forall old cur resp name,
  differs_at backend_fields (b_cfg old) (b_cfg cur) name -> ~ In name pair_blank ->
  r_updated (check_backend_pair old cur resp) = false.
Proof. exact backend_change_reloads. Qed.
Print Assumptions C02_backend_change_reloads.

Theorem C02_host_change_reloads : forall old cur resp name,
  differs_at host_fields (h_cfg old) (h_cfg cur) name -> ~ In name host_blank ->
  fst (check_host_pair old cur resp) = false.
Proof. exact host_change_reloads. Qed.
Print Assumptions C02_host_change_reloads.

(* ---- certificates ---- *)

(* HAProxy executing `set ssl cert` + `commit ssl cert` honestly, with the connection possibly
   breaking before either command and the payload possibly refused: when execUpdateCert reports
   success the running certificate is the content of the file, provided no transaction was left
   pending for that file *)
Theorem C02_cert_update_sound : forall st payload accept lost0 lost1 h,
  c_pending st = None -> h_content h = Some payload ->
  let '(st', resp) := run_cert st payload accept lost0 lost1 in
  fst (exec_update_cert h resp 0) = true -> c_running st' = payload.
Proof. exact cert_update_sound. Qed.
Print Assumptions C02_cert_update_sound.

(* the side condition is needed: the answer to `set ssl cert` itself is not validated by the code *)
Theorem C02_cert_update_sound_needs_no_pending :
  exists st payload h,
    h_content h = Some payload /\
    let '(st', resp) := run_cert st payload false false false in
    fst (exec_update_cert h resp 0) = true /\ c_running st' <> payload.
Proof. exact cert_update_sound_needs_no_pending. Qed.
Print Assumptions C02_cert_update_sound_needs_no_pending.

(* an I/O error on either command, or an answer to `commit ssl cert` without "Success": reload *)
Theorem C02_cert_fault_reloads : forall h resp ok w,
  exec_update_cert h resp 0 = (ok, w) -> ok = true ->
  resp 0%nat <> AIOErr /\ exists s, resp 1%nat = AText s /\ commit_ok s = true.
Proof. exact cert_fault_reloads. Qed.
Print Assumptions C02_cert_fault_reloads.
