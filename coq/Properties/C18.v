(* C18 — External authentication fails closed.
   Statements only; every proof is one `exact`.  The functions are the model of
   setAuthExternal / buildBackendAuthExternal / buildBackendOAuth / buildHostAuthExternal /
   AcquireAuthBackendName / createPathConfig+PathIDs / the authExternal templates in
   Model/AuthExt.v; the outcomes of URL parsing, DNS, service lookup, the oauth prefix
   lookup, the Lua flag, the auth proxy range and binds and the ports referenced elsewhere
   are universally quantified inputs.
   `served ok q st rules` = the request q reaches the application through `rules` when the
   authentication service behind name n accepts the client iff `ok n`. *)
From Coq Require Import ZArith NArith List Bool Sorting.Sorted.
From HI Require Import Model.AuthExt Proofs.AuthExt Model.AuthRules Proofs.AuthRules.
Import ListNotations.

(* Backend side (auth-url with placement backend, an unknown placement, a frontend placement
   the host did not take, oauth): for every list of paths sharing the backend (protected or
   not, any length), every outcome of the validations, every auth proxy state -- the path
   ends with the deny marker or an auth backend, and whatever rules stand before and after
   the block of the backend, a request of that path id is served only if the path has an
   auth backend and that authentication service accepted the client. *)
Theorem C18_backend_fail_closed : forall lua fe used0 px ds px' cfgs d,
  process_backend lua fe used0 px ds = (px', cfgs) -> In d ds ->
  backend_in_charge fe d = true ->
  exists a, In (d_id d, a) cfgs /\ (a_deny a = true \/ exists n, a_name a = Some n) /\
    forall ok st pre post q, q_id q = d_id d -> skip_free a q ->
      served ok q st (pre ++ backend_rules cfgs ++ post) = true ->
      a_deny a = false /\ exists n, a_name a = Some n /\ ok n = true.
Proof. exact backend_fail_closed. Qed.
Print Assumptions C18_backend_fail_closed.

(* Frontend side, for requests whose req.base is literally the key of the path: the host
   mapper said frontend + auth-url -> every path of the host carries the deny marker or an
   auth backend and such a request is served only if that service accepted the client. *)
Theorem C18_frontend_fail_closed_exact : forall lua used0 px u tag keys px' hcfgs k,
  process_host lua used0 px PlFrontend (Some (u, tag)) keys = (px', hcfgs) -> In k keys ->
  exists a, In (k, Some a) hcfgs /\ (a_deny a = true \/ exists n, a_name a = Some n) /\
    forall ok st pre post q, q_path q = k -> q_exact q = true ->
      served ok q st (pre ++ frontend_rules hcfgs ++ post) = true ->
      a_deny a = false /\ exists n, a_name a = Some n /\ ok n = true.
Proof. exact frontend_fail_closed_exact. Qed.
Print Assumptions C18_frontend_fail_closed_exact.

(* The property at full strength -- every request routed to a path that declares external
   authentication is denied or authenticated -- is FALSE of the code: with the frontend
   placement the rendered condition is `var(req.base) -m str <method> '<key>'`, an exact
   match, so a request routed to the path whose req.base is not literally the key (any
   sub-path, other case, host alias) is served with every authentication service rejecting
   the client.  (Found on the implementation too: known finding
   C18/frontend-rule-exact-match-only.) *)
Theorem C18_fail_closed_refuted :
  exists lua hused bused px0 hplace hurl keys ds d q,
    In d ds /\ declared d = true /\ In (d_key d) keys /\
    q_path q = d_key d /\ q_id q = d_id d /\ q_under q = [] /\
    served (fun _ => false) q false (site_rules lua hused bused px0 hplace hurl keys ds [] []) = true.
Proof. exact fail_closed_refuted. Qed.
Print Assumptions C18_fail_closed_refuted.

(* The strongest true variant, with the extra hypothesis H spelled out: the path is in the
   charge of its backend, or req.base is literally its key.  One host processed before one
   backend; any host-wide declaration, any sibling paths on both. *)
Theorem C18_fail_closed_under_H : forall lua hused bused px0 hplace hurl keys ds d,
  In d ds -> declared d = true -> In (d_key d) keys ->
  forall ok st mid post q,
    q_path q = d_key d -> q_id q = d_id d -> q_under q = [] ->
    (backend_in_charge (site_fe hplace hurl keys) d = true \/ q_exact q = true) ->       (* H *)
    served ok q st (site_rules lua hused bused px0 hplace hurl keys ds mid post) = true ->
    exists n, ok n = true /\
      ((exists a, In (d_id d, a) (snd (site_backend lua hused bused px0 hplace hurl keys ds)) /\ a_name a = Some n) \/
       (exists a, In (d_key d, Some a) (snd (site_host lua hused px0 hplace hurl keys)) /\ a_name a = Some n)).
Proof. exact fail_closed_under_H. Qed.
Print Assumptions C18_fail_closed_under_H.

(* "Intercepted by the authentication service configured for exactly that path": in the
   auth proxy left by the processing of a backend (ports kept in increasing order, so a
   port designates one bind), every `_auth_<port>` name held by a path is bound to the
   service the path's own auth-url resolves to -- whatever the range, the binds found, the
   ports referenced elsewhere, the clean up of a full proxy in between. *)
Theorem C18_backend_auth_service_sound : forall lua fe used0 px ds px' cfgs id a p, sorted_px px ->
  process_backend lua fe used0 px ds = (px', cfgs) ->
  In (id, a) cfgs -> a_name a = Some (NAuth p) ->
  sorted_px px' /\
  exists d u tag t, In d ds /\ d_id d = id /\ d_url d = Some (u, tag) /\ resolve u = Some t /\
    In (mkbind p t) (px_binds px').
Proof. exact backend_auth_service_sound. Qed.
Print Assumptions C18_backend_auth_service_sound.

(* the same for the names the frontend placement hands to the paths of a host *)
Theorem C18_frontend_auth_service_sound : forall lua used0 px hplace hurl keys px' hcfgs k a n,
  sorted_px px -> process_host lua used0 px hplace hurl keys = (px', hcfgs) ->
  In (k, Some a) hcfgs -> a_name a = Some n ->
  sorted_px px' /\
  exists p u tag t, n = NAuth p /\ hplace = PlFrontend /\ hurl = Some (u, tag) /\
    resolve u = Some t /\ In (mkbind p t) (px_binds px').
Proof. exact frontend_auth_service_sound. Qed.
Print Assumptions C18_frontend_auth_service_sound.

(* in such a proxy a port designates one bind *)
Theorem C18_port_unique : forall bs b1 b2, Sorted.StronglySorted Z.lt (bports bs) ->
  In b1 bs -> In b2 bs -> b_port b1 = b_port b2 -> b1 = b2.
Proof. exact sorted_port_unique. Qed.
Print Assumptions C18_port_unique.

(* ... and the binds whose names are referenced elsewhere -- by other backends and, since
   fixes/C18-auth-proxy-cleanup-frontend.patch, by the host paths of the frontend placement
   (`used0`) -- survive the processing of any backend or host, so the two theorems above
   keep holding for the paths configured earlier *)
Theorem C18_referenced_binds_survive : forall lua fe used0 px ds px' cfgs b, sorted_px px ->
  process_backend lua fe used0 px ds = (px', cfgs) ->
  In b (px_binds px) -> In (b_port b) used0 -> In b (px_binds px').
Proof. exact backend_keeps_referenced. Qed.
Print Assumptions C18_referenced_binds_survive.

Theorem C18_referenced_binds_survive_host : forall lua used0 px hplace hurl keys px' hcfgs b, sorted_px px ->
  process_host lua used0 px hplace hurl keys = (px', hcfgs) ->
  In b (px_binds px) -> In (b_port b) used0 -> In b (px_binds px').
Proof. exact host_keeps_referenced. Qed.
Print Assumptions C18_referenced_binds_survive_host.

(* ------------------------------------------------------------------------------------ *)
(* The RENDERED rules (Model/AuthRules.v): `gen_auth_rules` transcribes what the current
   template writes for a backend (Cors block, then AuthExternal block), `eval_rules` runs
   http-request rules as HAProxy does (in order; deny/redirect -> Denied, use-service ->
   AnsweredByProxy, lua.auth-intercept sets txn.auth_response_successful to "the service
   answered ok", set-var/set-header go on).  `out n` is what the call to the authentication
   service behind n ends with: OOk | ONon2xx | OUnreachable | OMissing. *)

(* For every backend configuration the updater model produces, every CORS configuration of
   the paths (own or siblings), every number of copied headers, every request method
   (OPTIONS included), every state left by the frontend: a request of a path in the charge
   of its backend is Served only if the path has an auth backend and the service behind it
   answered ok. *)
Theorem C18_rendered_rules_fail_closed : forall lua fe used0 px ds px' cfgs crs exs d,
  process_backend lua fe used0 px ds = (px', cfgs) -> In d ds ->
  backend_in_charge fe d = true ->
  exists a, In (d_id d, a) cfgs /\
    forall out st q, q_id (xq q) = d_id d -> skip_free a (xq q) ->
      eval_rules (gen_auth_rules {| b_auth := cfgs; b_cors := crs; b_extra := exs |}) q out st = Served ->
      a_deny a = false /\ exists n, a_name a = Some n /\ out n = OOk.
Proof. exact rendered_rules_fail_closed. Qed.
Print Assumptions C18_rendered_rules_fail_closed.

(* Paths without external authentication are unaffected: their requests (a CORS preflight
   aside) go through the generated rules untouched, whatever their siblings declare. *)
Theorem C18_rendered_rules_unprotected_served : forall b id a out q st,
  NoDup (map fst (b_auth b)) -> In (id, a) (b_auth b) ->
  a_deny a = false -> a_name a = None ->
  q_id (xq q) = id -> xmeth q <> MOptions ->
  eval_rules (gen_auth_rules b) q out st = Served.
Proof. exact rendered_rules_unprotected_served. Qed.
Print Assumptions C18_rendered_rules_unprotected_served.

(* The Cors block in front of the authentication rules either answers the request itself
   (preflight, use-service) or goes on with the authentication state unchanged; it never
   lets a request skip the rules that follow. *)
Theorem C18_rendered_cors_block_flow : forall out q b st,
  xexec out q st (x_cors_rules b) = Cont st \/ xexec out q st (x_cors_rules b) = Stop AnsweredByProxy.
Proof. exact cors_rules_flow. Qed.
Print Assumptions C18_rendered_cors_block_flow.

(* The frontend form { var(req.base) -m str <method> '<key>' }: fail closed when req.base is
   literally the key ... *)
Theorem C18_rendered_frontend_fail_closed_exact : forall lua used0 px u tag keys px' hcfgs exs k,
  process_host lua used0 px PlFrontend (Some (u, tag)) keys = (px', hcfgs) -> In k keys ->
  exists a, In (k, Some a) hcfgs /\
    forall out st q, q_path (xq q) = k -> q_exact (xq q) = true ->
      eval_rules (gen_frontend_rules exs hcfgs) q out st = Served ->
      a_deny a = false /\ exists n, a_name a = Some n /\ out n = OOk.
Proof. exact rendered_frontend_fail_closed_exact. Qed.
Print Assumptions C18_rendered_frontend_fail_closed_exact.

(* ... and refuted without that hypothesis: a request routed to the path whose req.base is
   not the key is Served although the service answers non-2xx (known finding
   C18/frontend-rule-exact-match-only). *)
Theorem C18_rendered_frontend_refuted :
  exists lua used0 px u tag keys k q,
    In k keys /\ q_path (xq q) = k /\
    eval_rules (gen_frontend_rules [] (snd (process_host lua used0 px PlFrontend (Some (u, tag)) keys)))
      q (fun _ => ONon2xx) false = Served.
Proof. exact rendered_frontend_refuted. Qed.
Print Assumptions C18_rendered_frontend_refuted.

(* txn.pathID is not an input any more: it is what the idpath maps of the backend answer
   for the key of the host path (`derive_id`, 0 = unset).  With maps that have an entry
   for every path of the backend (`ids_cover`, CHECKED on the real map files of every
   correspondence case) the derived id is the id of the path ... *)
Theorem C18_pathid_total : forall m ds, ids_cover m ds -> NoDup (map fst m) ->
  forall d, In d ds -> derive_id m (d_key d) = d_id d.
Proof. exact pathid_total. Qed.
Print Assumptions C18_pathid_total.

(* ... so the rendered rules are fail closed for the request as HAProxy sees it *)
Theorem C18_rendered_rules_fail_closed_mapped : forall lua fe used0 px ds px' cfgs crs exs m d,
  process_backend lua fe used0 px ds = (px', cfgs) -> In d ds ->
  backend_in_charge fe d = true ->
  ids_cover m ds -> NoDup (map fst m) ->
  exists a, In (d_id d, a) cfgs /\
    forall out st q, q_path (xq q) = d_key d -> q_id (xq q) = derive_id m (q_path (xq q)) ->
      skip_free a (xq q) ->
      eval_rules (gen_auth_rules {| b_auth := cfgs; b_cors := crs; b_extra := exs |}) q out st = Served ->
      a_deny a = false /\ exists n, a_name a = Some n /\ out n = OOk.
Proof. exact rendered_rules_fail_closed_mapped. Qed.
Print Assumptions C18_rendered_rules_fail_closed_mapped.

(* ... and without the premise it is false: a path without map entry is served whatever
   its authentication service answers *)
Theorem C18_pathid_missing_refuted :
  exists ds cfgs m d q,
    snd (process_backend true (fun _ => false) [] px_default ds) = cfgs /\
    In d ds /\ backend_in_charge (fun _ => false) d = true /\ ~ ids_cover m ds /\
    q_path (xq q) = d_key d /\ q_id (xq q) = derive_id m (q_path (xq q)) /\
    eval_rules (gen_auth_rules {| b_auth := cfgs; b_cors := []; b_extra := [] |}) q (fun _ => OUnreachable) false = Served.
Proof. exact pathid_missing_refuted. Qed.
Print Assumptions C18_pathid_missing_refuted.
