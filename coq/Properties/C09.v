(* C09 — Cross-namespace isolation: foreign Secrets/Services cannot influence a config.
   Statements only; every proof is one `exact`. Model: Model/XNs.v (buildResourceName,
   getContentProtocol, the five getters of the cache facade, buildGlobalDynamic, and the
   reference sites of the ingress converter with the userlist cache), as the code is
   after the C09 fix commits. *)
From Coq Require Import String Ascii List Bool NArith.
From HI Require Import Lib.XNs_Strs Model.XNs Proofs.XNs.
Import ListNotations.
Open Scope string_scope.

(* With a default namespace (the reader's) and the getter's own bit at deny, every
   successful resolution - whatever the reference string: name, ns/name, /name,
   secret://..., malformed - reads an object of the reader's namespace. *)
Theorem C09_deny_is_local : forall d w defns ref ns n,
  defns <> "" ->
  (d_crt d = false -> get_tls d w defns ref = ROk ns n -> ns = defns) /\
  (d_ca d = false -> get_ca d w defns ref = ROk ns n -> ns = defns) /\
  (d_passwd d = false -> get_passwd d w defns ref = ROk ns n -> ns = defns) /\
  (d_svc d = false -> get_service d w defns ref = ROk ns n -> ns = defns).
Proof. exact deny_is_local. Qed.
Print Assumptions C09_deny_is_local.

(* Each of the four keys opens only its own resource kind: a getter's answer does not
   depend on the other three bits (the DH getter depends on none). *)
Theorem C09_bit_separation : forall d d' w defns ref,
  (d_crt d = d_crt d' -> get_tls d w defns ref = get_tls d' w defns ref) /\
  (d_ca d = d_ca d' -> get_ca d w defns ref = get_ca d' w defns ref) /\
  (d_passwd d = d_passwd d' -> get_passwd d w defns ref = get_passwd d' w defns ref) /\
  (d_svc d = d_svc d' -> get_service d w defns ref = get_service d' w defns ref) /\
  get_dh d w defns ref = get_dh d' w defns ref.
Proof. exact bit_separation. Qed.
Print Assumptions C09_bit_separation.

(* The bits, for every string: a key allows iff its value is "allow" in some letter
   case; --allow-cross-namespace (static) overrides the three secret keys only. *)
Theorem C09_global_dynamic_spec : forall static vcrt vca vpasswd vsvc,
  let d := build_global_dynamic static vcrt vca vpasswd vsvc in
  d_crt d = static || ci_match vcrt "allow" /\
  d_ca d = static || ci_match vca "allow" /\
  d_passwd d = static || ci_match vpasswd "allow" /\
  d_svc d = ci_match vsvc "allow".
Proof. exact global_dynamic_spec. Qed.
Print Assumptions C09_global_dynamic_spec.

(* all 2^4 allow/deny settings x the command-line flag *)
Theorem C09_global_dynamic_table : forall static b1 b2 b3 b4,
  build_global_dynamic static (word b1) (word b2) (word b3) (word b4) =
  {| d_crt := static || b1; d_ca := static || b2; d_passwd := static || b3; d_svc := b4 |}.
Proof. exact global_dynamic_table. Qed.
Print Assumptions C09_global_dynamic_table.

(* an invalid value (not "allow" in any letter case; the absent key reads "") is deny *)
Theorem C09_invalid_is_deny : forall v, ci_match v "allow" = false ->
  forall v1 v2 v3, d_svc (build_global_dynamic false v1 v2 v3 v) = false /\
                   d_crt (build_global_dynamic false v v1 v2 v3) = false /\
                   d_ca (build_global_dynamic false v1 v v2 v3) = false /\
                   d_passwd (build_global_dynamic false v1 v2 v v3) = false.
Proof. exact invalid_is_deny. Qed.
Print Assumptions C09_invalid_is_deny.

(* Non-interference. Two clusters that hold the same secrets, services, backends and
   files outside namespace B; all four keys at deny; any list of reference sites, in
   any order, from any namespaces (B's own ingresses included), every site carried by
   an object of a well formed namespace (wf_site). Then every site whose reader is not
   in B resolves to the same thing in both clusters: what the converter writes for
   the other namespaces is what it would write if B's objects did not exist. The
   sites are tls secretName, auth-tls-secret, secure-crt-secret,
   secure-verify-ca-secret, auth-secret (with the reuse of userlists by name),
   auth-url svc://, the Service lookup of every backend the ingress converter builds
   (auth-url pre-build included), and the Gateway API backendRefs of HTTPRoute/TCPRoute
   and certificateRefs of Gateway listeners. *)
Theorem C09_noninterference : forall B d w1 w2 sites,
  all_deny d -> agree_outside B w1 w2 -> Forall wf_site sites ->
  forall i s, nth_error sites i = Some s -> outside B s ->
  nth_error (resolve_all d w1 [] sites) i = nth_error (resolve_all d w2 [] sites) i.
Proof. exact noninterference. Qed.
Print Assumptions C09_noninterference.
