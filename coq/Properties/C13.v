(* C13 — Rate limits hold: reloads and reconciliations keep min spacing, none is dropped.
   Statements only; every proof is one `exact`.
   Time is Z nanoseconds. `grants f last nows` are the instants now + When() handed to
   client-go's AddAfter for calls of the limiter at the instants `nows`, starting from
   the limiter state `last`; `last_after f last pre` is the limiter's `last` after the calls
   `pre` (= the latest grant, C13_last_is_latest_grant). No hypothesis on `nows` is needed:
   in particular they hold for all non-decreasing arrival sequences. *)
From Coq Require Import ZArith List.
From HI Require Import Model.Limiter Model.Queue Proofs.Limiter Proofs.Queue.
Import ListNotations.
Open Scope Z_scope.

(* ---- ingress reconciler limiter: delta = 1/--rate-limit-update, wait = --wait-before-update ---- *)

(* two granted instants are the same instant (coalesced) or at least delta apart ... *)
Theorem C13_reconciler_grants_spaced : forall delta wait, 0 <= wait -> 0 <= delta ->
  forall last nows i j gi gj, (i < j)%nat ->
  nth_error (grants (reconciler_when delta wait) last nows) i = Some gi ->
  nth_error (grants (reconciler_when delta wait) last nows) j = Some gj ->
  gi = gj \/ gi + delta <= gj.
Proof. exact grants_spaced. Qed.
Print Assumptions C13_reconciler_grants_spaced.

(* ... also with respect to the run granted before the sequence started *)
Theorem C13_reconciler_grants_spaced_from_initial : forall delta wait, 0 <= wait -> 0 <= delta ->
  forall last nows g, In g (grants (reconciler_when delta wait) last nows) ->
  g = last \/ last + delta <= g.
Proof. exact grants_spaced_from_initial. Qed.
Print Assumptions C13_reconciler_grants_spaced_from_initial.

(* the values taken by the limiter's `last` are exactly the granted instants *)
Theorem C13_last_is_grant : forall delta wait last nows,
  map snd (run_when (reconciler_when delta wait) last nows) = grants (reconciler_when delta wait) last nows.
Proof. exact run_when_last_is_grant. Qed.
Print Assumptions C13_last_is_grant.

Theorem C13_last_is_latest_grant : forall delta wait last pre,
  last_after (reconciler_when delta wait) last pre
  = List.last (grants (reconciler_when delta wait) last pre) last.
Proof. exact last_after_grants. Qed.
Print Assumptions C13_last_is_latest_grant.

(* a notification at t arriving while the latest grant is still ahead receives that same instant *)
Theorem C13_reconciler_coalesce : forall delta wait last pre t post,
  t < last_after (reconciler_when delta wait) last pre ->
  nth_error (grants (reconciler_when delta wait) last (pre ++ t :: post)) (length pre)
  = Some (last_after (reconciler_when delta wait) last pre).
Proof. exact coalesce. Qed.
Print Assumptions C13_reconciler_coalesce.

(* a notification at t is granted an instant within [t, max (t + wait) (latest grant + delta)] *)
Theorem C13_reconciler_bounded_wait : forall delta wait, 0 <= wait -> 0 <= delta ->
  forall last pre t post g,
  nth_error (grants (reconciler_when delta wait) last (pre ++ t :: post)) (length pre) = Some g ->
  t <= g <= Z.max (t + wait) (last_after (reconciler_when delta wait) last pre + delta).
Proof. exact bounded_wait. Qed.
Print Assumptions C13_reconciler_bounded_wait.

(* ---- reload limiter (as repaired): interval = --reload-interval ---- *)

Theorem C13_reload_is_reconciler_without_wait : forall interval last now,
  reload_when interval last now = reconciler_when interval 0 last now.
Proof. exact reload_is_reconciler. Qed.
Print Assumptions C13_reload_is_reconciler_without_wait.

Theorem C13_reload_grants_spaced : forall interval, 0 <= interval ->
  forall last nows i j gi gj, (i < j)%nat ->
  nth_error (grants (reload_when interval) last nows) i = Some gi ->
  nth_error (grants (reload_when interval) last nows) j = Some gj ->
  gi = gj \/ gi + interval <= gj.
Proof. exact reload_grants_spaced. Qed.
Print Assumptions C13_reload_grants_spaced.

Theorem C13_reload_grants_spaced_from_initial : forall interval, 0 <= interval ->
  forall last nows g, In g (grants (reload_when interval) last nows) ->
  g = last \/ last + interval <= g.
Proof. exact reload_grants_spaced_from_initial. Qed.
Print Assumptions C13_reload_grants_spaced_from_initial.

Theorem C13_reload_coalesce : forall interval last pre t post,
  t < last_after (reload_when interval) last pre ->
  nth_error (grants (reload_when interval) last (pre ++ t :: post)) (length pre)
  = Some (last_after (reload_when interval) last pre).
Proof. exact reload_coalesce. Qed.
Print Assumptions C13_reload_coalesce.

Theorem C13_reload_bounded_wait : forall interval, 0 <= interval ->
  forall last pre t post g,
  nth_error (grants (reload_when interval) last (pre ++ t :: post)) (length pre) = Some g ->
  t <= g <= Z.max t (last_after (reload_when interval) last pre + interval).
Proof. exact reload_bounded_wait. Qed.
Print Assumptions C13_reload_bounded_wait.

(* the code before the repair did not have the spacing property (interval 400: 0, 40, 420
   -> reloads granted at 400 and 420) *)
Theorem C13_reload_before_repair_spacing_refuted :
  exists interval last nows g1 g2,
    0 < interval /\ nth_error (v0_grants interval last nows) 1 = Some g1 /\
    nth_error (v0_grants interval last nows) 2 = Some g2 /\ g1 <> g2 /\ g2 < g1 + interval.
Proof. exact reload_v0_spacing_refuted. Qed.
Print Assumptions C13_reload_before_repair_spacing_refuted.

(* ---- the client-go queue with one worker, zero scheduling latency, callbacks of at most
        D < delta (Model/Queue.v). `tr` is any history accepted by the model: all
        interleavings of requests, timers, hand-overs and callback returns; the log is
        newest first. `Arrive i` is ANY request that goes through the limiter
        (AddRateLimited): a watcher notification, the full sync asked by leaderChanged when
        the leadership is acquired, the re-queue of a failed callback; the statements quantify
        over all of them alike, and Corr_C13 ties each source of the real controller to it.
        `Retry i d` is a direct AddAfter(i, d), which the controller uses only to retry after a
        failure (ReloadRetry): `no_retry tr` excludes it from the spacing statements, as the
        property documents; C13_queue_never_drops covers it. `Forget i` is the call of the
        limiter's Forget that the worker makes after every successful callback (Get ->
        callback -> Forget or AddRateLimited -> Done): the histories below contain them at any
        place, and both limiters leave `last` alone (C13_forget_keeps_last; the correspondence
        compares `last` after every When and every Forget). One kind of item: ---- *)

Theorem C13_forget_keeps_last : forall last now,
  reload_forget last now = last /\ reconciler_forget last now = last.
Proof. exact (fun last now => conj eq_refl eq_refl). Qed.
Print Assumptions C13_forget_keeps_last.


Theorem C13_queue_runs_under_single_kind : forall delta wait D,
  0 < delta -> 0 <= wait -> 0 <= D -> D < delta ->
  forall i0 last0 t0 tr st,
  arrives_only i0 tr -> no_retry tr ->
  qexec (reconciler_when delta wait) D (q_init last0 t0) tr = Some st ->
  (* every hand-over to the callback happens at the instant granted to an earlier notification *)
  (forall post i s pre, q_log st = post ++ ORun i s :: pre -> exists t, In (OArrive i t s) pre) /\
  (* two hand-overs are at least delta apart *)
  (forall l3 i s2 l2 j s1 l1, q_log st = l3 ++ ORun i s2 :: l2 ++ ORun j s1 :: l1 -> s1 + delta <= s2) /\
  (* no notification is dropped: it is followed by a hand-over no later than its grant, or that
     instant is not past and the item is waiting for it or queued *)
  (forall post i t g pre, q_log st = post ++ OArrive i t g :: pre ->
     (exists s, In (ORun i s) post /\ t <= s <= g) \/ (q_now st <= g /\ pending_by i g st)).
Proof. exact queue_single_kind. Qed.
Print Assumptions C13_queue_runs_under_single_kind.

Theorem C13_queue_served_once_grant_is_past : forall delta wait D,
  0 < delta -> 0 <= wait -> 0 <= D -> D < delta ->
  forall i0 last0 t0 tr st post i t g pre,
  arrives_only i0 tr -> no_retry tr ->
  qexec (reconciler_when delta wait) D (q_init last0 t0) tr = Some st ->
  q_log st = post ++ OArrive i t g :: pre -> g < q_now st ->
  exists s, In (ORun i s) post /\ t <= s <= g.
Proof. exact queue_single_kind_served. Qed.
Print Assumptions C13_queue_served_once_grant_is_past.

(* the reload queue carries one item (nil): the same three statements *)
Theorem C13_reload_queue_runs : forall interval D, 0 < interval -> 0 <= D -> D < interval ->
  forall i0 last0 t0 tr st,
  arrives_only i0 tr -> no_retry tr ->
  qexec (reload_when interval) D (q_init last0 t0) tr = Some st ->
  (forall post i s pre, q_log st = post ++ ORun i s :: pre -> exists t, In (OArrive i t s) pre) /\
  (forall l3 i s2 l2 j s1 l1, q_log st = l3 ++ ORun i s2 :: l2 ++ ORun j s1 :: l1 -> s1 + interval <= s2) /\
  (forall post i t g pre, q_log st = post ++ OArrive i t g :: pre ->
     (exists s, In (ORun i s) post /\ t <= s <= g) \/ (q_now st <= g /\ pending_by i g st)).
Proof. exact queue_reload. Qed.
Print Assumptions C13_reload_queue_runs.

(* Any limiter, any number of kinds, any callback durations: no notification is dropped. It is
   followed by a hand-over of its item, or the item still waits for its timer or is marked
   dirty; and a dirty item is in the queue or is put back when the running callback returns. *)
Theorem C13_queue_never_drops : forall f D last0 t0 tr st,
  qexec f D (q_init last0 t0) tr = Some st ->
  (forall post i t g pre, q_log st = post ++ OArrive i t g :: pre ->
     (exists s, In (ORun i s) post) \/ on_its_way i st) /\
  (forall i, mem i (q_dirty st) = true -> In i (q_fifo st) \/ processing i st = true).
Proof. exact queue_never_drops. Qed.
Print Assumptions C13_queue_never_drops.

(* Without the single-kind hypothesis the spacing of the hand-overs of one kind is false of the
   model: the reconciler queue carries two kinds (partial / full sync) on one worker, and the kind
   handed over second at a shared instant g starts at g + d, only delta - d before its next grant. *)
Theorem C13_queue_runs_spaced_refuted :
  exists delta wait D last0 t0 tr st l3 i s2 l2 s1 l1,
    0 < delta /\ 0 <= wait /\ 0 <= D < delta /\
    qexec (reconciler_when delta wait) D (q_init last0 t0) tr = Some st /\
    q_log st = l3 ++ ORun i s2 :: l2 ++ ORun i s1 :: l1 /\ s2 < s1 + delta.
Proof. exact queue_two_kinds_spacing_refuted. Qed.
Print Assumptions C13_queue_runs_spaced_refuted.
