(* C01 — incremental (partial) resync converges to the same configuration as a full sync.
   Statements only. See DESIGN.md (C01) for what is proved in full and what is proved
   under explicitly listed premises. *)
From Coq Require Import List Bool String Relations.
From HI Require Import Model.Tracker Model.Conv Proofs.Tracker Proofs.IncSync Proofs.Conv.
Import ListNotations.

(* 1. QueryLinks(changed, remove) on a symmetric tracker returns exactly the references
      reachable by at least one link from the changed ones, removes exactly the links that
      have an end in that set, and every changed reference that has a link is returned. *)
Theorem C01_query_links_component :
  forall (node : Type) (eqb : node -> node -> bool),
    (forall a b, reflect (a = b) (eqb a b)) ->
  forall (T : tracker node) (input out : list node) (T' : tracker node),
    symmetric node T ->
    query_remove eqb T input = Some (out, T') ->
    (forall m, In m out <-> reach node T input m) /\
    (forall a b, In (a, b) T' <-> In (a, b) T /\ ~ reach node T input a) /\
    (forall n, In n input -> (exists m, edge node T n m) -> In n out).
Proof. exact query_remove_component. Qed.
Print Assumptions C01_query_links_component.

(* the walk never gives up *)
Theorem C01_query_links_total :
  forall (node : Type) (eqb : node -> node -> bool),
    (forall a b, reflect (a = b) (eqb a b)) ->
  forall (T : tracker node) (input : list node), query_links eqb T input <> None.
Proof. exact query_links_total. Qed.
Print Assumptions C01_query_links_total.

(* 2. One partial step, for any system of sources that are state transformers with a
      footprint (frame + locality): removing the dirty targets X from a state that equals
      the full sync of the old world and re-running the dirty sources of the new world, in
      order, yields the full sync of the new world -- provided
        (K)      the clean sources are the same, in the same order, in both worlds,
        (same)   run alone they build the same state in both worlds,
        (cleanX) no clean source had touched a dirty target,
        (dirtyX) everything an old dirty source had touched is dirty,
        (cover)  what a dirty source touches in the new world no clean source touches. *)
Theorem C01_partial_step :
  forall (world src tgt content : Type)
         (run : world -> src -> (tgt -> option content) -> tgt -> option content)
         (fp : world -> src -> tgt -> bool),
    (forall w i s t, fp w i t = false -> run w i s t = s t) ->
    (forall w i s1 s2, (forall t, fp w i t = true -> s1 t = s2 t) ->
                       forall t, fp w i t = true -> run w i s1 t = run w i s2 t) ->
  forall (w w' : world) (ord ord' : list src) (dirty : src -> bool) (X : tgt -> bool),
    filter (fun i => negb (dirty i)) ord = filter (fun i => negb (dirty i)) ord' ->
    seq tgt content (runs world src tgt content run w (filter (fun i => negb (dirty i)) ord) (empty tgt content))
                    (runs world src tgt content run w' (filter (fun i => negb (dirty i)) ord) (empty tgt content)) ->
    (forall k, In k ord -> dirty k = false -> forall t, fp w k t = true -> X t = false) ->
    (forall d, In d ord -> dirty d = true -> forall t, fp w d t = true -> X t = true) ->
    (forall d k, In d ord' -> In k ord' -> dirty d = true -> dirty k = false ->
       forall t, fp w' d t = true -> fp w' k t = false) ->
  forall s, seq tgt content s (full world src tgt content run w ord) ->
    seq tgt content (partial world src tgt content run w' (filter dirty ord') X s)
                    (full world src tgt content run w' ord').
Proof. exact partial_step. Qed.
Print Assumptions C01_partial_step.

(* 3. Every finite history of full and partial reconciliations whose partial steps meet
      the conditions ends in the full sync of the last world. *)
Theorem C01_partial_history :
  forall (world src tgt content : Type)
         (run : world -> src -> (tgt -> option content) -> tgt -> option content)
         (fp : world -> src -> tgt -> bool),
    (forall w i s t, fp w i t = false -> run w i s t = s t) ->
    (forall w i s1 s2, (forall t, fp w i t = true -> s1 t = s2 t) ->
                       forall t, fp w i t = true -> run w i s1 t = run w i s2 t) ->
  forall (h : list (step world src tgt)) (w : world) (ord : list src) (s : tgt -> option content),
    seq tgt content s (full world src tgt content run w ord) ->
    history_ok world src tgt content run fp w ord h ->
    seq tgt content (fold_left (apply_step world src tgt content run) h s)
        (full world src tgt content run (fst (last_world world src tgt w ord h))
                                        (snd (last_world world src tgt w ord h))).
Proof. exact partial_history. Qed.
Print Assumptions C01_partial_history.

(* 4. The conditions (cleanX), (dirtyX), (cover) follow from what the tracker guarantees:
      C is closed under the (symmetric) links, footprints of old sources are linked, and
      the new footprint of a dirty source is linked (old link or trackAddedIngress) or is
      touched by no clean source. *)
Theorem C01_conditions_from_tracker :
  forall (world src tgt : Type) (fp : world -> src -> tgt -> bool)
         (w w' : world) (ord ord' : list src) (node : Type) (edge : node -> node -> Prop)
         (nS : src -> node) (nT : tgt -> node) (C : node -> Prop)
         (dirty : src -> bool) (X : tgt -> bool),
    (forall a b, edge a b -> edge b a) ->
    (forall a b, C a -> edge a b -> C b) ->
    (forall t, X t = true <-> C (nT t)) ->
    (forall i, In i ord -> dirty i = true -> C (nS i) \/ (forall t, fp w i t = false)) ->
    (forall i, In i ord -> dirty i = false -> ~ C (nS i)) ->
    (forall i t, In i ord -> fp w i t = true -> edge (nS i) (nT t)) ->
    (forall k, In k ord' -> dirty k = false -> In k ord /\ (forall t, fp w' k t = fp w k t)) ->
    (forall d t, In d ord' -> dirty d = true -> fp w' d t = true ->
       (C (nS d) /\ edge (nS d) (nT t)) \/ (forall k, In k ord' -> dirty k = false -> fp w' k t = false)) ->
    (forall d, In d ord -> dirty d = true -> forall t, fp w d t = true -> X t = true) /\
    (forall k, In k ord -> dirty k = false -> forall t, fp w k t = true -> X t = false) /\
    (forall d k, In d ord' -> In k ord' -> dirty d = true -> dirty k = false ->
       forall t, fp w' d t = true -> fp w' k t = false).
Proof. exact tracker_conditions. Qed.
Print Assumptions C01_conditions_from_tracker.

(* 5. The model of syncIngress meets the two obligations of the generic theorem at hosts
      level: what it does to a host depends on that host only, and a host the ingress does
      not declare is left alone. *)
Theorem C01_sync_ingress_local : forall w i x1 x2 h,
  fst x1 (THost h) = fst x2 (THost h) ->
  fst (sync_ingress w x1 i) (THost h) = fst (sync_ingress w x2 i) (THost h).
Proof. exact sync_ingress_agree. Qed.
Print Assumptions C01_sync_ingress_local.

Theorem C01_sync_ingress_frame : forall w i x h,
  declares i h = false -> fst (sync_ingress w x i) (THost h) = fst x (THost h).
Proof. exact sync_ingress_frame. Qed.
Print Assumptions C01_sync_ingress_frame.

(* 6. Hence for the model of syncPartial: if the hosts equal those of a full sync of the
      old cluster, then after the partial sync they equal those of a full sync of the new
      cluster, under the listed conditions on the batch (partial: the conditions are
      premises here; items 1 and 4 show how the tracker yields them; backends are covered by
      the correspondence and the differential oracle only). *)
Theorem C01_sync_partial_hosts_under_H :
  forall (w w' : world) (s : cstate) (T : ctracker) (b : batch)
         (dirty : ingress -> bool) (s' : cstate) (T' : ctracker) (out : list node) (T2 : ctracker),
  let ord := sort_ings (w_ings w) in
  let ord' := sort_ings (w_ings w') in
  let T1 := fold_left (track_added_ing w' s) (b_add b ++ b_upd b) T in
  query_remove node_eqb T1 (b_links b) = Some (out, T2) ->
  sync_partial w' (s, T) b = Some (s', T') ->
  sort_ings (flat_map (fun n => opt_list (pick_ing w' b n)) (merge_names (names_of KIngress out) b))
    = filter dirty ord' ->
  filter (fun i => negb (dirty i)) ord = filter (fun i => negb (dirty i)) ord' ->
  seq tgt content
      (runs world ingress tgt content hrun w (filter (fun i => negb (dirty i)) ord) (empty tgt content))
      (runs world ingress tgt content hrun w' (filter (fun i => negb (dirty i)) ord) (empty tgt content)) ->
  (forall k, In k ord -> dirty k = false -> forall t, hfp w k t = true -> Xof out t = false) ->
  (forall d, In d ord -> dirty d = true -> forall t, hfp w d t = true -> Xof out t = true) ->
  (forall d k, In d ord' -> In k ord' -> dirty d = true -> dirty k = false ->
     forall t, hfp w' d t = true -> hfp w' k t = false) ->
  hosts_eq s (fst (sync_full w)) ->
  hosts_eq s' (fst (sync_full w')).
Proof. exact sync_partial_hosts. Qed.
Print Assumptions C01_sync_partial_hosts_under_H.
