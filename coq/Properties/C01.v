(* C01 — incremental (partial) resync converges to the same configuration as a full sync.
   Statements only. See DESIGN.md (C01) for what is proved in full and what is proved
   under explicitly listed premises. *)
From Coq Require Import List Bool String Relations ZArith.
From HI Require Import Model.Tracker Model.Conv Proofs.Tracker Proofs.IncSync Proofs.Conv.
From HI Require Import Model.ConvDB Proofs.ConvSort Proofs.ConvHist_base Proofs.ConvHist_keys Proofs.ConvHist_sim
                       Proofs.ConvBack Proofs.ConvHist Proofs.ConvDB_base Proofs.ConvDB Proofs.ConvDB_hist Proofs.ConvDB_multi.
From HI Require Import Model.ConvOrch Proofs.ConvOrch Proofs.ConvOrch_multi.
From HI Require Import Model.ConvAnn Proofs.ConvAnn Proofs.ConvAnn_hist Proofs.ConvAnn_back Proofs.ConvAnn_step Proofs.ConvAnn_multi.
Import ListNotations.

(* 1. QueryLinks(changed, remove) on a symmetric tracker returns exactly the references
      reachable by at least one link from the changed ones, removes exactly the links that
      have an end in that set, and every changed reference that has a link is returned. *)
Theorem C01_query_links_component :
  forall (node : Type) (eqb : node -> node -> bool),
    (forall a b, reflect (a = b) (eqb a b)) ->
  forall (T : tracker node) (input out : list node) (T' : tracker node),
    symmetric node T ->
    query_remove eqb T input = Some (out, T') ->
    (forall m, In m out <-> reach node T input m) /\
    (forall a b, In (a, b) T' <-> In (a, b) T /\ ~ reach node T input a) /\
    (forall n, In n input -> (exists m, edge node T n m) -> In n out).
Proof. exact query_remove_component. Qed.
Print Assumptions C01_query_links_component.

(* the walk never gives up *)
Theorem C01_query_links_total :
  forall (node : Type) (eqb : node -> node -> bool),
    (forall a b, reflect (a = b) (eqb a b)) ->
  forall (T : tracker node) (input : list node), query_links eqb T input <> None.
Proof. exact query_links_total. Qed.
Print Assumptions C01_query_links_total.

(* 2. One partial step, for any system of sources that are state transformers with a
      footprint (frame + locality): removing the dirty targets X from a state that equals
      the full sync of the old world and re-running the dirty sources of the new world, in
      order, yields the full sync of the new world -- provided
        (K)      the clean sources are the same, in the same order, in both worlds,
        (same)   run alone they build the same state in both worlds,
        (cleanX) no clean source had touched a dirty target,
        (dirtyX) everything an old dirty source had touched is dirty,
        (cover)  what a dirty source touches in the new world no clean source touches. *)
Theorem C01_partial_step :
  forall (world src tgt content : Type)
         (run : world -> src -> (tgt -> option content) -> tgt -> option content)
         (fp : world -> src -> tgt -> bool),
    (forall w i s t, fp w i t = false -> run w i s t = s t) ->
    (forall w i s1 s2, (forall t, fp w i t = true -> s1 t = s2 t) ->
                       forall t, fp w i t = true -> run w i s1 t = run w i s2 t) ->
  forall (w w' : world) (ord ord' : list src) (dirty : src -> bool) (X : tgt -> bool),
    filter (fun i => negb (dirty i)) ord = filter (fun i => negb (dirty i)) ord' ->
    seq tgt content (runs world src tgt content run w (filter (fun i => negb (dirty i)) ord) (empty tgt content))
                    (runs world src tgt content run w' (filter (fun i => negb (dirty i)) ord) (empty tgt content)) ->
    (forall k, In k ord -> dirty k = false -> forall t, fp w k t = true -> X t = false) ->
    (forall d, In d ord -> dirty d = true -> forall t, fp w d t = true -> X t = true) ->
    (forall d k, In d ord' -> In k ord' -> dirty d = true -> dirty k = false ->
       forall t, fp w' d t = true -> fp w' k t = false) ->
  forall s, seq tgt content s (full world src tgt content run w ord) ->
    seq tgt content (partial world src tgt content run w' (filter dirty ord') X s)
                    (full world src tgt content run w' ord').
Proof. exact partial_step. Qed.
Print Assumptions C01_partial_step.

(* 3. Every finite history of full and partial reconciliations whose partial steps meet
      the conditions ends in the full sync of the last world. *)
Theorem C01_partial_history :
  forall (world src tgt content : Type)
         (run : world -> src -> (tgt -> option content) -> tgt -> option content)
         (fp : world -> src -> tgt -> bool),
    (forall w i s t, fp w i t = false -> run w i s t = s t) ->
    (forall w i s1 s2, (forall t, fp w i t = true -> s1 t = s2 t) ->
                       forall t, fp w i t = true -> run w i s1 t = run w i s2 t) ->
  forall (h : list (step world src tgt)) (w : world) (ord : list src) (s : tgt -> option content),
    seq tgt content s (full world src tgt content run w ord) ->
    history_ok world src tgt content run fp w ord h ->
    seq tgt content (fold_left (apply_step world src tgt content run) h s)
        (full world src tgt content run (fst (last_world world src tgt w ord h))
                                        (snd (last_world world src tgt w ord h))).
Proof. exact partial_history. Qed.
Print Assumptions C01_partial_history.

(* 4. The conditions (cleanX), (dirtyX), (cover) follow from what the tracker guarantees:
      C is closed under the (symmetric) links, footprints of old sources are linked, and
      the new footprint of a dirty source is linked (old link or trackAddedIngress) or is
      touched by no clean source. *)
Theorem C01_conditions_from_tracker :
  forall (world src tgt : Type) (fp : world -> src -> tgt -> bool)
         (w w' : world) (ord ord' : list src) (node : Type) (edge : node -> node -> Prop)
         (nS : src -> node) (nT : tgt -> node) (C : node -> Prop)
         (dirty : src -> bool) (X : tgt -> bool),
    (forall a b, edge a b -> edge b a) ->
    (forall a b, C a -> edge a b -> C b) ->
    (forall t, X t = true <-> C (nT t)) ->
    (forall i, In i ord -> dirty i = true -> C (nS i) \/ (forall t, fp w i t = false)) ->
    (forall i, In i ord -> dirty i = false -> ~ C (nS i)) ->
    (forall i t, In i ord -> fp w i t = true -> edge (nS i) (nT t)) ->
    (forall k, In k ord' -> dirty k = false -> In k ord /\ (forall t, fp w' k t = fp w k t)) ->
    (forall d t, In d ord' -> dirty d = true -> fp w' d t = true ->
       (C (nS d) /\ edge (nS d) (nT t)) \/ (forall k, In k ord' -> dirty k = false -> fp w' k t = false)) ->
    (forall d, In d ord -> dirty d = true -> forall t, fp w d t = true -> X t = true) /\
    (forall k, In k ord -> dirty k = false -> forall t, fp w k t = true -> X t = false) /\
    (forall d k, In d ord' -> In k ord' -> dirty d = true -> dirty k = false ->
       forall t, fp w' d t = true -> fp w' k t = false).
Proof. exact tracker_conditions. Qed.
Print Assumptions C01_conditions_from_tracker.

(* 5. The model of syncIngress meets the two obligations of the generic theorem at hosts
      level: what it does to a host depends on that host only, and a host the ingress does
      not declare is left alone. *)
Theorem C01_sync_ingress_local : forall w i x1 x2 h,
  fst x1 (THost h) = fst x2 (THost h) ->
  fst (sync_ingress w x1 i) (THost h) = fst (sync_ingress w x2 i) (THost h).
Proof. exact sync_ingress_agree. Qed.
Print Assumptions C01_sync_ingress_local.

Theorem C01_sync_ingress_frame : forall w i x h,
  declares i h = false -> fst (sync_ingress w x i) (THost h) = fst x (THost h).
Proof. exact sync_ingress_frame. Qed.
Print Assumptions C01_sync_ingress_frame.

(* 6. Hence for the model of syncPartial: if the hosts equal those of a full sync of the
      old cluster, then after the partial sync they equal those of a full sync of the new
      cluster, under the listed conditions on the batch (partial: the conditions are
      premises here; items 1 and 4 show how the tracker yields them; backends are covered by
      the correspondence and the differential oracle only). *)
Theorem C01_sync_partial_hosts_under_H :
  forall (w w' : world) (s : cstate) (T : ctracker) (b : batch)
         (dirty : ingress -> bool) (s' : cstate) (T' : ctracker) (out : list node) (T2 : ctracker),
  let ord := sort_ings (w_ings w) in
  let ord' := sort_ings (w_ings w') in
  let T1 := fold_left (track_added_ing w' s) (b_add b ++ b_upd b) T in
  query_remove node_eqb T1 (b_links b) = Some (out, T2) ->
  sync_partial w' (s, T) b = Some (s', T') ->
  sort_ings (flat_map (fun n => opt_list (pick_ing w' b n)) (merge_names (names_of KIngress out) b))
    = filter dirty ord' ->
  filter (fun i => negb (dirty i)) ord = filter (fun i => negb (dirty i)) ord' ->
  seq tgt content
      (runs world ingress tgt content hrun w (filter (fun i => negb (dirty i)) ord) (empty tgt content))
      (runs world ingress tgt content hrun w' (filter (fun i => negb (dirty i)) ord) (empty tgt content)) ->
  (forall k, In k ord -> dirty k = false -> forall t, hfp w k t = true -> Xof out t = false) ->
  (forall d, In d ord -> dirty d = true -> forall t, hfp w d t = true -> Xof out t = true) ->
  (forall d k, In d ord' -> In k ord' -> dirty d = true -> dirty k = false ->
     forall t, hfp w' d t = true -> hfp w' k t = false) ->
  hosts_eq s (fst (sync_full w)) ->
  hosts_eq s' (fst (sync_full w')).
Proof. exact sync_partial_hosts. Qed.
Print Assumptions C01_sync_partial_hosts_under_H.

(* ================================================================== *)
(* 7. spec.defaultBackend (Model/ConvDB.v = Model/Conv.v + the default backend of an      *)
(*    Ingress, following addDefaultHostBackend / trackAddedIngress / syncPartial)          *)
(* ================================================================== *)

(* 7a. ConvDB is conservative: on clusters and batches without default backends it computes
       what Conv computes, for the full and for the partial sync; so every theorem of
       Properties/C01_model.v holds of ConvDB on such histories (two of them restated). *)
Theorem C01_convdb_conservative :
  (forall w, sync_full_d (lift_world w) = sync_full w) /\
  (forall w' x b, sync_partial_d (lift_world w') x (lift_batch b) = sync_partial w' x b).
Proof. exact (conj sync_full_d_lift sync_partial_d_lift). Qed.
Print Assumptions C01_convdb_conservative.

Theorem C01_convdb_history_general_lift : forall (w0 : world) (h : list (batch * world)),
  hist_ok_g w0 h ->
  exists x', run_hist_d (sync_full_d (lift_world w0)) (lift_hist h) = Some x' /\
             hosts_eq (fst x') (fst (sync_full_d (last_dw (lift_world w0) (lift_hist h)))).
Proof. exact history_general_lift. Qed.
Print Assumptions C01_convdb_history_general_lift.

Theorem C01_convdb_history_obs_lift : forall (w0 : world) (h : list (batch * world)),
  hist_ok_o w0 h -> back_det (last_w w0 h) ->
  exists x', run_hist_d (sync_full_d (lift_world w0)) (lift_hist h) = Some x' /\
             forall hn, obs_host (fst x') hn
                        = obs_host (fst (sync_full_d (last_dw (lift_world w0) (lift_hist h)))) hn.
Proof. exact history_obs_lift. Qed.
Print Assumptions C01_convdb_history_obs_lift.

(* 7b. The known finding C01/ingress-default-backend-not-pretracked is a behaviour of the
       model: ns1/ing2 owns the root path of the default host through its default backend;
       ns1/ing1, older, is created with a default backend.  The partial sync keeps the path
       on ing2's service, a full sync of the same cluster gives it to ing1.  (The harness
       runs this history on the real code, sees the same divergence, and the correspondence
       checks that the model computes the real incremental state.) *)
Theorem C01_default_backend_refuted :
  exists (c : dworld) (evs : list (dbatch * dworld)),
    obs_d (run_hist_d (sync_full_d c) evs) "<default>"
    <> obs_d (Some (sync_full_d (last_dw c evs))) "<default>".
Proof.
  exists kf_w0, [(kf_b1, kf_w1)]. destruct default_backend_refuted as [H1 H2].
  rewrite H1, H2. discriminate.
Qed.
Print Assumptions C01_default_backend_refuted.

Theorem C01_default_backend_refuted_witness :
  obs_d (run_hist_d (sync_full_d kf_w0) [(kf_b1, kf_w1)]) "<default>"
    = Some (Some ([("/", Begin, [("10.1.0.1", 8080%Z)])], None)) /\
  obs_d (Some (sync_full_d (last_dw kf_w0 [(kf_b1, kf_w1)]))) "<default>"
    = Some (Some ([("/", Begin, [("10.1.0.2", 9090%Z)])], None)) /\
  ~ H_db kf_w1 (sync_full_d kf_w0) kf_b1.
Proof. exact (conj (proj1 default_backend_refuted) (conj (proj2 default_backend_refuted) known_finding_not_H_db)). Qed.
Print Assumptions C01_default_backend_refuted_witness.

(* 7c. Under H the theorem holds for ConvDB, at the level of the full observation.
       H = H_db w' x b, required of every step (hist_ok_d): whenever the batch adds or updates
       an ingress that carries a default backend, QueryLinks (on the tracker of the state
       plus the links of trackAddedIngress) returns the default host.  It excludes exactly
       the finding (7b violates it); it holds when no added / updated ingress has a default
       backend (H_db_no_db) or when such an ingress also declares the default host in a
       rule or tls block (H_db_declared).  The other premises are those of
       C01_model_history_obs: well formed batches (several events per object allowed) that
       name the changed Services, Endpoints and Secrets; back_det of the last cluster. *)
Theorem C01_default_backend_under_H : forall (w0 : dworld) (h : list (dbatch * dworld)),
  hist_ok_d w0 (sync_full_d w0) h -> back_det (base (last_dw w0 h)) ->
  exists x', run_hist_d (sync_full_d w0) h = Some x' /\
             forall hn, obs_host (fst x') hn = obs_host (fst (sync_full_d (last_dw w0 h))) hn.
Proof. exact model_history_d_obs. Qed.
Print Assumptions C01_default_backend_under_H.

(* one step: the invariant is re-established *)
Theorem C01_default_backend_step_under_H : forall (w w' : dworld) (x : st) (b : dbatch),
  InvO_d w x -> batch_wf_d w w' b -> batch_links_ok_e (base w) (base w') (base_batch b) -> H_db w' x b ->
  exists x', sync_partial_d w' x b = Some x' /\ InvO_d w' x'.
Proof. exact model_partial_step_d. Qed.
Print Assumptions C01_default_backend_step_under_H.

(* hosts level, without back_det *)
Theorem C01_default_backend_under_H_hosts : forall (w0 : dworld) (h : list (dbatch * dworld)),
  hist_ok_d w0 (sync_full_d w0) h ->
  exists x', run_hist_d (sync_full_d w0) h = Some x' /\
             hosts_eq (fst x') (fst (sync_full_d (last_dw w0 h))).
Proof. exact model_history_d_hosts. Qed.
Print Assumptions C01_default_backend_under_H_hosts.

(* a premise on the batches only: no added / updated ingress carries a default backend
   (ingresses with a default backend may exist, be deleted, lose or win the root path) *)
Theorem C01_default_backend_nodb_batches : forall (w0 : dworld) (h : list (dbatch * dworld)),
  hist_ok_d_nodb w0 h -> back_det (base (last_dw w0 h)) ->
  exists x', run_hist_d (sync_full_d w0) h = Some x' /\
             forall hn, obs_host (fst x') hn = obs_host (fst (sync_full_d (last_dw w0 h))) hn.
Proof. exact model_history_d_nodb_obs. Qed.
Print Assumptions C01_default_backend_nodb_batches.

(* the premises are satisfiable with default backends at work: the owner of the root path is
   deleted and the skipped ingress takes over; then an older ingress with a default backend
   and a rule without host is created and wins *)
Theorem C01_default_backend_under_H_example :
  hist_ok_d hw0 (sync_full_d hw0) dhist /\ back_det (base hw2) /\
  obs_d (run_hist_d (sync_full_d hw0) dhist) "<default>" = obs_d (Some (sync_full_d hw2)) "<default>" /\
  obs_d (Some (sync_full_d hw2)) "<default>"
    = Some (Some ([("/", Begin, [("10.1.0.1", 8080%Z)]); ("/app", Prefix, [("10.1.0.1", 8080%Z)])], None)).
Proof.
  refine (conj (proj1 db_history_ok) (conj (proj2 db_history_ok) _)).
  exact (proj2 (proj2 db_history_eval)).
Qed.
Print Assumptions C01_default_backend_under_H_example.

(* ================================================================== *)
(* 8. Annotations (Model/ConvAnn.v = Model/Conv.v + the annotation mappers of addHost /     *)
(*    addBackendWithClass and the updaters run on the objects created by a sync)            *)
(* ================================================================== *)

(* 8a. ConvAnn is conservative, whatever the annotations: the Conv.v part of its state is the
       state of Conv.v after the same full / partial sync.  So every theorem of
       Properties/C01_model.v holds of the hosts, paths, servers and certificates of ConvAnn
       (two of them restated). *)
Theorem C01_convann_conservative :
  (forall w, fst (sync_full_a w) = sync_full (aw_base w)) /\
  (forall w' x A b, option_map fst (sync_partial_a w' (x, A) b) = sync_partial (aw_base w') x b).
Proof. exact (conj sync_full_a_fst sync_partial_a_fst). Qed.
Print Assumptions C01_convann_conservative.

Theorem C01_convann_history_general : forall (w0 : aworld) (h : list (batch * aworld)),
  hist_ok_g (aw_base w0) (base_hist h) ->
  exists y', run_hist_a (sync_full_a w0) h = Some y' /\
             hosts_eq (fst (fst y')) (fst (fst (sync_full_a (last_aw w0 h)))).
Proof. exact history_general_a. Qed.
Print Assumptions C01_convann_history_general.

Theorem C01_convann_history_obs : forall (w0 : aworld) (h : list (batch * aworld)),
  hist_ok_o (aw_base w0) (base_hist h) -> back_det (aw_base (last_aw w0 h)) ->
  exists y', run_hist_a (sync_full_a w0) h = Some y' /\
             forall hn, obs_host (fst (fst y')) hn = obs_host (fst (fst (sync_full_a (last_aw w0 h)))) hn.
Proof. exact history_obs_a. Qed.
Print Assumptions C01_convann_history_obs.

(* 8b. Host-scoped keys, full strength: for every cluster and every history of well formed
       batches (several events per object; annotation-only updates: ann_ing_ok = an ingress
       whose annotations changed got an event) that name the changed Services, Endpoints and
       Secrets, every host ends with the declarations a full sync gives it. *)
Theorem C01_annotations_history_host_keys : forall (w0 : aworld) (h : list (batch * aworld)),
  hist_ok_ah w0 h ->
  exists y', run_hist_a (sync_full_a w0) h = Some y' /\
             forall hn, obs_hkeys y' hn = obs_hkeys (sync_full_a (last_aw w0 h)) hn.
Proof. exact model_history_a_hostkeys. Qed.
Print Assumptions C01_annotations_history_host_keys.

(* 8c. Backend-scoped keys: C01_annotations_history is FALSE of the faithful model, and of the
       code (finding C01/unskipped-path-acquires-untracked-backend, replayed on the real
       pipeline by the harness).  ns1/ing0 owns a.example /; ns1/ing1 redeclares it towards
       svc1 with backend annotations and is skipped; ns1/ing2 uses svc1 on b.example.  ing0 is
       deleted: ing1 is re-converted and acquires the existing backend, whose mapper of this
       sync is never applied (partialSyncAnnotations only updates the backends it created).
       The batch is a plain single-event batch. *)
Theorem C01_annotations_history_refuted :
  batch_ok (aw_base af_w0) (aw_base af_w1) af_b1 /\
  obs_a (run_hist_a (sync_full_a af_w0) [(af_b1, af_w1)]) "a.example"
    = Some (Some ([], [("/", Prefix, [], None)])) /\
  obs_a (Some (sync_full_a (last_aw af_w0 [(af_b1, af_w1)]))) "a.example"
    = Some (Some ([], [("/", Prefix, af_ann, Some af_ann)])) /\
  ~ H_ann (aw_base af_w0).
Proof. exact (conj (proj1 annotations_refuted) (conj (proj1 (proj2 annotations_refuted))
               (conj (proj2 (proj2 annotations_refuted)) finding_not_H_ann))). Qed.
Print Assumptions C01_annotations_history_refuted.

(* 8d. Under H the whole observation obs_ann (host-scoped keys of every host; per path the
       backend-scoped declarations of its backend and those of its path link) is the one of a
       full sync.  H = H_ann, required of every cluster of the history:
         no_redecl  no (host, path, match type) is declared twice (no path is ever skipped as
                    redeclared: excludes the finding, and more -- the exact condition is that
                    no re-converted ingress acquires a backend that the partial sync kept);
         ports_ok   every path names its service port (true of every Ingress path);
         ids_inj    two Services never share a backend id (ns_name_port).
       Other premises: batch_wf, batch_links_ok_e, ann_ing_ok, ann_svc_ok (a Service whose
       annotations changed is in changed.Links). *)
Theorem C01_annotations_history_under_H : forall (w0 : aworld) (h : list (batch * aworld)),
  H_ann (aw_base w0) -> hist_ok_ab w0 h ->
  exists y', run_hist_a (sync_full_a w0) h = Some y' /\
             forall hn, obs_ann y' hn = obs_ann (sync_full_a (last_aw w0 h)) hn.
Proof. exact model_history_a_obs. Qed.
Print Assumptions C01_annotations_history_under_H.

Theorem C01_annotations_step_under_H : forall (w w' : aworld) (y : ast) (b : batch),
  InvAB w y -> batch_wf (aw_base w) (aw_base w') b -> batch_links_ok_e (aw_base w) (aw_base w') b ->
  ann_ing_ok w w' b -> ann_svc_ok w w' b -> H_ann (aw_base w') ->
  exists y', sync_partial_a w' y b = Some y' /\ InvAB w' y'.
Proof. exact model_partial_step_a_obs. Qed.
Print Assumptions C01_annotations_step_under_H.

(* the premises are satisfiable: an annotation-only update, a change of the annotations of a
   Service (precedence over the ingresses), a deletion *)
Theorem C01_annotations_under_H_example :
  H_ann (aw_base xa_w0) /\ hist_ok_ab xa_w0 xa_hist /\
  obs_a (run_hist_a (sync_full_a xa_w0) xa_hist) "b.example"
    = Some (Some ([], [("/", Prefix, [("hsts-max-age", "200"); ("balance-algorithm", "leastconn")],
                        Some [("hsts-max-age", "200"); ("balance-algorithm", "leastconn")])])) /\
  obs_a (run_hist_a (sync_full_a xa_w0) xa_hist) "b.example" = obs_a (Some (sync_full_a xa_w3)) "b.example".
Proof.
  refine (conj (proj1 ann_history_ok) (conj (proj2 ann_history_ok) _)).
  exact (proj2 ann_history_eval).
Qed.
Print Assumptions C01_annotations_under_H_example.

(* ================================================================== *)
(* 9. Orchestration of converters.Sync (Model/ConvOrch.v): the ingress converter and the      *)
(*    always-full gateway source G on one haproxy model and one tracker                       *)
(* ================================================================== *)

(* 9a. For every cluster and every history of well formed batches (several events per object)
       that name the changed Services and Secrets -- ingress-side objects and objects shared
       with G alike -- sync_o never fails and after EVERY reconciliation the hosts of both
       owners are those of a full sync of both sources on the current cluster.
       hist_ok_or asks of every step: batch_wf, batch_links_ok (of the ingress side) and
       g_stable: what G produces only changes when a gateway object changed (ob_full) or
       something G tracks is in changed.Links.  No disjointness of hostnames is needed. *)
Theorem C01_orchestration_history : forall (w0 : oworld) (h : list (obatch * oworld)),
  hist_ok_or w0 h ->
  exists t, run_trace (sync_full_o w0) h = Some t /\
            forall w' x', In (w', x') t -> hosts_eq (fst x') (fst (sync_full_o w')).
Proof. exact model_history_o. Qed.
Print Assumptions C01_orchestration_history.

(* one reconciliation re-establishes the invariant, full or partial *)
Theorem C01_orchestration_step : forall (w w' : oworld) (x : st) (b : obatch),
  InvOr w x -> batch_wf (ow_base w) (ow_base w') (ob_base b) ->
  batch_links_ok (ow_base w) (ow_base w') (ob_base b) -> g_stable w w' b ->
  exists x', sync_o w' x b = Some x' /\ InvOr w' x'.
Proof. exact model_step_o. Qed.
Print Assumptions C01_orchestration_step.

(* conservativity: a full sync of both sources shows G's hosts as G builds them and every other
   host as the ingress converter alone builds it, when G's hosts are no ingress's *)
Theorem C01_orchestration_conservative : forall w, g_disjoint w ->
  forall h, fst (sync_full_o w) (THost h)
            = match assoc h (og_hosts (ow_g w)) with
              | Some r => Some (CHost r)
              | None => fst (sync_full (ow_base w)) (THost h)
              end.
Proof. exact sync_full_o_hosts. Qed.
Print Assumptions C01_orchestration_conservative.

(* 9b. The order before /repo commit 5060862 (G asked before the added ingress is linked to
       what it declares): Secret ns1/tls-1, Ingress ing3 b.example -> svc1, Gateway hosts
       g1.gw.example and g2.gw.example (certificate tls-1, routes to svc1); ing4 with only tls
       {b.example, tls-1} is created.  sync_old runs the ingress partial sync, which reaches gw
       through b.example and svc1 and drops both hosts of G; sync_o asks for the full sync. *)
Theorem C01_orchestration_old_refuted :
  batch_wf (ow_base ow0) (ow_base ow1) (ob_base ob1) /\
  hosts_o (sync_old ow1 (sync_full_o ow0) ob1)
    = Some [Some {| h_paths := [{| hp_path := "/"; hp_type := Prefix; hp_back := "ns1_svc1_8080" |}]; h_tls := Some "H1" |};
            None; None; None] /\
  hosts_o (Some (sync_full_o ow1))
    = Some [Some {| h_paths := [{| hp_path := "/"; hp_type := Prefix; hp_back := "ns1_svc1_8080" |}]; h_tls := Some "H1" |};
            Some (o_ghost "10.1.0.1"); Some (o_ghost "10.1.0.1"); None] /\
  hosts_o (sync_o ow1 (sync_full_o ow0) ob1) = hosts_o (Some (sync_full_o ow1)).
Proof. exact orchestration_old_refuted. Qed.
Print Assumptions C01_orchestration_old_refuted.

(* 9c. a satisfiable history: a partial sync that leaves G alone (an ingress on another host
       and service), a full sync asked by G (the Endpoints it reads change), the batch of 9b *)
Theorem C01_orchestration_example :
  hist_ok_or ow0 ohist /\
  need_full (pretrack (ow_base ow2) (sync_full_o ow0) (ob_base ob2)) (b_links (ob_base ob2)) = Some false /\
  hosts_o (sync_o ow2 (sync_full_o ow0) ob2) = hosts_o (Some (sync_full_o ow2)) /\
  get_host (fst (sync_full_o ow2)) "c.example" <> None /\
  get_host (fst (sync_full_o ow2)) "g1.gw.example" = Some (o_ghost "10.1.0.1") /\
  need_full (pretrack (ow_base ow3) (sync_full_o ow2) (ob_base ob3)) (b_links (ob_base ob3)) = Some true.
Proof. exact (conj orch_history_ok orch_history_eval). Qed.
Print Assumptions C01_orchestration_example.
