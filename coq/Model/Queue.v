(* Model of the client-go rate-limited delaying work queue as the controller uses it
   (k8s.io/client-go/util/workqueue: queue.go Typed.Add/Get/Done, delaying_queue.go
   AddAfter/waitingLoop/insert, rate_limiting_queue.go AddRateLimited) with ONE worker
   (pkg/utils/workqueue/workqueue.go process; controller-runtime's default
   MaxConcurrentReconciles = 1), driven by a limiter of Model/Limiter.v.
   Definitions only; proofs are in Proofs/Queue.v.

   Time is Z nanoseconds. A history is a list of timed atomic events; each event is one
   critical section of the real code (Typed.cond.L, the waitingLoop goroutine, the limiter's
   mutex). Scheduling latency is zero in this model: an internal event (timer, hand-over
   to the idle worker, return of the callback) happens at the instant it becomes due, and
   nothing later happens before it (`qstep` checks it). Callback durations are chosen by
   the history, bounded by D. *)
From Coq Require Import ZArith List Bool.
From HI Require Import Model.Limiter.
Import ListNotations.
Open Scope Z_scope.

Definition item := nat.

(* what an observer sees: notifications with the grant they were given, and hand-overs
   of an item to the callback *)
Inductive obs :=
| OArrive (i : item) (t grant : Z)   (* AddRateLimited(i) at t; ready at grant = t + When(i) *)
| ORun (i : item) (s : Z).           (* Get returned i at s: the callback starts *)

Record qstate := {
  q_now : Z;                   (* instant of the latest event *)
  q_last : Z;                  (* the limiter's field `last` *)
  q_wait : list (item * Z);    (* waitingForQueue / waitingEntryByData: item, readyAt *)
  q_fifo : list item;          (* Typed.queue *)
  q_dirty : list item;         (* Typed.dirty *)
  q_proc : option (item * Z);  (* Typed.processing (one worker), and when its callback returns *)
  q_log : list obs             (* newest first *)
}.

Definition q_init (last now : Z) : qstate :=
  {| q_now := now; q_last := last; q_wait := []; q_fifo := []; q_dirty := [];
     q_proc := None; q_log := [] |}.

Definition mem (i : item) (l : list item) : bool := existsb (Nat.eqb i) l.
Definition remove_item (i : item) (l : list item) : list item :=
  filter (fun j => negb (Nat.eqb i j)) l.
Definition processing (i : item) (st : qstate) : bool :=
  match q_proc st with Some (j, _) => Nat.eqb i j | None => false end.

(* func (q *Typed[T]) Add(item T) *)
Definition q_add (i : item) (st : qstate) : qstate :=
  if mem i (q_dirty st) then st   (* already dirty: Touch is a no-op for the default queue *)
  else
    let fifo' := if processing i st then q_fifo st else q_fifo st ++ [i] in
    {| q_now := q_now st; q_last := q_last st; q_wait := q_wait st; q_fifo := fifo';
       q_dirty := q_dirty st ++ [i]; q_proc := q_proc st; q_log := q_log st |}.

(* func insert(q, knownEntries, entry): one entry per item, the earliest readyAt wins *)
Fixpoint wait_insert (i : item) (r : Z) (w : list (item * Z)) : list (item * Z) :=
  match w with
  | [] => [(i, r)]
  | (j, rj) :: rest =>
      if Nat.eqb i j then (if r <? rj then (j, r) :: rest else (j, rj) :: rest)
      else (j, rj) :: wait_insert i r rest
  end.

Fixpoint wait_find (i : item) (w : list (item * Z)) : option Z :=
  match w with
  | [] => None
  | (j, rj) :: rest => if Nat.eqb i j then Some rj else wait_find i rest
  end.

Definition wait_remove (i : item) (w : list (item * Z)) : list (item * Z) :=
  filter (fun e : item * Z => negb (Nat.eqb i (fst e))) w.

Inductive qevent :=
| Arrive (i : item)   (* AddRateLimited(i) = AddAfter(i, When(i)) *)
| Fire (i : item)     (* waitingLoop: the entry of i is ready, pop it and Add(i) *)
| Get (d : Z)         (* the idle worker takes the head of the queue; its callback takes d *)
| Done                (* the callback returned: Done(item) *)
| Forget (i : item)   (* rateLimiter.Forget(i): after a successful callback, before Done *)
| Retry (i : item) (d : Z).
                      (* AddAfter(i, d) called directly: the limiter is not consulted. The
                         controller does it only to retry after a failure (Reconcile returning
                         RequeueAfter = ReloadRetry, reloadHAProxy failing): excluded from the
                         spacing statements, covered by the no-drop one *)

(* instants at which an internal event is due *)
Definition dues (st : qstate) : list Z :=
  map snd (q_wait st) ++
  match q_proc st with
  | Some (_, e) => [e]
  | None => match q_fifo st with [] => [] | _ :: _ => [q_now st] end
  end.

Definition set_now (t : Z) (st : qstate) : qstate :=
  {| q_now := t; q_last := q_last st; q_wait := q_wait st; q_fifo := q_fifo st;
     q_dirty := q_dirty st; q_proc := q_proc st; q_log := q_log st |}.

(* the event itself, at instant t (timing discipline checked in qstep) *)
Definition qevent_apply (f : whenfn) (D : Z) (st : qstate) (t : Z) (ev : qevent) : option qstate :=
  match ev with
  | Arrive i =>
      let r := f (q_last st) t in
      let d := fst r in
      let st1 := {| q_now := t; q_last := snd r; q_wait := q_wait st; q_fifo := q_fifo st;
                    q_dirty := q_dirty st; q_proc := q_proc st;
                    q_log := OArrive i t (t + d) :: q_log st |} in
      (* AddAfter: if duration <= 0 { q.Add(item) } else the waiting loop inserts it *)
      if d <=? 0 then Some (q_add i st1)
      else Some {| q_now := t; q_last := snd r; q_wait := wait_insert i (t + d) (q_wait st);
                   q_fifo := q_fifo st; q_dirty := q_dirty st; q_proc := q_proc st;
                   q_log := q_log st1 |}
  | Forget i =>
      (* both limiters: func Forget(_) {} -- `last` is what it was (Limiter.reload_forget) *)
      Some {| q_now := t; q_last := reload_forget (q_last st) t; q_wait := q_wait st;
              q_fifo := q_fifo st; q_dirty := q_dirty st; q_proc := q_proc st; q_log := q_log st |}
  | Retry i d =>
      (* the same as Arrive with the given delay and the limiter left alone *)
      let r := (d, q_last st) in
      let d := fst r in
      let st1 := {| q_now := t; q_last := snd r; q_wait := q_wait st; q_fifo := q_fifo st;
                    q_dirty := q_dirty st; q_proc := q_proc st;
                    q_log := OArrive i t (t + d) :: q_log st |} in
      if d <=? 0 then Some (q_add i st1)
      else Some {| q_now := t; q_last := snd r; q_wait := wait_insert i (t + d) (q_wait st);
                   q_fifo := q_fifo st; q_dirty := q_dirty st; q_proc := q_proc st;
                   q_log := q_log st1 |}
  | Fire i =>
      match wait_find i (q_wait st) with
      | Some r =>
          if r <=? t then
            Some (q_add i {| q_now := t; q_last := q_last st; q_wait := wait_remove i (q_wait st);
                             q_fifo := q_fifo st; q_dirty := q_dirty st; q_proc := q_proc st;
                             q_log := q_log st |})
          else None
      | None => None
      end
  | Get d =>
      match q_proc st, q_fifo st with
      | None, i :: rest =>
          if (0 <=? d) && (d <=? D) then
            Some {| q_now := t; q_last := q_last st; q_wait := q_wait st; q_fifo := rest;
                    q_dirty := remove_item i (q_dirty st); q_proc := Some (i, t + d);
                    q_log := ORun i t :: q_log st |}
          else None
      | _, _ => None
      end
  | Done =>
      match q_proc st with
      | Some (i, e) =>
          if e <=? t then
            Some {| q_now := t; q_last := q_last st; q_wait := q_wait st;
                    q_fifo := if mem i (q_dirty st) then q_fifo st ++ [i] else q_fifo st;
                    q_dirty := q_dirty st; q_proc := None; q_log := q_log st |}
          else None
      | None => None
      end
  end.

(* one timed event: time does not go back, nothing that is due is overtaken *)
Definition qstep (f : whenfn) (D : Z) (st : qstate) (e : Z * qevent) : option qstate :=
  let t := fst e in
  if (q_now st <=? t) && forallb (fun d => t <=? d) (dues st)
  then qevent_apply f D st t (snd e) else None.

Fixpoint qexec (f : whenfn) (D : Z) (st : qstate) (tr : list (Z * qevent)) : option qstate :=
  match tr with
  | [] => Some st
  | e :: rest => match qstep f D st e with Some st' => qexec f D st' rest | None => None end
  end.

(* the item is on its way to the callback, no later than g *)
Definition pending_by (i : item) (g : Z) (st : qstate) : Prop :=
  (exists r, In (i, r) (q_wait st) /\ r <= g) \/ In i (q_fifo st).

Definition arrives_only (i0 : item) (tr : list (Z * qevent)) : Prop :=
  forall t i, In (t, Arrive i) tr -> i = i0.

(* no direct AddAfter (failure retries) in the history *)
Definition no_retry (tr : list (Z * qevent)) : Prop :=
  forall t i d, ~ In (t, Retry i d) tr.
