(* Model of external authentication (C18), following the code after the fixes
   fixes/C18-oauth-authurl-reset.patch, C18-auth-proxy-cleanup-frontend.patch,
   C18-placement-fail-closed.patch and C18-oauth-empty-prefix.patch:
     pkg/haproxy/types/frontend.go   AcquireAuthBackendName, RemoveAuthBackendExcept
     pkg/converters/ingress/annotations/backend.go
                                     setAuthExternal, buildBackendAuthExternal,
                                     hasFrontendAuthExternal, buildBackendOAuth
     pkg/converters/ingress/annotations/host.go   buildHostAuthExternal
     pkg/haproxy/types/backend.go    createPathConfig (grouping by DeepEqual), PathIDs
     rootfs/etc/templates/haproxy/haproxy.tmpl    authExternal, authExternalFrontend,
                                     the AuthExternal block of a backend
   What the code obtains from the outside (URL syntax, DNS, the service cache, findBackend
   of the oauth prefix, the Lua flag, the order of the calls) is an explicit input.
   Definitions only; proofs are in Proofs/AuthExt.v. *)
From Coq Require Import ZArith NArith List Bool.
Import ListNotations.

(* ------------------------------------------------------------------ *)
(* names of auth backends, per path configuration (hatypes.AuthExternal) *)

Inductive name := NAuth (port : Z) | NBack (id : N).
(* NAuth p is "_auth_<p>" (auth proxy bind), NBack i the backend serving the oauth prefix *)

Record auth := {
  a_deny : bool;              (* AlwaysDeny *)
  a_name : option name;       (* AuthBackendName, None = "" *)
  a_allowed : option N;       (* AllowedPath (an id of the prefix string), None = "" *)
  a_tag : N                   (* the remaining fields (AuthPath, Method, Headers*, RedirectOnFail),
                                 only ever compared for equality *)
}.

Definition auth0 : auth := {| a_deny := false; a_name := None; a_allowed := None; a_tag := 0 |}.
Definition set_deny (a : auth) : auth :=
  {| a_deny := true; a_name := a_name a; a_allowed := a_allowed a; a_tag := a_tag a |}.

Definition name_eqb (x y : name) : bool :=
  match x, y with
  | NAuth p, NAuth q => Z.eqb p q
  | NBack i, NBack j => N.eqb i j
  | _, _ => false
  end.

Definition opt_eqb {A} (e : A -> A -> bool) (x y : option A) : bool :=
  match x, y with
  | None, None => true
  | Some a, Some b => e a b
  | _, _ => false
  end.

(* reflect.DeepEqual on the modelled fields *)
Definition auth_eqb (a b : auth) : bool :=
  Bool.eqb (a_deny a) (a_deny b) && opt_eqb name_eqb (a_name a) (a_name b) &&
  opt_eqb N.eqb (a_allowed a) (a_allowed b) && N.eqb (a_tag a) (a_tag b).

(* ------------------------------------------------------------------ *)
(* the auth proxy: Frontend.AuthProxy *)

Record bind := { b_port : Z; b_target : N }.          (* LocalPort, Backend *)
Record proxy := { px_start : Z; px_end : Z; px_binds : list bind }.

(* the loop of AcquireAuthBackendName: an existing bind of the backend, or the first free port *)
Fixpoint scan (target : N) (fp : Z) (bs : list bind) : Z + Z :=
  match bs with
  | [] => inr fp
  | b :: r =>
      if N.eqb (b_target b) target then inl (b_port b)
      else scan target (if Z.eqb fp (b_port b) then fp + 1 else fp) r
  end%Z.

(* append + sort.Slice by LocalPort (ports are distinct, see Proofs) *)
Fixpoint insert_bind (b : bind) (bs : list bind) : list bind :=
  match bs with
  | [] => [b]
  | c :: r => if (b_port b <? b_port c)%Z then b :: c :: r else c :: insert_bind b r
  end.

Definition acquire (px : proxy) (target : N) : option (Z * proxy) :=
  match scan target (px_start px) (px_binds px) with
  | inl p => Some (p, px)
  | inr fp =>
      if (px_end px <? fp)%Z then None
      else Some (fp, {| px_start := px_start px; px_end := px_end px;
                        px_binds := insert_bind {| b_port := fp; b_target := target |} (px_binds px) |})
  end.

(* RemoveAuthBackendExcept(used): `used` = the ports whose names are still referenced *)
Definition cleanup (used : list Z) (px : proxy) : proxy :=
  {| px_start := px_start px; px_end := px_end px;
     px_binds := filter (fun b => existsb (Z.eqb (b_port b)) used) (px_binds px) |}.

(* acquire, "clean up and try again" *)
Definition acquire_retry (used : list Z) (px : proxy) (target : N) : option Z * proxy :=
  match acquire px target with
  | Some (p, px') => (Some p, px')
  | None =>
      let px1 := cleanup used px in
      match acquire px1 target with
      | Some (p, px') => (Some p, px')
      | None => (None, px1)
      end
  end.

(* ------------------------------------------------------------------ *)
(* setAuthExternal *)

Inductive proto := PHttp | PSvc | POther.

(* outcomes of the validation steps of one auth-url, in the order the code takes them *)
Record url_in := {
  u_parse : bool;       (* ingutils.ParseURL succeeds *)
  u_proto : proto;      (* http/https | service/svc | anything else *)
  u_dns : bool;         (* http: IP literal, or lookupHost succeeds *)
  u_port : bool;        (* svc: port given *)
  u_ns : bool;          (* svc: namespace known *)
  u_xns : bool;         (* svc: same namespace or cross namespace allowed *)
  u_found : bool;       (* svc: Backends().FindBackend succeeds *)
  u_target : N          (* identity of the backend the url resolves to (BackendID) *)
}.

Definition resolve (u : url_in) : option N :=
  if negb (u_parse u) then None
  else match u_proto u with
       | PHttp => if u_dns u then Some (u_target u) else None
       | PSvc => if u_port u && u_ns u && u_xns u && u_found u then Some (u_target u) else None
       | POther => None
       end.

Definition deny_cfg : auth := set_deny auth0.

(* lua_ok = not (external.IsExternal && !external.HasLua); the auth record is new (zero) *)
Definition set_auth_external (lua_ok : bool) (used : list Z) (px : proxy) (u : url_in) (tag : N)
  : proxy * auth :=
  if negb lua_ok then (px, deny_cfg)
  else match resolve u with
       | None => (px, deny_cfg)
       | Some t =>
           match acquire_retry used px t with
           | (None, px') => (px', deny_cfg)
           | (Some p, px') =>
               (px', {| a_deny := false; a_name := Some (NAuth p); a_allowed := None; a_tag := tag |})
           end
       end.

(* ------------------------------------------------------------------ *)
(* one backend: buildBackendAuthExternal then buildBackendOAuth *)

Inductive placement := PlBackend | PlFrontend | PlOther.

Record odecl := {
  o_impl : bool;             (* oauth2_proxy / oauth2-proxy *)
  o_prefix_ok : bool;        (* oauth-uri-prefix, trailing slashes trimmed, is not empty
                                (fixes/C18-oauth-empty-prefix.patch) *)
  o_backend : option N;      (* findBackend(hostname, namespace, uriPrefix): the backend of the
                                host path whose path is the prefix -- own host first, then the
                                hosts in order.  Modelled fact: only a path that HAS a backend (of
                                the namespace of the declaration) is a candidate; a redirect-only
                                path (Host.AddRedirect, empty backend id) never is, whatever
                                DynamicConfig.CrossNamespaceServices says *)
  o_prefix : N;              (* id of AllowedPath = uriPrefix + "/" *)
  o_tag : N
}.

Record pdecl := {
  d_id : N;                          (* path id inside the backend ("path%02d") *)
  d_url : option (url_in * N);       (* per path auth-url, not empty; with the tag of its config *)
  d_place : placement;               (* per path auth-external-placement *)
  d_host : N; d_key : N;             (* the host path it is: hostname, key of the link *)
  d_oauth : option odecl             (* oauth key present (Source != nil) *)
}.

(* ports referenced by a list of configurations *)
Definition ports_of (l : list auth) : list Z :=
  flat_map (fun a => match a_name a with Some (NAuth p) => [p] | _ => [] end) l.

(* buildBackendAuthExternal on one path; `fe` = hasFrontendAuthExternal(path.Link) *)
Definition auth_external_step (lua_ok : bool) (fe : bool) (used : list Z) (px : proxy) (d : pdecl)
  : proxy * auth :=
  match d_url d with
  | None => (px, auth0)
  | Some (u, tag) =>
      match d_place d with
      | PlFrontend => (px, if fe then auth0 else deny_cfg)
      | PlBackend | PlOther => set_auth_external lua_ok used px u tag
      end
  end.

(* the loop; `used0` = ports referenced elsewhere (other backends, host paths); the paths
   already visited of this backend are added (BuildUsedAuthBackends sees them) *)
Fixpoint auth_external_loop (lua_ok : bool) (fe : pdecl -> bool) (used0 : list Z) (px : proxy)
    (done : list auth) (ds : list pdecl) : proxy * list auth :=
  match ds with
  | [] => (px, [])
  | d :: r =>
      let '(px1, a) := auth_external_step lua_ok (fe d) (used0 ++ ports_of done) px d in
      let '(px2, l) := auth_external_loop lua_ok fe used0 px1 (done ++ [a]) r in
      (px2, a :: l)
  end.

(* buildBackendOAuth on one path, `a` = what the auth-url step left on it *)
Definition oauth_step (lua_ok : bool) (d : pdecl) (a : auth) : auth :=
  match d_oauth d with
  | None => a
  | Some o =>
      if negb (o_impl o) then set_deny a
      else if negb lua_ok then set_deny a
      else match d_url d with
           | Some _ => a          (* auth-url has precedence, its verdict is kept *)
           | None =>
               if negb (o_prefix_ok o) then set_deny a else
               match o_backend o with
               | None => set_deny a
               | Some b => {| a_deny := false; a_name := Some (NBack b);
                              a_allowed := Some (o_prefix o); a_tag := o_tag o |}
               end
           end
  end.

(* UpdateBackendConfig, external authentication part: per path id its configuration *)
Definition process_backend (lua_ok : bool) (fe : pdecl -> bool) (used0 : list Z) (px : proxy)
    (ds : list pdecl) : proxy * list (N * auth) :=
  let '(px', l) := auth_external_loop lua_ok fe used0 px [] ds in
  (px', map (fun p => (d_id (fst p), oauth_step lua_ok (fst p) (snd p))) (combine ds l)).

(* ------------------------------------------------------------------ *)
(* one host: buildHostAuthExternal.  `hplace`, `hurl` are what the host wide mapper
   answers (the first registered value of each key). *)

Fixpoint host_loop (lua_ok : bool) (used0 : list Z) (px : proxy) (done : list auth)
    (u : url_in) (tag : N) (keys : list N) : proxy * list (N * option auth) :=
  match keys with
  | [] => (px, [])
  | k :: r =>
      let '(px1, a) := set_auth_external lua_ok (used0 ++ ports_of done) px u tag in
      let '(px2, l) := host_loop lua_ok used0 px1 (done ++ [a]) u tag r in
      (px2, (k, Some a) :: l)
  end.

Definition process_host (lua_ok : bool) (used0 : list Z) (px : proxy)
    (hplace : placement) (hurl : option (url_in * N)) (keys : list N)
  : proxy * list (N * option auth) :=
  match hplace, hurl with
  | PlFrontend, Some (u, tag) => host_loop lua_ok used0 px [] u tag keys
  | _, _ => (px, map (fun k => (k, None)) keys)
  end.

Definition fe_configured (hplace : placement) (hurl : option (url_in * N)) : bool :=
  match hplace, hurl with PlFrontend, Some _ => true | _, _ => false end.

(* ------------------------------------------------------------------ *)
(* the template *)

Inductive cond :=
  | CAll                      (* no condition *)
  | CIds (ids : list N)       (* { var(txn.pathID) -m str id ... } *)
  | CKey (k : N).             (* { var(req.base) -m str <method> '<key>' }: req.base is
                                 literally the key of the host path *)

Inductive act := ADeny | AIntercept (n : name) | AGuard.
(* AGuard = http-request deny|redirect ... if !{ var(txn.auth_response_successful) -m bool } *)

Record rule := { r_act : act; r_cond : cond; r_skip : option N (* !{ path_beg AllowedPath } *) }.

(* {{ define "authExternal" }} *)
Definition auth_rules (a : auth) (c : cond) : list rule :=
  if a_deny a then [ {| r_act := ADeny; r_cond := c; r_skip := None |} ]
  else match a_name a with
       | None => []
       | Some n => [ {| r_act := AIntercept n; r_cond := c; r_skip := a_allowed a |};
                     {| r_act := AGuard; r_cond := c; r_skip := a_allowed a |} ]
       end.

(* createPathConfig: paths with DeepEqual configurations share an item, first come first *)
Fixpoint add_group (id : N) (a : auth) (gs : list (auth * list N)) : list (auth * list N) :=
  match gs with
  | [] => [(a, [id])]
  | (b, ids) :: r =>
      if auth_eqb a b then (b, ids ++ [id]) :: r else (b, ids) :: add_group id a r
  end.

Definition groups (cfgs : list (N * auth)) : list (auth * list N) :=
  fold_left (fun gs p => add_group (fst p) (snd p) gs) cfgs [].

(* sort.Strings on "path%02d" ids = numeric order below 100 paths *)
Fixpoint insert_n (x : N) (l : list N) : list N :=
  match l with
  | [] => [x]
  | y :: r => if (x <=? y)%N then x :: y :: r else y :: insert_n x r
  end.
Definition sort_n (l : list N) : list N := fold_right insert_n [] l.

(* PathIDs: chains of at most maxTokensPerLine ids *)
Fixpoint chunks_aux (fuel n : nat) (l : list N) : list (list N) :=
  match fuel with
  | O => []
  | S f => match l with
           | [] => []
           | _ => firstn n l :: chunks_aux f n (skipn n l)
           end
  end.
Definition chunks (n : nat) (l : list N) : list (list N) := chunks_aux (length l) n l.

Definition max_tokens : nat := 30.

Definition group_conds (need_acl : bool) (ids : list N) : list cond :=
  if need_acl then map CIds (chunks max_tokens (sort_n ids)) else [CAll].

Definition group_rules (need_acl : bool) (g : auth * list N) : list rule :=
  flat_map (auth_rules (fst g)) (group_conds need_acl (snd g)).

(* the AuthExternal block of a backend section *)
Definition backend_rules (cfgs : list (N * auth)) : list rule :=
  let gs := groups cfgs in
  flat_map (group_rules (1 <? length gs)%nat) gs.

(* {{ define "authExternalFrontend" }} for the paths of the hosts, in template order *)
Definition frontend_rules (hcfgs : list (N * option auth)) : list rule :=
  flat_map (fun p => match snd p with
                     | Some a => auth_rules a (CKey (fst p))
                     | None => []
                     end) hcfgs.

(* ------------------------------------------------------------------ *)
(* requests *)

Record req := {
  q_path : N;          (* the host path the maps route the request to (its key) *)
  q_id : N;            (* txn.pathID in the backend of that path *)
  q_exact : bool;      (* req.base is literally the key string of that path *)
  q_under : list N     (* the AllowedPath prefixes the URL path begins with *)
}.

Definition cond_holds (c : cond) (q : req) : bool :=
  match c with
  | CAll => true
  | CIds ids => existsb (N.eqb (q_id q)) ids
  | CKey k => q_exact q && N.eqb k (q_path q)
  end.

Definition applies (r : rule) (q : req) : bool :=
  cond_holds (r_cond r) q &&
  match r_skip r with None => true | Some p => negb (existsb (N.eqb p) (q_under q)) end.

(* one rule; the state is txn.auth_response_successful (unset = false); None = the request
   was denied or redirected.  `ok n` = the authentication service behind n accepts the client.
   An intercept that fails may also answer by itself; ignoring that only serves more. *)
Definition step (ok : name -> bool) (q : req) (st : bool) (r : rule) : option bool :=
  if applies r q then
    match r_act r with
    | ADeny => None
    | AIntercept n => Some (ok n)
    | AGuard => if st then Some st else None
    end
  else Some st.

Fixpoint exec (ok : name -> bool) (q : req) (st : bool) (rs : list rule) : option bool :=
  match rs with
  | [] => Some st
  | r :: rest => match step ok q st r with
                 | None => None
                 | Some st' => exec ok q st' rest
                 end
  end.

(* the request reaches the application *)
Definition served (ok : name -> bool) (q : req) (st : bool) (rs : list rule) : bool :=
  match exec ok q st rs with Some _ => true | None => false end.

(* ------------------------------------------------------------------ *)
(* vocabulary of the statements *)

Definition is_frontend (p : placement) : bool :=
  match p with PlFrontend => true | _ => false end.

(* the path declares external authentication (auth-url whatever the placement says, or oauth) *)
Definition declared (d : pdecl) : bool :=
  match d_url d, d_oauth d with None, None => false | _, _ => true end.

(* ... and nothing says the frontend of its host took charge of it *)
Definition backend_in_charge (fe : pdecl -> bool) (d : pdecl) : bool :=
  match d_url d with
  | Some _ => negb (is_frontend (d_place d) && fe d)
  | None => match d_oauth d with Some _ => true | None => false end
  end.

(* the URL is not under the sign-in prefix the configuration exempts *)
Definition skip_free (a : auth) (q : req) : Prop :=
  match a_allowed a with None => True | Some p => ~ In p (q_under q) end.
