(* Model of pkg/haproxy/dynupdate.go (dynUpdater.update, checkConfigChange,
   frontendUpdated/backendUpdated, checkHostPair, checkBackendPair, checkEndpointPair,
   alignSlots, exec{Enable,Disable}Endpoint, execUpdateCert, cmdResponseOK),
   of the parts of pkg/haproxy/types it calls (AddEmptyEndpoint / sanitizeName,
   IsEmpty, Backends.Shrink / backendsMatch, Hosts.Shrink), of socket.Send as far as
   answers and I/O errors go, and of the simulated HAProxy the commands are replayed on
   (harness/lib/fakehaproxy: `load` of the server lines the template writes, `apply_cmd`).
   Definitions only; proofs are in Proofs/Dyn*.v.

   Go `int` is Z. Socket answers are the parameter `resp : nat -> answer` (the n-th
   command written to the socket gets `resp n`); nothing is assumed about it.
   reflect.DeepEqual over a Backend / Host is structural equality of one digest per
   struct field (`b_cfg`, `h_cfg`: position i = i-th field of the Go struct, names in
   `backend_fields` / `host_fields`); the harness computes the digests from the real
   objects. Comments name the Go functions and quote the statements modelled. *)
From Coq Require Import List String Ascii Bool Arith ZArith NArith DecimalString Decimal.
Import ListNotations.
Open Scope string_scope.
Infix "^^" := String.append (at level 60, right associativity).

(* ------------------------------------------------------------------ endpoints *)

(* hatypes.Endpoint, every field *)
Record endpoint := mkE {
  ep_name : string; ep_ip : string; ep_port : Z; ep_target : string;
  ep_enabled : bool; ep_weight : Z; ep_cookie : string; ep_label : string;
  ep_ref : string; ep_puid : Z; ep_srcip : string }.

Definition set_name (e : endpoint) (n : string) : endpoint :=
  mkE n (ep_ip e) (ep_port e) (ep_target e) (ep_enabled e) (ep_weight e) (ep_cookie e)
      (ep_label e) (ep_ref e) (ep_puid e) (ep_srcip e).
Definition set_cookie (e : endpoint) (c : string) : endpoint :=
  mkE (ep_name e) (ep_ip e) (ep_port e) (ep_target e) (ep_enabled e) (ep_weight e) c
      (ep_label e) (ep_ref e) (ep_puid e) (ep_srcip e).
Definition set_srcip (e : endpoint) (s : string) : endpoint :=
  mkE (ep_name e) (ep_ip e) (ep_port e) (ep_target e) (ep_enabled e) (ep_weight e) (ep_cookie e)
      (ep_label e) (ep_ref e) (ep_puid e) s.

(* reflect.DeepEqual on two Endpoint values *)
Definition ep_eqb (a b : endpoint) : bool :=
  (ep_name a =? ep_name b) && (ep_ip a =? ep_ip b) && (ep_port a =? ep_port b)%Z &&
  (ep_target a =? ep_target b) && Bool.eqb (ep_enabled a) (ep_enabled b) &&
  (ep_weight a =? ep_weight b)%Z && (ep_cookie a =? ep_cookie b) && (ep_label a =? ep_label b) &&
  (ep_ref a =? ep_ref b) && (ep_puid a =? ep_puid b)%Z && (ep_srcip a =? ep_srcip b).

Fixpoint eps_eqb (a b : list endpoint) : bool :=
  match a, b with
  | [], [] => true
  | x :: a', y :: b' => ep_eqb x y && eps_eqb a' b'
  | _, _ => false
  end.

(* Endpoint.IsEmpty (types/backend.go:381) *)
Definition is_empty (e : endpoint) : bool := ep_ip e =? "127.0.0.1".

(* fmt.Sprintf("srv%03d", k) *)
Definition nat_str (k : nat) : string := NilZero.string_of_uint (Nat.to_uint k).
Definition pad3 (s : string) : string :=
  match String.length s with
  | 0 => "000" ^^ s | 1 => "00" ^^ s | 2 => "0" ^^ s | _ => s
  end%nat.
Definition srv_name (k : nat) : string := "srv" ^^ pad3 (nat_str k).

(* Backend.AddEmptyEndpoint (types/backend.go:58): AddEndpoint("127.0.0.1",1023,"") gives the
   name srv%03d(len+1) in every naming mode, weight = Server.InitialWeight; then
   Enabled=false, CookieValue=Name *)
Definition empty_endpoint (initw : Z) (k : nat) : endpoint :=
  mkE (srv_name k) "127.0.0.1" 1023 "127.0.0.1:1023" false initw (srv_name k) "" "" 0 "".
Definition add_empty (initw : Z) (eps : list endpoint) : list endpoint :=
  (eps ++ [empty_endpoint initw (S (List.length eps))])%list.
Fixpoint add_empties (initw : Z) (n : nat) (eps : list endpoint) : list endpoint :=
  match n with O => eps | S n' => add_empties initw n' (add_empty initw eps) end.

(* ------------------------------------------------------------------ backends *)

(* the fields of hatypes.Backend in declaration order; b_cfg holds one digest per field *)
Definition backend_fields : list string :=
  ["hash64"; "shard"; "ID"; "Namespace"; "Name"; "Port"; "DNSPort"; "SourceIPs"; "Endpoints"; "EpNaming";
   "Paths"; "PathsMap"; "PathsDefaultHostMap"; "pathConfig";
   "AgentCheck"; "AllowedIPTCP"; "BalanceAlgorithm"; "BlueGreen"; "Cookie"; "CustomConfig"; "DeniedIPTCP";
   "Dynamic"; "EpCookieStrategy"; "Headers"; "HealthCheck"; "Limit"; "ModeTCP"; "Resolver"; "Server";
   "Timeout"; "TLS"].

Record backend := mkB {
  b_id : string;                 (* ID *)
  b_cfg : list N;                (* digest of every field, see backend_fields *)
  b_dyn : bool; b_minfree : Z; b_block : Z;   (* Dynamic.{DynUpdate,MinFreeSlots,BlockSize} *)
  b_preserve : bool;             (* Cookie.Preserve *)
  b_resolver : string;           (* Resolver *)
  b_initw : Z;                   (* Server.InitialWeight *)
  b_eps : list endpoint }.

Definition set_eps (b : backend) (eps : list endpoint) : backend :=
  mkB (b_id b) (b_cfg b) (b_dyn b) (b_minfree b) (b_block b) (b_preserve b) (b_resolver b) (b_initw b) eps.

Definition mem_str (s : string) (l : list string) : bool := existsb (String.eqb s) l.

(* DeepEqual of two structs after the fields named in `blank` were copied from one to the other *)
Fixpoint cfg_eq_except (names : list string) (blank : list string) (a b : list N) : bool :=
  match names, a, b with
  | [], [], [] => true
  | n :: names', x :: a', y :: b' => (mem_str n blank || (x =? y)%N) && cfg_eq_except names' blank a' b'
  | _, _, _ => false
  end.

(* checkBackendPair: oldBackCopy.{ID,Dynamic,Endpoints} = curBack's; reflect.DeepEqual(&oldBackCopy, curBack) *)
Definition pair_blank : list string := ["ID"; "Dynamic"; "Endpoints"].
Definition back_cfg_equal (old cur : backend) : bool :=
  cfg_eq_except backend_fields pair_blank (b_cfg old) (b_cfg cur).

(* ------------------------------------------------------------------ socket *)

Inductive answer := AIOErr | AText (s : string).

Inductive adm := Ready | Drain | Maint.

Inductive cmd :=
| CAddr (b s ip : string) (port : Z)     (* set server b/s addr ip port p *)
| CState (b s : string) (st : adm)       (* set server b/s state ready|drain|maint *)
| CWeight (b s : string) (w : Z)         (* set server b/s weight w *)
| CSetCert (file payload : string)       (* set ssl cert file <<\n payload \n *)
| CCommit (file : string).               (* commit ssl cert file *)

(* strconv.Itoa *)
Definition z_str (z : Z) : string :=
  if (z <? 0)%Z then "-" ^^ NilZero.string_of_uint (N.to_uint (Z.to_N (- z)))
  else NilZero.string_of_uint (N.to_uint (Z.to_N z)).
Definition adm_str (a : adm) : string :=
  match a with Ready => "ready" | Drain => "drain" | Maint => "maint" end.
(* the command text written to the socket (first line for the certificate payload) *)
Definition render_cmd (c : cmd) : string :=
  match c with
  | CAddr b s ip p => "set server " ^^ b ^^ "/" ^^ s ^^ " addr " ^^ ip ^^ " port " ^^ z_str p
  | CState b s a => "set server " ^^ b ^^ "/" ^^ s ^^ " state " ^^ adm_str a
  | CWeight b s w => "set server " ^^ b ^^ "/" ^^ s ^^ " weight " ^^ z_str w
  | CSetCert f p => "set ssl cert " ^^ f ^^ " <<" ^^ p
  | CCommit f => "commit ssl cert " ^^ f
  end.

(* strings.Contains *)
Definition contains (sub s : string) : bool :=
  match index 0 sub s with Some _ => true | None => false end.

(* cmdResponseOK *)
Definition set_server_ok (m : string) : bool :=
  (m =? "") || prefix "IP changed from " m || prefix "no need to change " m.
Definition commit_ok (m : string) : bool := contains "Success" m.

(* socket.Send: the commands of one call are written one after the other; the first I/O
   error stops the call (the rest is not written). Result: the commands written (the failing
   one included), the answers read, whether an error was returned. *)
Fixpoint send (cs : list cmd) (resp : nat -> answer) (n : nat) : list cmd * list string * bool :=
  match cs with
  | [] => ([], [], false)
  | c :: cs' =>
    match resp n with
    | AIOErr => ([c], [], true)
    | AText s => let '(w, m, e) := send cs' resp (S n) in (c :: w, s :: m, e)
    end
  end.

(* execDisableEndpoint / execEnableEndpoint: (ok, commands written) *)
Definition set_server_group (cs : list cmd) (resp : nat -> answer) (n : nat) : bool * list cmd :=
  let '(w, m, e) := send cs resp n in
  (negb e && forallb (fun x => (x =? "") || set_server_ok x) m, w).

Definition disable_cmds (id : string) (o : endpoint) : list cmd :=
  [CState id (ep_name o) Maint; CAddr id (ep_name o) "127.0.0.1" 1023; CWeight id (ep_name o) 0].
Definition enable_cmds (id : string) (c : endpoint) : list cmd :=
  [CAddr id (ep_name c) (ep_ip c) (ep_port c);
   CState id (ep_name c) (if (0 <? ep_weight c)%Z then Ready else Drain);
   CWeight id (ep_name c) (ep_weight c)].
Definition exec_disable id o := set_server_group (disable_cmds id o).
Definition exec_enable id c := set_server_group (enable_cmds id c).

(* ------------------------------------------------------------------ checkBackendPair *)

(* checkEndpointPair; cur already carries the slot name *)
Definition check_endpoint_pair (id : string) (preserve : bool) (o c : endpoint)
           (resp : nat -> answer) (n : nat) : bool * list cmd :=
  if ep_eqb (set_srcip o (ep_srcip c)) c then (true, [])
  else if preserve && negb (ep_cookie o =? ep_cookie c) then (false, [])
  else let '(ok, w) := exec_enable id c resp n in
       (ok && (ep_label o =? "") && (ep_label c =? ""), w).

(* sort.Strings on the targets of the enabled old endpoints: insertion sort by target *)
Fixpoint insert_by_target (e : endpoint) (l : list endpoint) : list endpoint :=
  match l with
  | [] => [e]
  | x :: l' => if String.leb (ep_target e) (ep_target x) then e :: l else x :: insert_by_target e l'
  end.
Definition sort_by_target (l : list endpoint) : list endpoint := fold_right insert_by_target [] l.

Definition find_target (t : string) (l : list endpoint) : option endpoint :=
  find (fun e => ep_target e =? t) l.

(* the repaired code refuses to pair by target when targets are not unique *)
Fixpoint has_dup (l : list string) : bool :=
  match l with [] => false | x :: l' => mem_str x l' || has_dup l' end.
Definition dup_target (eps : list endpoint) : bool :=
  has_dup (map ep_target (filter ep_enabled eps)).

(* checkBackendPair, `for _, endpoint := range curBack.Endpoints` and `for _, target := range targets`,
   as far as the choice of slots goes: every enabled old endpoint, in sorted
   target order, keeps the new endpoint with its target, else takes the next added one, else
   is vacated. Returns the (old, new?) pairs and the added endpoints left over. *)
Fixpoint pair_loop (sorted_old cur added : list endpoint) : list (endpoint * option endpoint) * list endpoint :=
  match sorted_old with
  | [] => ([], added)
  | o :: rest =>
    match find_target (ep_target o) cur, added with
    | Some c, _ => let '(l, a) := pair_loop rest cur added in ((o, Some c) :: l, a)
    | None, a0 :: added' => let '(l, a) := pair_loop rest cur added' in ((o, Some a0) :: l, a)
    | None, [] => let '(l, a) := pair_loop rest cur [] in ((o, None) :: l, a)
    end
  end.

(* the slot name each new endpoint ends with *)
Fixpoint slot_of_pairs (t : string) (ps : list (endpoint * option endpoint)) : option string :=
  match ps with
  | [] => None
  | (o, Some c) :: ps' => if ep_target c =? t then Some (ep_name o) else slot_of_pairs t ps'
  | (_, None) :: ps' => slot_of_pairs t ps'
  end.
Fixpoint slot_of_fills (t : string) (fs : list (endpoint * endpoint)) : option string :=
  match fs with
  | [] => None
  | (c, e) :: fs' => if ep_target c =? t then Some (ep_name e) else slot_of_fills t fs'
  end.
Definition rename (ps : list (endpoint * option endpoint)) (fs : list (endpoint * endpoint)) (c : endpoint) : endpoint :=
  match slot_of_pairs (ep_target c) ps with
  | Some n => set_name c n
  | None => match slot_of_fills (ep_target c) fs with Some n => set_name c n | None => c end
  end.

(* checkBackendPair, socket work of the loop over the sorted targets *)
Fixpoint exec_pairs (id : string) (preserve : bool) (ps : list (endpoint * option endpoint))
         (resp : nat -> answer) (n : nat) : bool * list cmd :=
  match ps with
  | [] => (true, [])
  | (o, None) :: ps' =>
    let '(ok, w) := exec_disable id o resp n in
    let '(ok', w') := exec_pairs id preserve ps' resp (n + List.length w) in
    (ok && (ep_label o =? "") && ok', (w ++ w')%list)
  | (o, Some c) :: ps' =>
    let '(ok, w) := check_endpoint_pair id preserve o (set_name c (ep_name o)) resp n in
    let '(ok', w') := exec_pairs id preserve ps' resp (n + List.length w) in
    (ok && ok', (w ++ w')%list)
  end.

(* checkBackendPair, `for i := range added`: added endpoints take the empty slots *)
Fixpoint exec_fills (id : string) (preserve : bool) (fs : list (endpoint * endpoint))
         (resp : nat -> answer) (n : nat) : bool * list cmd :=
  match fs with
  | [] => (true, [])
  | (c, e) :: fs' =>
    if preserve && negb (ep_cookie c =? ep_cookie e) then
      let '(ok', w') := exec_fills id preserve fs' resp n in (false, w')
    else
      let '(ok, w) := exec_enable id (set_name c (ep_name e)) resp n in
      let '(ok', w') := exec_fills id preserve fs' resp (n + List.length w) in
      (ok && (ep_label c =? "") && ok', (w ++ w')%list)
  end.

(* checkBackendPair, `for i := len(added); i < len(empty); i++` (as repaired): the remaining empty
   slots are copied, name and cookie value *)
Fixpoint copy_empties (initw : Z) (rest : list endpoint) (eps : list endpoint) : list endpoint :=
  match rest with
  | [] => eps
  | e :: rest' =>
    let n := empty_endpoint initw (S (List.length eps)) in
    copy_empties initw rest' (eps ++ [set_cookie (set_name n (ep_name e)) (ep_cookie e)])%list
  end.

Record pair_result := mkR {
  r_updated : bool;            (* what checkBackendPair returns *)
  r_cmds : list cmd;           (* commands written to the socket, in order *)
  r_eps : list endpoint;       (* curBack.Endpoints afterwards *)
  r_panic : bool }.            (* `empty[i]` out of range in `for i := range added` *)

Definition vacated (ps : list (endpoint * option endpoint)) : list endpoint :=
  map fst (filter (fun p => match snd p with None => true | Some _ => false end) ps).

(* checkBackendPair *)
Definition check_backend_pair (old cur : backend) (resp : nat -> answer) : pair_result :=
  let upd0 := back_cfg_equal old cur in
  if (List.length (b_eps old) <? List.length (b_eps cur))%nat then mkR false [] (b_eps cur) false
  else if negb (b_resolver cur =? "") then
    mkR upd0 [] (if upd0 then add_empties (b_initw cur) (List.length (b_eps old) - List.length (b_eps cur)) (b_eps cur)
                 else b_eps cur) false
  else if negb (b_dyn cur) then
    mkR (upd0 && eps_eqb (b_eps old) (b_eps cur)) [] (b_eps cur) false
  else if dup_target (b_eps old) || dup_target (b_eps cur) then mkR false [] (b_eps cur) false
  else
    let en := filter ep_enabled (b_eps old) in
    let empty0 := filter (fun e => negb (ep_enabled e)) (b_eps old) in
    let added0 := filter (fun c => match find_target (ep_target c) en with None => true | Some _ => false end) (b_eps cur) in
    let '(ps, added) := pair_loop (sort_by_target en) (b_eps cur) added0 in
    let empty := (empty0 ++ vacated ps)%list in
    let fs := combine added empty in
    let '(ok1, w1) := exec_pairs (b_id cur) (b_preserve cur) ps resp 0 in
    let '(ok2, w2) := exec_fills (b_id cur) (b_preserve cur) fs resp (List.length w1) in
    let panic := (List.length empty <? List.length added)%nat in
    let eps1 := map (rename ps fs) (b_eps cur) in
    let eps2 := if panic then eps1 else copy_empties (b_initw cur) (skipn (List.length added) empty) eps1 in
    mkR (upd0 && ok1 && ok2) (w1 ++ w2)%list eps2 panic.

(* ------------------------------------------------------------------ alignSlots *)

Definition count_empty (eps : list endpoint) : nat := List.length (filter is_empty eps).

(* alignSlots, one backend *)
Definition align_slots (b : backend) : list endpoint :=
  if negb (b_dyn b) then b_eps b
  else
    let block := if (b_block b <? 1)%Z then 1%Z else b_block b in
    let eps := b_eps b in
    if (b_minfree b =? 0)%Z && (List.length eps =? 0)%nat then add_empties (b_initw b) (Z.to_nat block) eps
    else
      let free := Z.of_nat (count_empty eps) in
      let eps1 := add_empties (b_initw b) (Z.to_nat (b_minfree b - free)) eps in
      let newfree := (block - ((Z.of_nat (List.length eps1) + block - 1) mod block + 1))%Z in
      add_empties (b_initw b) (Z.to_nat newfree) eps1.

(* ------------------------------------------------------------------ Shrink *)

(* backendsMatch (types/backends.go): everything but PathsMap, pathConfig, Endpoints equal,
   and the non-empty endpoints are the same set of struct values *)
Definition shrink_blank : list string := ["PathsMap"; "pathConfig"; "Endpoints"].
Definition subset_eps (a b : list endpoint) : bool :=
  forallb (fun x => is_empty x || existsb (fun y => negb (is_empty y) && ep_eqb x y) b) a.
Definition backends_match (add del : backend) : bool :=
  cfg_eq_except backend_fields shrink_blank (b_cfg add) (b_cfg del) &&
  subset_eps (b_eps add) (b_eps del) && subset_eps (b_eps del) (b_eps add).
(* Backends.Shrink keeps the old object when this holds *)
Definition shrink_keeps_old (add del : backend) : bool :=
  (List.length (b_eps add) <=? List.length (b_eps del))%nat && backends_match add del.

(* ------------------------------------------------------------------ hosts, certificates *)

Definition host_fields : list string :=
  ["Hostname"; "Paths"; "Alias"; "Redirect"; "HTTPPassthroughBackend"; "RootRedirect";
   "TLS.ALPN"; "TLS.CAFilename"; "TLS.CAHash"; "TLS.CAVerify"; "TLS.Ciphers"; "TLS.CipherSuites";
   "TLS.CRLFilename"; "TLS.CRLHash"; "TLS.Options"; "TLS.TLSCommonName"; "TLS.TLSFilename"; "TLS.TLSHash";
   "TLS.TLSNotAfter"; "TLS.CAErrorPage"; "TLS.UseDefaultCrt"; "TLS.FollowRedirect";
   "VarNamespace"; "sslPassthrough"].

Record host := mkH {
  h_name : string;
  h_cfg : list N;           (* digests, see host_fields *)
  h_file : string;          (* TLS.TLSFilename *)
  h_hash : string;          (* TLS.TLSHash *)
  h_content : option string (* what readFile(TLSFilename) returns now; None = read error *) }.

Definition host_blank : list string := ["TLS.TLSCommonName"; "TLS.TLSHash"; "TLS.TLSNotAfter"].
Definition host_cfg_equal (old cur : host) : bool :=
  cfg_eq_except host_fields host_blank (h_cfg old) (h_cfg cur).
(* Hosts.Shrink: DeepEqual of the whole object *)
Definition host_same (old cur : host) : bool := cfg_eq_except host_fields [] (h_cfg old) (h_cfg cur).

(* execUpdateCert: only the answer to `commit ssl cert` is validated *)
Definition exec_update_cert (h : host) (resp : nat -> answer) (n : nat) : bool * list cmd :=
  match h_content h with
  | None => (false, [])
  | Some payload =>
    let '(w, m, e) := send [CSetCert (h_file h) payload; CCommit (h_file h)] resp n in
    (negb e && commit_ok (nth 1 m ""), w)
  end.

(* checkHostPair *)
Definition check_host_pair (old cur : host) (resp : nat -> answer) : bool * list cmd :=
  let upd0 := host_cfg_equal old cur in
  if negb (h_file cur =? "") && negb (h_hash old =? h_hash cur) && (h_file old =? h_file cur) then
    let '(ok, w) := exec_update_cert cur resp 0 in (upd0 && ok, w)
  else (upd0, []).

(* ------------------------------------------------------------------ one update *)

(* bp_early: the field digests of the re-created backend as Backends.Shrink sees them. Shrink runs
   before WriteBackendMaps, which assigns PathsMap and PathsDefaultHostMap (and builds pathConfig) on
   the ItemsAdd backends; the dynamic updater runs after it and sees b_cfg (bp_cur). *)
Record bpair := mkBP { bp_old : option backend; bp_cur : backend; bp_early : list N; bp_resp : nat -> answer }.
Definition shrink_view (p : bpair) : backend :=
  mkB (b_id (bp_cur p)) (bp_early p) (b_dyn (bp_cur p)) (b_minfree (bp_cur p)) (b_block (bp_cur p))
      (b_preserve (bp_cur p)) (b_resolver (bp_cur p)) (b_initw (bp_cur p)) (b_eps (bp_cur p)).
Record hpair := mkHP { hp_old : option host; hp_cur : host; hp_resp : nat -> answer }.

Record bres := mkBR { br_shrunk : bool; br_updated : bool; br_cmds : list cmd; br_eps : list endpoint; br_panic : bool }.

(* Backends.Shrink, then backendUpdated for one ItemsAdd backend *)
Definition backend_step (run_dyn : bool) (p : bpair) : bres :=
  match bp_old p with
  | None => mkBR false false [] (b_eps (bp_cur p)) false           (* added backend *)
  | Some old =>
    if shrink_keeps_old (shrink_view p) old then mkBR true true [] (b_eps old) false
    else if run_dyn then
      let r := check_backend_pair old (bp_cur p) (bp_resp p) in
      mkBR false (r_updated r) (r_cmds r) (r_eps r) (r_panic r)
    else mkBR false false [] (b_eps (bp_cur p)) false
  end.

Record hres := mkHR { hr_shrunk : bool; hr_updated : bool; hr_cmds : list cmd }.

Definition host_step (run_dyn : bool) (p : hpair) : hres :=
  match hp_old p with
  | None => mkHR false false []                                     (* added host *)
  | Some old =>
    if host_same old (hp_cur p) then mkHR true true []
    else if run_dyn then let '(ok, w) := check_host_pair old (hp_cur p) (hp_resp p) in mkHR false ok w
    else mkHR false false []
  end.

Record step_in := mkSI {
  si_committed : bool;       (* config.hasCommittedData() *)
  si_other_changed : bool;   (* checkConfigChange's diffs that are plain flags: global / tcp backends /
                                tcp services / frontend / userlists differ, or the default backend is not
                                the one of the last Commit (Backends.DefaultBackendChanged) *)
  si_host_removed : bool;    (* an ItemsDel host without an ItemsAdd one *)
  si_back_removed : bool;    (* an ItemsDel backend without an ItemsAdd one: backendUpdated, `pair.cur == nil` *)
  si_hosts : list hpair;     (* ItemsAdd hosts, with the ItemsDel one of the same name *)
  si_backs : list bpair;     (* ItemsAdd backends, with the ItemsDel one of the same id *)
  si_others : list backend   (* the other backends of Items() *) }.

Record step_out := mkSO {
  so_reload : bool;                    (* dynUpdater.update() = false *)
  so_backs : list bres;                (* br_eps: Endpoints kept in Items() after the update *)
  so_hosts : list hres;
  so_others : list (list endpoint) }.

(* dynUpdater.update with checkConfigChange; instance.HAProxyUpdate reloads iff
   it returns false *)
Definition step (s : step_in) : step_out :=
  let run := si_committed s in
  let bs := map (backend_step run) (si_backs s) in
  let hs := map (host_step run) (si_hosts s) in
  let updated := run && negb (si_other_changed s) && negb (si_host_removed s) && negb (si_back_removed s) &&
                 forallb hr_updated hs && forallb br_updated bs in
  if updated then mkSO false bs hs (map b_eps (si_others s))
  else
    (* alignSlots on every backend of Items() *)
    let align_res (pr : bpair * bres) :=
      let '(p, r) := pr in
      if br_panic r then r else
      mkBR (br_shrunk r) (br_updated r) (br_cmds r)
           (align_slots (set_eps (if br_shrunk r then match bp_old p with Some o => o | None => bp_cur p end else bp_cur p) (br_eps r)))
           (br_panic r) in
    mkSO true (map align_res (combine (si_backs s) bs)) hs (map align_slots (si_others s)).

(* ------------------------------------------------------------------ the simulated HAProxy *)

Record server := mkS { s_name : string; s_addr : string; s_port : Z; s_weight : Z; s_adm : adm; s_cookie : string }.
Definition run_state := list server.   (* the servers of one backend *)

(* what HAProxy loads from the line the template writes for an endpoint
   (haproxy.tmpl: server Name IP:Port [disabled] weight W [cookie V]) *)
Definition load_ep (e : endpoint) : server :=
  mkS (ep_name e) (ep_ip e) (ep_port e) (ep_weight e) (if ep_enabled e then Ready else Maint) (ep_cookie e).
Definition load (eps : list endpoint) : run_state := map load_ep eps.

Definition upd_server (n : string) (f : server -> server) (st : run_state) : run_state :=
  map (fun s => if s_name s =? n then f s else s) st.

(* `set server`: state ready/drain/maint are mutually exclusive admin states; addr/port and
   weight are overwritten. Certificate commands do not touch a backend. *)
Definition apply_cmd (st : run_state) (c : cmd) : run_state :=
  match c with
  | CAddr _ s ip p => upd_server s (fun x => mkS (s_name x) ip p (s_weight x) (s_adm x) (s_cookie x)) st
  | CState _ s a => upd_server s (fun x => mkS (s_name x) (s_addr x) (s_port x) (s_weight x) a (s_cookie x)) st
  | CWeight _ s w => upd_server s (fun x => mkS (s_name x) (s_addr x) (s_port x) w (s_adm x) (s_cookie x)) st
  | CSetCert _ _ | CCommit _ => st
  end.
Definition apply_cmds (st : run_state) (cs : list cmd) : run_state := fold_left apply_cmd cs st.

Definition lookup (n : string) (st : run_state) : option server := find (fun s => s_name s =? n) st.

(* effective weight: a server in drain or maint takes no new traffic *)
Definition eff_weight (s : server) : Z := match s_adm s with Ready => s_weight s | _ => 0%Z end.

(* what the property observes of a slot *)
Inductive slot_obs :=
| ODisabled
| OEnabled (addr : string) (port : Z) (eweight : Z) (draining : bool) (cookie : option string).
Definition obs_slot (preserve : bool) (s : server) : slot_obs :=
  match s_adm s with
  | Maint => ODisabled
  | _ => OEnabled (s_addr s) (s_port s) (eff_weight s) (eff_weight s =? 0)%Z
                  (if preserve then Some (s_cookie s) else None)
  end.
Definition obs (preserve : bool) (st : run_state) (n : string) : option slot_obs :=
  option_map (obs_slot preserve) (lookup n st).

(* certificates: HAProxy holds the content it loaded for a file and at most one transaction *)
Record cert_state := mkC { c_running : string; c_pending : option string }.
(* honest behaviour of HAProxy on the two commands, for one file *)
Definition ha_set_cert (st : cert_state) (payload : string) (accept : bool) : cert_state * string :=
  if accept then (mkC (c_running st) (Some payload), "Transaction created for certificate!")
  else (st, "unable to load certificate").
Definition ha_commit_cert (st : cert_state) : cert_state * string :=
  match c_pending st with
  | Some p => (mkC p None, "Committing. Success!")
  | None => (st, "No ongoing transaction!")
  end.
