(* Mini-converter with annotations: Model/Conv.v plus the annotation mappers of
   pkg/converters/ingress (ingress.go: addHost, addBackendWithClass, syncAnnotations /
   partialSyncAnnotations; annotations/mapper.go: AddAnnotations, Get, GetConfig).

   The cluster: Conv.v's world, the annotations of every Ingress (by ns/name: host-scoped
   keys and backend-scoped keys, as readAnnotations splits them) and the backend-scoped
   annotations of every Service.

   The converter keeps one Mapper per host and per backend object it touches in one sync:
     addHost                 adds the host-scoped annotations of the ingress to the mapper
                             of the host (one path link per host: a key keeps its first
                             declaration);
     addBackendWithClass     for the path link being configured adds the annotations of the
                             Service, then those of the ingress (a key of this path link
                             keeps its first declaration: the Service has precedence);
     Mapper.Get(key)         = the first (path link, key) entry added to the mapper, i.e.
                             the first declaration in conversion order = sortIngress order;
     Mapper.GetConfig(link)  = the declarations made for this path link.
   At the end of the sync the updaters copy the resolved values to the objects -- of ALL
   hosts and backends in a full sync, only of the ones CREATED in this sync (ItemsAdd) in a
   partial sync.  So what an object shows is what the contributions of the sync that created
   it resolve to; a contribution to an object that exists already and was not removed by
   this partial sync is lost.

   The model keeps, next to Conv.v's state, an annotation store: per target a record with
   the flag "created in the running sync" and the declarations in order (lookup = first
   match).  The Conv.v part of the state evolves exactly as in Conv.v (the annotations of
   this feature subset do not change hosts, paths, servers or tracking).
   Not modelled: validators (an invalid value is skipped, a later declaration may then
   win), the global ConfigMap defaults (the observation applies them), keys that change
   the conversion itself (path-type, ssl-passthrough, tcp-service-port, redirect-to, ...),
   IngressClass parameters. *)
From Coq Require Import List Bool String ZArith Ascii.
From HI Require Import Model.Tracker Model.Conv.
Import ListNotations.
Open Scope string_scope.
Open Scope list_scope.

Definition amap := list (string * string).            (* key -> value; lookup = first match *)

Record aworld := {
  aw_base : world;
  aw_iann : list (string * (amap * amap));   (* ns/name of an Ingress -> (host-scoped, backend-scoped) *)
  aw_sann : list (string * amap)             (* ns/name of a Service -> backend-scoped *)
}.

Definition iann (w : aworld) (i : ingress) : amap * amap :=
  match assoc (i_full i) (aw_iann w) with Some p => p | None => ([], []) end.
Definition sann (w : aworld) (full : string) : amap :=
  match assoc full (aw_sann w) with Some a => a | None => [] end.

Definition plink := (string * string * ptype)%type.   (* hostname, path, match type *)
Definition plink_eqb (a b : plink) : bool :=
  let '(h1, p1, t1) := a in let '(h2, p2, t2) := b in
  String.eqb h1 h2 && String.eqb p1 p2 && ptype_eqb t1 t2.

Record arec := {
  ar_new : bool;                      (* created in the running sync (ItemsAdd) *)
  ar_cfg : amap;                      (* the declarations, in order: Mapper.Get = first match *)
  ar_pcfg : list (plink * amap)       (* per path link: GetConfig(link) *)
}.
Definition blank : arec := {| ar_new := true; ar_cfg := []; ar_pcfg := [] |}.
Definition astore := tgt -> arec.
Definition ast := (st * astore)%type.

(* a contribution reaches the object only when the object was created in this sync *)
Definition contribute (A : astore) (t : tgt) (f : arec -> arec) : astore :=
  fun t' => if tgt_eqb t' t then (if ar_new (A t) then f (A t) else A t) else A t'.

Definition add_cfg (a : amap) (r : arec) : arec :=
  {| ar_new := ar_new r; ar_cfg := ar_cfg r ++ a; ar_pcfg := ar_pcfg r |}.
Definition add_pcfg (l : plink) (a : amap) (r : arec) : arec :=
  {| ar_new := ar_new r; ar_cfg := ar_cfg r ++ a; ar_pcfg := ar_pcfg r ++ [(l, a)] |}.

(* addHost *)
Definition a_add_host (w : aworld) (i : ingress) (hostname : string) (A : astore) : astore :=
  contribute A (THost hostname) (add_cfg (fst (iann w i))).

(* the annotation side of one path: same decisions as Conv.sync_path on the same state *)
Definition a_sync_path (w : aworld) (i : ingress) (hostname : string) (x : st) (A : astore) (r : prule) : astore :=
  let uri := if String.eqb (r_path r) "" then "/" else r_path r in
  match get_host (fst x) hostname with
  | None => A
  | Some hr =>
      if has_path hr uri (r_type r) then A
      else
        match snd (add_backend (aw_base w) i hostname r x) with
        | None => A
        | Some bid =>
            contribute A (TBack bid)
              (add_pcfg (hostname, uri, r_type r) (sann w (i_ns i ++ "/" ++ r_svc r) ++ snd (iann w i)))
        end
  end.

Definition async_path (w : aworld) (i : ingress) (hostname : string) (y : ast) (r : prule) : ast :=
  (sync_path (aw_base w) i hostname (fst y) r, a_sync_path w i hostname (fst y) (snd y) r).

Definition async_rule (w : aworld) (i : ingress) (y : ast) (rule : string * list prule) : ast :=
  let hostname := norm_host (fst rule) in
  let x0 := match i_class i with
            | Some c => (fst (fst y), track (snd (fst y)) (KClass, c) (KIngress, i_full i))
            | None => fst y
            end in
  fold_left (async_path w i hostname) (snd rule) (add_host i hostname x0, a_add_host w i hostname (snd y)).

Definition async_tls_host (w : aworld) (i : ingress) (secret : string) (y : ast) (hostname : string) : ast :=
  (sync_tls_host (aw_base w) i secret (fst y) hostname, a_add_host w i hostname (snd y)).

Definition async_tls (w : aworld) (i : ingress) (y : ast) (blk : list string * string) : ast :=
  fold_left (async_tls_host w i (snd blk)) (fst blk) y.

Definition async_ingress (w : aworld) (y : ast) (i : ingress) : ast :=
  fold_left (async_tls w i) (i_tls i) (fold_left (async_rule w i) (i_rules i) y).

(* fullSyncAnnotations: everything is new *)
Definition sync_full_a (w : aworld) : ast :=
  fold_left (async_ingress w) (sort_ings (w_ings (aw_base w))) ((empty_state, []), fun _ => blank).

(* start of a partial sync: what survives the removal is old, the rest will be created *)
Definition present (s : cstate) (t : tgt) : bool :=
  match t with
  | THost h => match get_host s h with Some _ => true | None => false end
  | TBack bk => match get_back s bk with Some _ => true | None => false end
  end.
Definition prep (s1 : cstate) (A : astore) : astore :=
  fun t => if present s1 t
           then {| ar_new := false; ar_cfg := ar_cfg (A t); ar_pcfg := ar_pcfg (A t) |}
           else blank.

Definition sync_partial_a (w' : aworld) (y : ast) (b : batch) : option ast :=
  let '((s, T), A) := y in
  let T1 := fold_left (track_added_ing (aw_base w') s) (b_add b ++ b_upd b) T in
  match query_remove node_eqb T1 (b_links b) with
  | None => None
  | Some (out, T2) =>
      let s1 := remove_all s out in
      let names := merge_names (names_of KIngress out) b in
      let ings := sort_ings (flat_map (fun n => opt_list (pick_ing (aw_base w') b n)) names) in
      Some (fold_left (async_ingress w') ings ((s1, T2), prep s1 A))
  end.

(* ---------- observation ---------- *)
Fixpoint passoc (l : plink) (pc : list (plink * amap)) : option amap :=
  match pc with
  | [] => None
  | (l', a) :: r => if plink_eqb l l' then Some a else passoc l r
  end.

(* per path: the declarations of its backend (Mapper.Get) and those made for its path link
   (None: no updater ever saw this path link on this backend) *)
Definition obs_apath (A : astore) (hn : string) (p : hpath) : string * ptype * amap * option amap :=
  (hp_path p, hp_type p, ar_cfg (A (TBack (hp_back p))),
   passoc (hn, hp_path p, hp_type p) (ar_pcfg (A (TBack (hp_back p))))).

Definition obs_ann (y : ast) (hn : string) : option (amap * list (string * ptype * amap * option amap)) :=
  match get_host (fst (fst y)) hn with
  | None => None
  | Some hr => Some (ar_cfg (snd y (THost hn)), map (obs_apath (snd y) hn) (h_paths hr))
  end.
