(* Mini-converter: model of pkg/converters/ingress/ingress.go (syncFull, syncPartial,
   trackAddedIngress, syncIngress/syncIngressHTTP, addHost, addBackendWithClass, addTLS,
   findBackend), of convutils.FindServicePort / createEndpoints, and of the parts of
   pkg/haproxy/types Hosts/Backends it drives (AcquireHost, FindPathWithLink, AddLink,
   AcquireBackend, RemoveAll), with every Track* call at the place the code makes it.

   Feature subset (the rest is abstracted, see DESIGN.md C01): HTTP rules and tls blocks
   of valid Ingresses, Services with ports, Endpoints (ready addresses), Secrets (by
   content hash; missing/invalid = default certificate), IngressClass link only.
   No annotations, no TCP services, no default backend, no ExternalName, no drain mode.

   The haproxy model state is a function from targets to content, so that a re-created
   target is simply a new value; the harness evaluates it on the finite universe of names
   of a case. *)
From Coq Require Import List Bool String ZArith Ascii.
From HI Require Import Model.Tracker.
Import ListNotations.
Open Scope string_scope.

(* ---------- tracking references ---------- *)
Inductive kind := KIngress | KClass | KConfigMap | KService | KEndpoints | KSecret | KPod
                | KHost | KBackend.

Definition kind_eqb (a b : kind) : bool :=
  match a, b with
  | KIngress, KIngress | KClass, KClass | KConfigMap, KConfigMap | KService, KService
  | KEndpoints, KEndpoints | KSecret, KSecret | KPod, KPod | KHost, KHost
  | KBackend, KBackend => true
  | _, _ => false
  end.

Definition node := (kind * string)%type.
Definition node_eqb (a b : node) : bool := kind_eqb (fst a) (fst b) && String.eqb (snd a) (snd b).

Definition ctracker := tracker node.

(* ---------- cluster ---------- *)
Inductive ptype := Exact | Prefix | Begin | Regex.
Definition ptype_eqb (a b : ptype) : bool :=
  match a, b with
  | Exact, Exact | Prefix, Prefix | Begin, Begin | Regex, Regex => true
  | _, _ => false
  end.

Record prule := { r_path : string; r_type : ptype; r_svc : string; r_port : string }.

Record ingress := {
  i_ns : string; i_name : string; i_stamp : Z;
  i_class : option string;                      (* spec.ingressClassName *)
  i_rules : list (string * list prule);         (* host ("" = default host), http paths *)
  i_tls : list (list string * string)           (* hosts, secretName *)
}.
Definition i_full (i : ingress) : string := i_ns i ++ "/" ++ i_name i.

Record svcport := { sp_name : string; sp_port : Z; sp_target : string }.
Record service := { s_ns : string; s_name : string; s_ports : list svcport }.
Definition s_full (s : service) : string := s_ns s ++ "/" ++ s_name s.

(* one (subset, port) of an Endpoints object: port name, port number, ready addresses *)
Record subset := { ss_name : string; ss_port : Z; ss_ready : list string }.

Record world := {
  w_ings : list ingress;                        (* the valid ingresses, any order *)
  w_svcs : list service;
  w_eps : list (string * list subset);          (* ns/name -> subsets *)
  w_secrets : list (string * string)            (* ns/name -> content hash of a valid tls secret *)
}.

Fixpoint assoc {A} (k : string) (l : list (string * A)) : option A :=
  match l with
  | [] => None
  | (k', v) :: r => if String.eqb k k' then Some v else assoc k r
  end.

Definition find_svc (w : world) (full : string) : option service :=
  find (fun s => String.eqb (s_full s) full) (w_svcs w).
Definition find_ing (w : world) (full : string) : option ingress :=
  find (fun i => String.eqb (i_full i) full) (w_ings w).

(* convutils.FindServicePort: the name of a service port, then the number of a service
   port, then (legacy) a target port written the same way. The model keeps the string and
   the number of every service port; portnum is strconv.ParseInt of the requested port. *)
Definition find_port (s : service) (port : string) (portnum : option Z) : option svcport :=
  match find (fun p => String.eqb (sp_name p) port) (s_ports s) with
  | Some p => Some p
  | None =>
      match match portnum with
            | None => None
            | Some n => find (fun p => Z.eqb (sp_port p) n) (s_ports s)
            end with
      | Some p => Some p
      | None => find (fun p => String.eqb (sp_target p) port) (s_ports s)
      end
  end.

(* decimal string -> number, as strconv.ParseInt accepts it (optional sign, digits) *)
Definition digit (c : ascii) : option Z :=
  let n := Z.of_nat (nat_of_ascii c) in
  if (48 <=? n)%Z && (n <=? 57)%Z then Some (n - 48)%Z else None.
Fixpoint digits (s : string) (acc : Z) : option Z :=
  match s with
  | EmptyString => Some acc
  | String c r => match digit c with Some d => digits r (acc * 10 + d)%Z | None => None end
  end.
Definition parse_int (s : string) : option Z :=
  match s with
  | EmptyString => None
  | String "-" r => match r with EmptyString => None | _ => option_map Z.opp (digits r 0) end
  | String "+" r => match r with EmptyString => None | _ => digits r 0 end
  | _ => digits s 0
  end.

Definition backend_id (ns name target : string) : string := ns ++ "_" ++ name ++ "_" ++ target.

(* createEndpoints: ready addresses of the subsets whose port matches *)
Definition servers (w : world) (svc : service) (p : svcport) : list (string * Z) :=
  match assoc (s_full svc) (w_eps w) with
  | None => []
  | Some subs =>
      flat_map (fun ss =>
        if String.eqb (sp_name p) "" || String.eqb (sp_name p) (ss_name ss)
        then map (fun ip => (ip, ss_port ss)) (ss_ready ss) else []) subs
  end.

(* ---------- haproxy model state ---------- *)
Inductive tgt := THost (h : string) | TBack (b : string).
Definition tgt_eqb (a b : tgt) : bool :=
  match a, b with
  | THost x, THost y => String.eqb x y
  | TBack x, TBack y => String.eqb x y
  | _, _ => false
  end.

Record hpath := { hp_path : string; hp_type : ptype; hp_back : string }.
Record hostrec := { h_paths : list hpath; h_tls : option string }.   (* tls: hash, "" never *)
Record backrec := { b_servers : list (string * Z) }.
Inductive content := CHost (h : hostrec) | CBack (b : backrec).

Definition cstate := tgt -> option content.
Definition upd (s : cstate) (t : tgt) (c : content) : cstate :=
  fun t' => if tgt_eqb t' t then Some c else s t'.
Definition del (s : cstate) (t : tgt) : cstate :=
  fun t' => if tgt_eqb t' t then None else s t'.

Definition get_host (s : cstate) (h : string) : option hostrec :=
  match s (THost h) with Some (CHost r) => Some r | _ => None end.
Definition get_back (s : cstate) (b : string) : option backrec :=
  match s (TBack b) with Some (CBack r) => Some r | _ => None end.

Definition empty_host : hostrec := {| h_paths := []; h_tls := None |}.
Definition default_host : string := "<default>".
Definition default_crt : string := "DEFAULT".

Definition st := (cstate * ctracker)%type.

(* AcquireHost + the tracking of addHost *)
Definition add_host (i : ingress) (hostname : string) (x : st) : st :=
  let '(s, T) := x in
  let s' := match get_host s hostname with
            | Some _ => s
            | None => upd s (THost hostname) (CHost empty_host)
            end in
  (s', track T (KIngress, i_full i) (KHost, hostname)).

Definition has_path (r : hostrec) (path : string) (ty : ptype) : bool :=
  existsb (fun p => String.eqb (hp_path p) path && ptype_eqb (hp_type p) ty) (h_paths r).

(* the port of addBackendWithClass: an unspecified port means the first port of the service *)
Definition pick_port (svc : service) (port : string) : option svcport :=
  if String.eqb port "" then match s_ports svc with p :: _ => Some p | [] => None end
  else find_port svc port (parse_int port).

(* addBackendWithClass, up to AcquireBackend; returns the backend id when it succeeds *)
Definition add_backend (w : world) (i : ingress) (hostname : string) (r : prule) (x : st)
  : st * option string :=
  let '(s, T) := x in
  let full := i_ns i ++ "/" ++ r_svc r in
  let T1 := track (track T (KService, full) (KHost, hostname)) (KEndpoints, full) (KHost, hostname) in
  match find_svc w full with
  | None => ((s, T1), None)
  | Some svc =>
      match pick_port svc (r_port r) with
      | None => ((s, T1), None)
      | Some p =>
          let bid := backend_id (s_ns svc) (s_name svc) (sp_target p) in
          let s' := match get_back s bid with
                    | Some _ => s
                    | None => upd s (TBack bid) (CBack {| b_servers := servers w svc p |})
                    end in
          ((s', track T1 (KIngress, i_full i) (KBackend, bid)), Some bid)
      end
  end.

Definition norm_host (h : string) : string := if String.eqb h "" then default_host else h.

(* one path of a rule *)
Definition sync_path (w : world) (i : ingress) (hostname : string) (x : st) (r : prule) : st :=
  let uri := if String.eqb (r_path r) "" then "/" else r_path r in
  match get_host (fst x) hostname with
  | None => x                                   (* cannot happen: add_host ran *)
  | Some hr =>
      if has_path hr uri (r_type r) then x      (* skipping redeclared path *)
      else
        let '(x1, ob) := add_backend w i hostname r x in
        match ob with
        | None => x1
        | Some bid =>
            let '(s1, T1) := x1 in
            match get_host s1 hostname with
            | None => x1
            | Some hr1 =>
                (upd s1 (THost hostname)
                     (CHost {| h_paths := h_paths hr1 ++ [{| hp_path := uri; hp_type := r_type r; hp_back := bid |}];
                               h_tls := h_tls hr1 |}), T1)
            end
        end
  end.

Definition sync_rule (w : world) (i : ingress) (x : st) (rule : string * list prule) : st :=
  let hostname := norm_host (fst rule) in
  let x0 := match i_class i with
            | Some c => (fst x, track (snd x) (KClass, c) (KIngress, i_full i))
            | None => x
            end in
  fold_left (sync_path w i hostname) (snd rule) (add_host i hostname x0).

(* addTLS: the hash of the secret, or the default certificate *)
Definition tls_of (w : world) (i : ingress) (secret : string) (T : ctracker) : string * ctracker :=
  if String.eqb secret "" then (default_crt, T)
  else
    let full := i_ns i ++ "/" ++ secret in
    let T' := track T (KIngress, i_full i) (KSecret, full) in
    match assoc full (w_secrets w) with
    | Some h => (h, T')
    | None => (default_crt, T')
    end.

Definition sync_tls_host (w : world) (i : ingress) (secret : string) (x : st) (hostname : string) : st :=
  let '(s1, T1) := add_host i hostname x in
  let '(hash, T2) := tls_of w i secret T1 in
  match get_host s1 hostname with
  | None => (s1, T2)
  | Some hr =>
      match h_tls hr with
      | None => (upd s1 (THost hostname) (CHost {| h_paths := h_paths hr; h_tls := Some hash |}), T2)
      | Some _ => (s1, T2)
      end
  end.

Definition sync_tls (w : world) (i : ingress) (x : st) (blk : list string * string) : st :=
  fold_left (sync_tls_host w i (snd blk)) (fst blk) x.

(* syncIngress (HTTP) *)
Definition sync_ingress (w : world) (x : st) (i : ingress) : st :=
  fold_left (sync_tls w i) (i_tls i) (fold_left (sync_rule w i) (i_rules i) x).

(* sortIngress: insertion sort by (creation, ns/name) -- sort.Slice with a strict total order
   on distinct names gives the same list whatever the algorithm *)
Fixpoint str_ltb (a b : string) : bool :=
  match a, b with
  | EmptyString, EmptyString => false
  | EmptyString, _ => true
  | _, EmptyString => false
  | String x a', String y b' =>
      let nx := nat_of_ascii x in let ny := nat_of_ascii y in
      if Nat.ltb nx ny then true else if Nat.ltb ny nx then false else str_ltb a' b'
  end.
Definition ing_ltb (a b : ingress) : bool :=
  if Z.eqb (i_stamp a) (i_stamp b) then str_ltb (i_full a) (i_full b) else Z.ltb (i_stamp a) (i_stamp b).
Fixpoint insert_ing (i : ingress) (l : list ingress) : list ingress :=
  match l with
  | [] => [i]
  | j :: r => if ing_ltb j i then j :: insert_ing i r else i :: l
  end.
Definition sort_ings (l : list ingress) : list ingress := fold_right insert_ing [] l.

Definition empty_state : cstate := fun _ => None.

(* syncFull (ClearLinks + Clear ran before) *)
Definition sync_full (w : world) : st :=
  fold_left (sync_ingress w) (sort_ings (w_ings w)) (empty_state, []).

(* ---------- partial sync ---------- *)
Record batch := {
  b_links : list node;           (* changed.Links, flattened *)
  b_add : list ingress;          (* changed.IngressesAdd *)
  b_upd : list ingress;          (* changed.IngressesUpd *)
  b_del : list string            (* changed.IngressesDel, ns/name *)
}.

(* findBackend of trackAddedIngress *)
Definition find_backend (w : world) (s : cstate) (i : ingress) (r : prule) : option string :=
  match find_svc w (i_ns i ++ "/" ++ r_svc r) with
  | None => None
  | Some svc =>
      match find_port svc (r_port r) (parse_int (r_port r)) with
      | None => None
      | Some p =>
          let bid := backend_id (s_ns svc) (s_name svc) (sp_target p) in
          match get_back s bid with Some _ => Some bid | None => None end
      end
  end.

Definition track_added_ing (w : world) (s : cstate) (T : ctracker) (i : ingress) : ctracker :=
  let T1 :=
    fold_left (fun T rule =>
      let T' := track T (KIngress, i_full i) (KHost, norm_host (fst rule)) in
      fold_left (fun T r =>
        match find_backend w s i r with
        | Some bid => track T (KIngress, i_full i) (KBackend, bid)
        | None => T
        end) (snd rule) T') (i_rules i) T in
  (* hosts of the tls blocks (see the fix: commit in /repo) *)
  fold_left (fun T blk =>
    fold_left (fun T h => track T (KIngress, i_full i) (KHost, h)) (fst blk) T) (i_tls i) T1.

Definition names_of (k : kind) (out : list node) : list string :=
  map snd (filter (fun n => kind_eqb (fst n) k) out).

Definition remove_all (s : cstate) (out : list node) : cstate :=
  fun t =>
    match t with
    | THost h => if mem node_eqb (KHost, h) out then None else s t
    | TBack b => if mem node_eqb (KBackend, b) out then None else s t
    end.

Fixpoint dedup (l : list string) : list string :=
  match l with
  | [] => []
  | x :: r => if existsb (String.eqb x) r then dedup r else x :: dedup r
  end.

(* the merge of dirty / deleted / updated / added ingresses of syncPartial: names first.
   Updated ingresses are always part of the list (an ingress that configured nothing so
   far has no tracking link, so the tracker does not find it), unless also deleted. *)
Definition merge_names (dirty : list string) (b : batch) : list string :=
  let alive := fun n => negb (existsb (String.eqb n) (b_del b)) in
  dedup (filter alive dirty ++ filter alive (map i_full (b_upd b)) ++ map i_full (b_add b)).

(* the object synced for a name: the added object of that name if any -- unless the
   same ingress was also updated or deleted in the batch, then the lists do not tell what
   happened last and the cache is asked -- else the cache *)
Definition pick_ing (w : world) (b : batch) (name : string) : option ingress :=
  if existsb (String.eqb name) (b_del b) || existsb (fun i => String.eqb (i_full i) name) (b_upd b)
  then find_ing w name
  else
    match find (fun i => String.eqb (i_full i) name) (rev (b_add b)) with
    | Some i => Some i
    | None => find_ing w name
    end.

Definition opt_list {A} (o : option A) : list A := match o with Some a => [a] | None => [] end.

Definition sync_partial (w' : world) (x : st) (b : batch) : option st :=
  let '(s, T) := x in
  let T1 := fold_left (track_added_ing w' s) (b_add b ++ b_upd b) T in
  match query_remove node_eqb T1 (b_links b) with
  | None => None
  | Some (out, T2) =>
      let s1 := remove_all s out in
      let names := merge_names (names_of KIngress out) b in
      let ings := sort_ings (flat_map (fun n => opt_list (pick_ing w' b n)) names) in
      Some (fold_left (sync_ingress w') ings (s1, T2))
  end.

(* ---------- observation (what the normal form of the written files shows) ---------- *)
(* per host: its paths with the servers they reach and its certificate; hosts without any
   path and without a certificate of their own are not observable *)
Definition obs_path (s : cstate) (p : hpath) : string * ptype * list (string * Z) :=
  (hp_path p, hp_type p, match get_back s (hp_back p) with Some b => b_servers b | None => [] end).

Definition obs_host (s : cstate) (h : string) : option (list (string * ptype * list (string * Z)) * option string) :=
  match get_host s h with
  | None => None
  | Some r => Some (map (obs_path s) (h_paths r), h_tls r)
  end.
