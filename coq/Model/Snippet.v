(* Model of the configuration-snippet handling of
   pkg/converters/ingress/annotations:
     - utils.LineToSlice                      (pkg/utils/utils.go)
     - firstToken, buildBackendCustomConfig   (backend.go)
     - Mapper.addAnnotation / Mapper.Get for ONE key (mapper.go), which is how
       several annotations (service, ingress, ingress class parameters, several
       paths) merge into the one `config-backend` value of a backend
     - buildGlobalCustomConfig (global.go), the global-scope snippet keys
     - UpdateTCPPortConfig's config-tcp-service (updater.go, after the fix
       fixes/C19-tcp-service-snippet-filter.patch)
   Strings are Coq `string`s = lists of bytes, as Go strings are.
   Definitions only; proofs are in Proofs/Snippet.v. *)
From Coq Require Import String Ascii List Bool NArith.
From HI Require Import Lib.Snippet_Strs.
Import ListNotations.
Open Scope string_scope.

(* var asciiSpace = [256]uint8{'\t': 1, '\n': 1, '\v': 1, '\f': 1, '\r': 1, ' ': 1} *)
Definition is_space (c : ascii) : bool :=
  let n := N_of_ascii c in
  ((n =? 9) || (n =? 10) || (n =? 11) || (n =? 12) || (n =? 13) || (n =? 32))%N.

Definition is_nl (c : ascii) : bool := (N_of_ascii c =? 10)%N.

(* first loop of firstToken: advance `start` while asciiSpace[s[start]] != 0 *)
Fixpoint skip_spaces (s : string) : string :=
  match s with
  | EmptyString => EmptyString
  | String c r => if is_space c then skip_spaces r else s
  end.

(* second loop: advance `end` until asciiSpace[s[end]] == 1; s[start:end] *)
Fixpoint take_word (s : string) : string :=
  match s with
  | EmptyString => EmptyString
  | String c r => if is_space c then EmptyString else String c (take_word r)
  end.

Definition first_token (s : string) : string := take_word (skip_spaces s).

(* strings.TrimRight(s, "\n") *)
Fixpoint trim_right_nl (s : string) : string :=
  match s with
  | EmptyString => EmptyString
  | String c r =>
      let r' := trim_right_nl r in
      if is_nl c && is_empty r' then EmptyString else String c r'
  end.

(* strings.Split(s, "\n"): always at least one element *)
Fixpoint split_nl (s : string) : list string :=
  match s with
  | EmptyString => [EmptyString]
  | String c r =>
      if is_nl c then EmptyString :: split_nl r
      else match split_nl r with
           | [] => [String c EmptyString]
           | h :: t => String c h :: t
           end
  end.

(* utils.LineToSlice; Go's nil slice is [] *)
Definition line_to_slice (s : string) : list string :=
  if is_empty s then [] else split_nl (trim_right_nl s).

(* the loop over c.options.DisableKeywords; true = the snippet is skipped *)
Fixpoint blocked (kws : list string) (lines : list string) : bool :=
  match kws with
  | [] => false
  | k :: ks =>
      if is_empty k then blocked ks lines
      else if String.eqb k "*" then true
      else if existsb (fun l => String.eqb (first_token l) k) lines then true
      else blocked ks lines
  end.

(* buildBackendCustomConfig on the value returned by mapper.Get(config-backend):
   None = backend.CustomConfig left untouched (nil on a new backend),
   Some ls = backend.CustomConfig := ls *)
Definition custom_config (kws : list string) (value : string) : option (list string) :=
  match line_to_slice value with
  | [] => None
  | lines => if blocked kws lines then None else Some lines
  end.

(* Mapper, one key.  Each AddAnnotations call that carries the key is (path, value);
   a path keeps the first value it received; configByKey[key] lists, in call order,
   one entry per path. *)
Definition add := (N * string)%type.

Fixpoint by_key (seen : list N) (adds : list add) : list string :=
  match adds with
  | [] => []
  | (p, v) :: r =>
      if existsb (N.eqb p) seen then by_key seen r
      else v :: by_key (p :: seen) r
  end.

(* Mapper.Get: configs[0], else the default (global ConfigMap / built-in), else "" *)
Definition mapper_get (adds : list add) (dflt : option string) : string :=
  match by_key [] adds with
  | v :: _ => v
  | [] => match dflt with Some v => v | None => EmptyString end
  end.

(* backend.CustomConfig after UpdateBackendConfig on a new backend *)
Definition backend_custom (kws : list string) (adds : list add) (dflt : option string)
  : list string :=
  match custom_config kws (mapper_get adds dflt) with
  | Some ls => ls
  | None => []
  end.

(* UpdateTCPPortConfig: tcp.CustomConfig from config-tcp-service.  A value registered by
   an annotation (mapper.Get(...).Source != nil) goes through the same filter; the
   default of the global ConfigMap does not. *)
Definition tcp_custom (kws : list string) (adds : list add) (dflt : option string)
  : list string :=
  match by_key [] adds with
  | v :: _ => match custom_config kws v with Some ls => ls | None => [] end
  | [] => line_to_slice (match dflt with Some v => v | None => EmptyString end)
  end.

(* global-scope snippet keys of the global ConfigMap (buildGlobalCustomConfig).
   The updater holds the keyword list (options.DisableKeywords) but this function
   does not read it: `kws` is an explicit, unused, argument. *)
Record global_keys := {
  g_global : string; g_defaults : string; g_fe_early : string; g_fe : string;
  g_fe_late : string; g_sections : string; g_tcp : string }.

Record global_out := {
  o_global : list string; o_defaults : list string; o_fe_early : list string;
  o_fe_late : list string; o_sections : list string; o_tcp : list string }.

Definition global_custom (kws : list string) (g : global_keys) : global_out :=
  let late := line_to_slice (g_fe_late g) in
  {| o_global := line_to_slice (g_global g);
     o_defaults := line_to_slice (g_defaults g);
     o_fe_early := line_to_slice (g_fe_early g);
     o_fe_late := match late with [] => line_to_slice (g_fe g) | _ => late end;
     o_sections := line_to_slice (g_sections g);
     o_tcp := line_to_slice (g_tcp g) |}.

(* ------------------------------------------------------------------ *)
(* what is written.  The template renders every line of backend.CustomConfig as
       "    {{ $snippet }}"  + end of line
   and template.writeToDisk() writes the rendered bytes as they are: `write` is the
   identity.  That is a HYPOTHESIS about the code after the updater; it is checked byte for
   byte by every correspondence case that writes the files (Corr_C19.cwritten), so any
   post-processing of the rendered text (trimming, end of line conversion ...) shows. *)
Definition LF : string := String (ascii_of_N 10) EmptyString.
Definition write_line (l : string) : string := "    " ++ l ++ LF.
Fixpoint written (ls : list string) : string :=
  match ls with
  | [] => EmptyString
  | l :: r => write_line l ++ written r
  end.

(* HAProxy reads a written file line by line (LF), and in a line an unquoted CR ends the
   statement like LF does: what stands between a CR and the next LF is not read.  The first
   word of the statement is delimited by space and tab. *)
Definition is_cr (c : ascii) : bool := (N_of_ascii c =? 13)%N.
Definition is_sptab (c : ascii) : bool := let n := N_of_ascii c in ((n =? 32) || (n =? 9))%N.

Fixpoint cut_cr (s : string) : string :=
  match s with
  | EmptyString => EmptyString
  | String c r => if is_cr c then EmptyString else String c (cut_cr r)
  end.
Fixpoint skip_sptab (s : string) : string :=
  match s with
  | EmptyString => EmptyString
  | String c r => if is_sptab c then skip_sptab r else s
  end.
Fixpoint take_sptab (s : string) : string :=
  match s with
  | EmptyString => EmptyString
  | String c r => if is_sptab c then EmptyString else String c (take_sptab r)
  end.
Definition haproxy_word (line : string) : string := take_sptab (skip_sptab (cut_cr line)).

(* ------------------------------------------------------------------ *)
(* vocabulary of the statements *)

Definition nl : ascii := ascii_of_N 10.
Definition NL : string := String nl EmptyString.

Fixpoint all_space (s : string) : bool :=
  match s with EmptyString => true | String c r => is_space c && all_space r end.
Fixpoint no_space (s : string) : bool :=
  match s with EmptyString => true | String c r => negb (is_space c) && no_space r end.
Fixpoint no_nl (s : string) : bool :=
  match s with EmptyString => true | String c r => negb (is_nl c) && no_nl r end.

(* "rest" is empty or starts with one of the six ASCII spaces *)
Definition starts_space (s : string) : Prop :=
  s = EmptyString \/ exists c r, s = String c r /\ is_space c = true.

(* text before a line: nothing, or something ending with a newline *)
Definition ends_line (pre : string) : Prop :=
  pre = EmptyString \/ exists p, pre = p ++ NL.
(* text after a line: nothing, or something starting with a newline *)
Definition begins_line (post : string) : Prop :=
  post = EmptyString \/ exists p, post = NL ++ p.

Fixpoint nls (n : nat) : string :=
  match n with O => EmptyString | S m => String nl (nls m) end.

Fixpoint join_nl (l : list string) : string :=
  match l with
  | [] => EmptyString
  | [x] => x
  | x :: r => x ++ NL ++ join_nl r
  end.

(* the keyword list has a non-empty entry that is `*` or the first token of a line *)
Definition hits (kws lines : list string) : Prop :=
  exists k, In k kws /\ k <> EmptyString /\
    (k = "*" \/ exists l, In l lines /\ first_token l = k).

