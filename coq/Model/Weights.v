(* Model of pkg/converters/utils/lbweight.go (RebalanceWeight, gcd, lcm) and of the
   weight handling around it (blue/green clamping and zeroing in
   annotations/backend.go buildBackendBlueGreenBalance, base 128 in gateway.go).
   Definitions only; proofs are in Proofs/Weights.v.
   Go `int` is modelled as unbounded Z: the theorems assume products do not wrap
   (lcm of replica counts * 256 * 256 < 2^63), see DESIGN.md C16. *)
From Coq Require Import ZArith List Bool.
Import ListNotations.
Open Scope Z_scope.

Record cluster := { cw : Z; clen : Z }.

(* func lcm(a, b int) int { return a * (b / gcd(a, b)) } ; gcd is Euclid's loop,
   which on non-negative arguments computes Z.gcd *)
Definition go_lcm (a b : Z) : Z := a * (b / Z.gcd a b).

(* first loop: lcmCount *)
Definition lcm_step (acc : Z) (c : cluster) : Z :=
  if clen c =? 0 then acc
  else if 0 <? acc then go_lcm acc (clen c) else clen c.
Definition lcm_count (cls : list cluster) : Z := fold_left lcm_step cls 0.

(* clusterWeight := cl.Weight * lcmCount / cl.Length *)
Definition cweight (L : Z) (c : cluster) : Z := cw c * L / clen c.

(* second loop: gcdClusterWeight, minWeight (-1 = unset), maxWeight *)
Record agg := { ag : Z; amin : Z; amax : Z }.
Definition agg0 : agg := {| ag := 0; amin := -1; amax := 0 |}.
Definition agg_step (L : Z) (a : agg) (c : cluster) : agg :=
  if (clen c =? 0) || (cw c =? 0) then a
  else
    let x := cweight L c in
    {| ag := if 0 <? ag a then Z.gcd (ag a) x else x;
       amin := if (x <? amin a) || (amin a <? 0) then x else amin a;
       amax := if amax a <? x then x else amax a |}.
Definition aggregate (L : Z) (cls : list cluster) : agg := fold_left (agg_step L) cls agg0.

(* third loop, per cluster *)
Definition new_weight (L : Z) (a : agg) (iw : Z) (c : cluster) : Z :=
  if clen c =? 0 then cw c
  else
    let x := cweight L c in
    if 256 * amin a <? iw * amax a then
      let p := 256 * x / amax a in
      if (p =? 0) && (0 <? cw c) then 1 else p
    else iw * x / amin a.

(* RebalanceWeight: the list of new cl.Weight values, in order *)
Definition rebalance (cls : list cluster) (iw : Z) : list Z :=
  let L := lcm_count cls in
  if L =? 0 then map cw cls
  else
    let a := aggregate L cls in
    if ag a =? 0 then map cw cls
    else map (new_weight L a iw) cls.

(* blue/green: clamp of a parsed weight *)
Definition clamp256 (w : Z) : Z := if w <? 0 then 0 else if 256 <? w then 256 else w.

(* blue/green, reduced to what decides server weights (buildBackendBlueGreenBalance).
   An endpoint is (draining?, indices of the groups whose label its pod carries, in
   increasing order). Group i gets Length = number of non-draining endpoints carrying it.
   Draining (weight 0) endpoints are left out; endpoints matching no group get 0. *)
Definition bg_endpoint := (bool * list nat)%type.

Definition bg_lengths (ngroups : nat) (eps : list bg_endpoint) : list Z :=
  map (fun i => Z.of_nat (length (filter (fun e : bg_endpoint =>
         negb (fst e) && existsb (Nat.eqb i) (snd e)) eps))) (seq 0 ngroups).

(* the group whose weight an endpoint ends up with: the last matching one *)
Definition bg_group (ngroups : nat) (e : bg_endpoint) : option nat :=
  match rev (filter (fun i => Nat.ltb i ngroups) (snd e)) with
  | [] => None
  | i :: _ => Some i
  end.

Definition bg_clusters (ws : list Z) (eps : list bg_endpoint) : list cluster :=
  let ws' := map clamp256 ws in
  map (fun p : Z * Z => {| cw := fst p; clen := snd p |}) (combine ws' (bg_lengths (length ws') eps)).

(* mode deploy: weights rebalanced by the number of replicas of each group *)
Definition bg_server_weights (ws : list Z) (iw : Z) (eps : list bg_endpoint) : list Z :=
  let out := rebalance (bg_clusters ws eps) iw in
  map (fun e : bg_endpoint =>
    if fst e then 0 else
    match bg_group (length ws) e with
    | None => 0
    | Some i => nth i out 0
    end) eps.

(* mode pod: the configured (clamped) weight of the group, as is *)
Definition bg_pod_weights (ws : list Z) (eps : list bg_endpoint) : list Z :=
  map (fun e : bg_endpoint =>
    if fst e then 0 else
    match bg_group (length ws) e with
    | None => 0
    | Some i => nth i (map clamp256 ws) 0
    end) eps.
