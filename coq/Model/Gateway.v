(* Model of the Gateway API converter (property C10), call by call:
     pkg/converters/gateway/gateway.go   Sync (full), sortHTTPRoutes/sortTCPRoutes, syncRoute,
                                          syncHTTPRouteGateway, syncTCPRouteGateway,
                                          checkListenerAllowed{,Kind,Namespace}, filterHostnames,
                                          createHTTPHosts, createTCPService, createBackend
     pkg/controller/services/cache.go    GetGateway (nil for a gateway whose class is not ours)
     pkg/converters/utils/services.go    FindServicePort, createEndpoints
     k8s.io/apimachinery                 LabelSelectorAsSelector + Selector.Matches
   Backend weights go through the C16 model (HI.Model.Weights.rebalance, base 128).
   Definitions only; proofs are in Proofs/Gateway.v.

   Two drivers are given.  `attach_impl` is the converter on object sets whose listeners do not
   use TLS passthrough (one API version); the C10 theorems are proved about it.  `attach_impl_x`
   / `attach_versions` add what passthrough does (backend ModeTCP, ssl-passthrough hosts, the
   root path moved to HTTPPassthroughBackend, duplicate links) and the successive syncs of the
   enabled API versions (v1, v1beta1, v1alpha2) over one shared haproxy model; the correspondence
   runs that one, and Proofs/Gateway.v shows that it coincides with `attach_impl` when no
   listener is in passthrough mode.
   Not modelled (kept out of the generated inputs): the certificate chosen by certificateRefs
   (it does not gate attachment), ExternalName services, endpoint slices, syntactic validation of
   label keys and values.
   The Kind of a route is what the client reports in its TypeMeta (rt_kind): the informer cache
   of controller-runtime reports "HTTPRoute"/"TCPRoute", the bare fake client reports "". *)
From Coq Require Import ZArith NArith List Bool String Ascii DecimalString.
From HI Require Import Model.Weights.
Import ListNotations.
Open Scope string_scope.

Definition ostr := option string.      (* a *string: None = nil *)

(* ------------------------------------------------------------------ objects *)

Record gwclass := { gc_name : string; gc_controller : string }.

Record label_req := { lr_key : string; lr_op : string; lr_values : list string }.
Record selector := { sel_labels : list (string * string); sel_exprs : list label_req }.

Record route_ns := { rn_from : ostr; rn_selector : option selector }.
(* kinds: (group, kind) *)
Record allowed := { al_kinds : list (ostr * string); al_namespaces : option route_ns }.
(* l_tls: None = no tls block, Some m = a tls block whose mode pointer is m *)
Record listener := { l_name : string; l_hostname : ostr; l_port : Z; l_protocol : string;
                     l_tls : option ostr; l_allowed : option allowed }.
Record gateway := { g_ns : string; g_name : string; g_class : string; g_listeners : list listener }.

Record parentref := { p_group : ostr; p_kind : ostr; p_ns : ostr; p_name : string; p_section : ostr }.
(* header match: name, value, type (nil-able) *)
Record hheader := { hh_name : string; hh_value : string; hh_type : ostr }.
Definition hh_regex (h : hheader) : bool :=
  match hh_type h with Some t => String.eqb t "RegularExpression" | None => false end.
(* path: None = no path match; Some (type, value) with nil-able members *)
Record hmatch := { m_path : option (ostr * ostr); m_headers : list hheader }.
Record backendref := { b_name : string; b_port : option Z; b_weight : option Z }.
Record rrule := { r_matches : list hmatch; r_backends : list backendref }.
(* HTTPRoute (rt_tcp = false) or TCPRoute (rt_tcp = true; no hostnames, no matches) *)
Record route := { rt_tcp : bool; rt_kind : string; rt_ns : string; rt_name : string; rt_ts : Z;
                  rt_parents : list parentref; rt_hostnames : list string; rt_rules : list rrule }.

(* service port: name, port, targetPort when it is a number *)
Record svcport := { sp_name : string; sp_port : Z; sp_target : option Z }.
(* Endpoints subset: ready addresses, ports (name, port, protocol is TCP) *)
Record subset := { ss_addrs : list string; ss_ports : list (string * Z * bool) }.
(* sv_endpoints = None: no Endpoints object *)
Record service := { sv_ns : string; sv_name : string; sv_ports : list svcport;
                    sv_endpoints : option (list subset) }.

Record cluster := {
  c_controller : string;                               (* --controller-class / ControllerName *)
  c_classes : list gwclass;
  c_gateways : list gateway;
  c_routes : list route;
  c_services : list service;
  c_namespaces : list (string * list (string * string)) }.

(* ------------------------------------------------------------------ small helpers *)

Definition gateway_group : string := "gateway.networking.k8s.io".
Definition default_host : string := "<default>".
Definition nl : string := String (ascii_of_nat 10) EmptyString.

(* a *string that is nil or points to "" takes the default *)
Definition or_default (o : ostr) (d : string) : string :=
  match o with Some s => if String.eqb s "" then d else s | None => d end.

Definition nat_str (n : nat) : string := NilEmpty.string_of_uint (Nat.to_uint n).

Fixpoint assoc (k : string) (l : list (string * string)) : option string :=
  match l with
  | [] => None
  | (x, v) :: t => if String.eqb k x then Some v else assoc k t
  end.

Definition str_mem (s : string) (l : list string) : bool := existsb (String.eqb s) l.

(* ------------------------------------------------------------------ class and gateway lookup *)

Definition class_ours (cl : cluster) (g : gateway) : bool :=
  match find (fun c => String.eqb (gc_name c) (g_class g)) (c_classes cl) with
  | Some c => String.eqb (gc_controller c) (c_controller cl)
  | None => false
  end.

(* cache.GetGateway + newGatewaySource: no source for a missing gateway or a foreign class *)
Definition get_gateway (cl : cluster) (ns name : string) : option gateway :=
  match find (fun g => String.eqb (g_ns g) ns && String.eqb (g_name g) name) (c_gateways cl) with
  | Some g => if class_ours cl g then Some g else None
  | None => None
  end.

(* ------------------------------------------------------------------ route order *)

Definition route_key (r : route) : string := rt_ns r ++ "/" ++ rt_name r.
Definition route_lt (a b : route) : bool :=
  if Z.eqb (rt_ts a) (rt_ts b) then String.ltb (route_key a) (route_key b)
  else Z.ltb (rt_ts a) (rt_ts b).
Fixpoint insert_route (r : route) (l : list route) : list route :=
  match l with
  | [] => [r]
  | x :: t => if route_lt r x then r :: l else x :: insert_route r t
  end.
Definition sort_routes (l : list route) : list route := fold_right insert_route [] l.

(* ------------------------------------------------------------------ listener admission *)

(* checkListenerAllowedKind *)
Definition kind_allowed (kinds : list (ostr * string)) (rkind : string) : bool :=
  match kinds with
  | [] => true
  | _ => existsb (fun gk : ostr * string =>
                    (match fst gk with None => true | Some g => String.eqb g gateway_group end)
                    && String.eqb (snd gk) rkind) kinds
  end.

(* labels.NewRequirement: operator and number of values *)
Definition req_valid (r : label_req) : bool :=
  if String.eqb (lr_op r) "In" || String.eqb (lr_op r) "NotIn"
  then negb (match lr_values r with [] => true | _ => false end)
  else if String.eqb (lr_op r) "Exists" || String.eqb (lr_op r) "DoesNotExist"
  then match lr_values r with [] => true | _ => false end
  else false.

(* Requirement.Matches *)
Definition req_matches (ls : list (string * string)) (r : label_req) : bool :=
  if String.eqb (lr_op r) "In" then
    match assoc (lr_key r) ls with Some v => str_mem v (lr_values r) | None => false end
  else if String.eqb (lr_op r) "NotIn" then
    match assoc (lr_key r) ls with Some v => negb (str_mem v (lr_values r)) | None => true end
  else if String.eqb (lr_op r) "Exists" then
    match assoc (lr_key r) ls with Some _ => true | None => false end
  else
    match assoc (lr_key r) ls with Some _ => false | None => true end.

(* LabelSelectorAsSelector then Matches: None = the selector is rejected *)
Definition selector_matches (s : selector) (ls : list (string * string)) : option bool :=
  if forallb req_valid (sel_exprs s) then
    Some (forallb (fun kv : string * string =>
                     match assoc (fst kv) ls with Some v => String.eqb v (snd kv) | None => false end)
                  (sel_labels s)
          && forallb (req_matches ls) (sel_exprs s))
  else None.

(* checkListenerAllowedNamespace *)
Definition ns_allowed (cl : cluster) (g : gateway) (r : route) (rn : option route_ns) : bool :=
  match rn with
  | None => false
  | Some rn =>
      match rn_from rn with
      | None => false
      | Some from =>
          if String.eqb from "Same" && String.eqb (rt_ns r) (g_ns g) then true
          else if String.eqb from "All" then true
          else if String.eqb from "Selector" then
            match rn_selector rn with
            | None => false
            | Some sel =>
                match find (fun n => String.eqb (fst n) (rt_ns r)) (c_namespaces cl) with
                | None => false
                | Some n => match selector_matches sel (snd n) with Some b => b | None => false end
                end
            end
          else false
      end
  end.

(* checkListenerAllowed *)
Definition listener_allowed (cl : cluster) (g : gateway) (r : route) (l : listener) : bool :=
  match l_allowed l with
  | None => false
  | Some a => kind_allowed (al_kinds a) (rt_kind r) && ns_allowed cl g r (al_namespaces a)
  end.

Definition section_ok (sec : ostr) (l : listener) : bool :=
  match sec with None => true | Some s => String.eqb s (l_name l) end.

(* ------------------------------------------------------------------ hosts and paths *)

(* filterHostnames: a listener hostname other than ""/"*" overrides the route's hostnames *)
Definition filter_hostnames (l : listener) (r : route) : list string :=
  match l_hostname l with
  | Some h => if String.eqb h "" || String.eqb h "*"
              then (match rt_hostnames r with [] => ["*"] | hs => hs end)
              else [h]
  | None => match rt_hostnames r with [] => ["*"] | hs => hs end
  end.

Definition match_path (m : hmatch) : string :=
  let p := match m_path m with Some (_, Some v) => v | _ => "" end in
  if String.eqb p "" then "/" else p.

Definition match_type (m : hmatch) : string :=
  match m_path m with
  | Some (Some t, _) =>
      if String.eqb t "Exact" then "exact"
      else if String.eqb t "PathPrefix" then "prefix"
      else if String.eqb t "RegularExpression" then "regex"
      else "prefix"
  | _ => "prefix"
  end.

Definition host_name (h : string) : string :=
  if String.eqb h "" || String.eqb h "*" then default_host else h.

(* PathLink.hash: what FindPathWithLink compares *)
Definition link_hash (h : string) (m : hmatch) : string :=
  host_name h ++ nl ++ match_path m ++ nl ++ match_type m ++
  String.concat "" (map (fun hh => nl ++ "h:" ++ hh_name hh ++ ":" ++ hh_value hh ++
                                     (if hh_regex hh then "(regex)" else "")) (m_headers m)).

Definition empty_match : hmatch := {| m_path := None; m_headers := [] |}.
Definition matches_or_default (ms : list hmatch) : list hmatch :=
  match ms with [] => [empty_match] | _ => ms end.

(* ------------------------------------------------------------------ backends *)

(* FindServicePort(svc, strconv.Itoa(port)); port names are not decimal numbers *)
Definition find_svc_port (ports : list svcport) (p : Z) : option svcport :=
  match find (fun sp => Z.eqb (sp_port sp) p) ports with
  | Some sp => Some sp
  | None => find (fun sp => match sp_target sp with Some t => Z.eqb t p | None => false end) ports
  end.

(* createEndpoints: ready (ip, port) of the subsets' TCP ports matching the service port name *)
Definition ready_endpoints (sp : svcport) (subsets : list subset) : list (string * Z) :=
  flat_map (fun ss =>
    flat_map (fun pt : string * Z * bool =>
      let '(pname, pnum, tcp) := pt in
      if tcp && (String.eqb (sp_name sp) "" || String.eqb (sp_name sp) pname)
      then map (fun ip => (ip, pnum)) (ss_addrs ss) else []) (ss_ports ss)) subsets.

(* one backendRef that createBackend keeps: configured weight and its ready endpoints *)
Definition usable_ref (cl : cluster) (ns : string) (b : backendref) : option (Z * list (string * Z)) :=
  match b_port b with
  | None => None
  | Some p =>
      match find (fun s => String.eqb (sv_ns s) ns && String.eqb (sv_name s) (b_name b)) (c_services cl) with
      | None => None
      | Some svc =>
          match find_svc_port (sv_ports svc) p with
          | None => None
          | Some sp =>
              match sv_endpoints svc with
              | None => None
              | Some subsets =>
                  Some (match b_weight b with Some w => w | None => 1%Z end, ready_endpoints sp subsets)
              end
          end
      end
  end.

Fixpoint keep_some {A} (l : list (option A)) : list A :=
  match l with
  | [] => []
  | Some x :: t => x :: keep_some t
  | None :: t => keep_some t
  end.

Definition endpoint := (string * Z * Z)%type.        (* ip, port, weight *)

(* the servers of a backend built from backendRefs: None when no ref is usable *)
Definition backend_servers (cl : cluster) (ns : string) (refs : list backendref) : option (list endpoint) :=
  let us := keep_some (map (usable_ref cl ns) refs) in
  match us with
  | [] => None
  | _ =>
      let cls := map (fun u : Z * list (string * Z) =>
                        {| cw := fst u; clen := Z.of_nat (List.length (snd u)) |}) us in
      let ws := rebalance cls 128 in
      Some (flat_map (fun uw : (Z * list (string * Z)) * Z =>
                        map (fun a : string * Z => (fst a, snd a, snd uw)) (snd (fst uw)))
                     (combine us ws))
  end.

Definition backend_id (ns name port : string) : string := ns ++ "_" ++ name ++ "_" ++ port.

(* ------------------------------------------------------------------ the converter's state *)

(* paths: PathLink hash -> backend id, in creation order; backends: id -> servers;
   tcp: listener port -> backend id *)
Record gstate := { st_paths : list (string * string); st_backs : list (string * list endpoint);
                   st_tcp : list (Z * string) }.
Definition empty_state : gstate := {| st_paths := []; st_backs := []; st_tcp := [] |}.

Definition has_key {A} (k : string) (l : list (string * A)) : bool :=
  existsb (fun e => String.eqb (fst e) k) l.

(* createBackend: an existing backend with that id is reused *)
Definition create_backend (cl : cluster) (r : route) (idx : string) (refs : list backendref)
                          (st : gstate) : gstate * option string :=
  let id := backend_id (rt_ns r) (rt_name r) idx in
  if has_key id (st_backs st) then (st, Some id)
  else match backend_servers cl (rt_ns r) refs with
       | None => (st, None)
       | Some eps => ({| st_paths := st_paths st; st_backs := st_backs st ++ [(id, eps)];
                         st_tcp := st_tcp st |}, Some id)
       end.

(* createHTTPHosts, one (match, hostname): the first declaration of a link wins *)
Definition add_path (bid : string) (st : gstate) (k : string) : gstate :=
  if has_key k (st_paths st) then st
  else {| st_paths := st_paths st ++ [(k, bid)]; st_backs := st_backs st; st_tcp := st_tcp st |}.

(* createTCPService: the first declaration of a port wins *)
Definition add_tcp (bid : string) (port : Z) (st : gstate) : gstate :=
  if existsb (fun e : Z * string => Z.eqb (fst e) port) (st_tcp st) then st
  else {| st_paths := st_paths st; st_backs := st_backs st; st_tcp := st_tcp st ++ [(port, bid)] |}.

Fixpoint indexed {A} (i : nat) (l : list A) : list (nat * A) :=
  match l with [] => [] | x :: t => (i, x) :: indexed (S i) t end.

(* the links of one rule on one listener: matches outside, hostnames inside *)
Definition rule_links (l : listener) (r : route) (rule : rrule) : list string :=
  flat_map (fun m => map (fun h => link_hash h m) (filter_hostnames l r))
           (matches_or_default (r_matches rule)).

(* syncHTTPRouteGateway / syncTCPRouteGateway, one rule *)
Definition sync_rule (cl : cluster) (r : route) (l : listener) (st : gstate) (ir : nat * rrule) : gstate :=
  let '(i, rule) := ir in
  if rt_tcp r then
    let '(st1, ob) := create_backend cl r ("_tcprule" ++ nat_str i) (r_backends rule) st in
    match ob with Some bid => add_tcp bid (l_port l) st1 | None => st1 end
  else
    let '(st1, ob) := create_backend cl r ("_rule" ++ nat_str i) (r_backends rule) st in
    match ob with Some bid => fold_left (add_path bid) (rule_links l r rule) st1 | None => st1 end.

(* listenerSupportsTCPRoute: a TCPRoute is not attached through a listener of one of the core
   protocols that cannot carry it; the protocol is not looked at for an HTTPRoute *)
Definition protocol_ok (r : route) (l : listener) : bool :=
  if rt_tcp r
  then negb (String.eqb (l_protocol l) "HTTP" || String.eqb (l_protocol l) "HTTPS"
             || String.eqb (l_protocol l) "TLS" || String.eqb (l_protocol l) "UDP")
  else true.

(* sectionName, protocol, allowedRoutes: the listener takes the route *)
Definition listener_ok (cl : cluster) (r : route) (g : gateway) (sec : ostr) (l : listener) : bool :=
  section_ok sec l && protocol_ok r l && listener_allowed cl g r l.

Definition sync_listener (cl : cluster) (r : route) (g : gateway) (sec : ostr) (st : gstate) (l : listener) : gstate :=
  if listener_ok cl r g sec l
  then fold_left (sync_rule cl r l) (indexed 0 (rt_rules r)) st
  else st.

(* syncRoute, one parentRef *)
Definition parent_is_gateway (p : parentref) : bool :=
  String.eqb (or_default (p_group p) gateway_group) gateway_group
  && String.eqb (or_default (p_kind p) "Gateway") "Gateway".
Definition parent_ns (r : route) (p : parentref) : string := or_default (p_ns p) (rt_ns r).

Definition sync_parent (cl : cluster) (r : route) (st : gstate) (p : parentref) : gstate :=
  if parent_is_gateway p then
    match get_gateway cl (parent_ns r p) (p_name p) with
    | Some g => fold_left (sync_listener cl r g (p_section p)) (g_listeners g) st
    | None => st
    end
  else st.

Definition sync_route (cl : cluster) (st : gstate) (r : route) : gstate :=
  fold_left (sync_parent cl r) (rt_parents r) st.

(* converter.Sync(full = true, v1.Gateway): HTTP routes in order, then TCP routes in order *)
Definition attach_impl (cl : cluster) : gstate :=
  let http := sort_routes (filter (fun r => negb (rt_tcp r)) (c_routes cl)) in
  let tcp := sort_routes (filter rt_tcp (c_routes cl)) in
  fold_left (sync_route cl) tcp (fold_left (sync_route cl) http empty_state).

(* ================================================================== TLS passthrough and API versions
   The same loops with what a listener in `tls.mode: Passthrough` adds, over a state that is
   kept between the syncs of the enabled API versions. *)

(* x_core: as above, but a link may now appear more than once and be removed again;
   x_modetcp: backends with ModeTCP; x_pass: hosts with ssl-passthrough;
   x_hpb: host -> HTTPPassthroughBackend *)
Record xstate := { x_core : gstate; x_modetcp : list string; x_pass : list string;
                   x_hpb : list (string * string) }.
Definition empty_xstate : xstate :=
  {| x_core := empty_state; x_modetcp := []; x_pass := []; x_hpb := [] |}.

Definition with_core (x : xstate) (c : gstate) : xstate :=
  {| x_core := c; x_modetcp := x_modetcp x; x_pass := x_pass x; x_hpb := x_hpb x |}.
Definition with_paths (c : gstate) (ps : list (string * string)) : gstate :=
  {| st_paths := ps; st_backs := st_backs c; st_tcp := st_tcp c |}.

Definition is_passthrough (l : listener) : bool :=
  match l_tls l with Some (Some m) => String.eqb m "Passthrough" | _ => false end.

(* the links that Host.FindPath("/") returns on host h: path "/", no header match, any type *)
Definition root_keys (h : string) : list string :=
  map (fun t => h ++ nl ++ "/" ++ nl ++ t) ["exact"; "prefix"; "regex"; "begin"].
Definition is_root_key (h k : string) : bool := str_mem k (root_keys h).

(* handlePassthrough after a link of backend bid (ModeTCP = b) was added to host h *)
Definition handle_passthrough (path h bid : string) (b : bool) (x : xstate) : xstate :=
  if negb (String.eqb path "/") || (negb b && negb (str_mem h (x_pass x))) then x
  else
    (* the root paths of h whose backend is not ModeTCP, in order *)
    let moved := filter (fun e : string * string =>
                           is_root_key h (fst e) && negb (str_mem (snd e) (x_modetcp x)))
                        (st_paths (x_core x)) in
    match moved with
    | [] => x
    | first :: _ =>
        {| x_core := with_paths (x_core x)
                       (filter (fun e : string * string =>
                                  negb (is_root_key h (fst e) && negb (str_mem (snd e) (x_modetcp x))))
                               (st_paths (x_core x)));
           x_modetcp := x_modetcp x; x_pass := x_pass x;
           x_hpb := if has_key h (x_hpb x) then x_hpb x
                    else x_hpb x ++ [(h, if b then snd first else bid)] |}
    end.

(* createHTTPHosts, one (match, hostname): returns the host when the link was added *)
Definition add_path_x (bid : string) (b : bool) (acc : xstate * list string) (mh : hmatch * string)
    : xstate * list string :=
  let '(x, hosts) := acc in
  let '(m, h) := mh in
  let hn := host_name h in
  let k := link_hash h m in
  let hp := str_mem hn (x_pass x) in
  if has_key k (st_paths (x_core x)) && ((b && hp) || (negb b && negb hp)) then (x, hosts)
  else
    let x1 := with_core x (with_paths (x_core x) (st_paths (x_core x) ++ [(k, bid)])) in
    (handle_passthrough (match_path m) hn bid b x1, (hosts ++ [hn])%list).

Definition set_add (s : string) (l : list string) : list string := if str_mem s l then l else (l ++ [s])%list.

(* one rule on one admitted listener *)
Definition sync_rule_x (cl : cluster) (r : route) (l : listener) (x : xstate) (ir : nat * rrule) : xstate :=
  let '(i, rule) := ir in
  if rt_tcp r then
    let '(c1, ob) := create_backend cl r ("_tcprule" ++ nat_str i) (r_backends rule) (x_core x) in
    match ob with
    | Some bid =>
        (* createTCPService sets ModeTCP before looking for a previous declaration *)
        {| x_core := add_tcp bid (l_port l) c1; x_modetcp := set_add bid (x_modetcp x);
           x_pass := x_pass x; x_hpb := x_hpb x |}
    | None => with_core x c1
    end
  else
    let '(c1, ob) := create_backend cl r ("_rule" ++ nat_str i) (r_backends rule) (x_core x) in
    match ob with
    | Some bid =>
        let pass := is_passthrough l in
        let x1 := {| x_core := c1; x_modetcp := if pass then set_add bid (x_modetcp x) else x_modetcp x;
                     x_pass := x_pass x; x_hpb := x_hpb x |} in
        let b := str_mem bid (x_modetcp x1) in
        (* a ModeTCP backend ignores the matches of the rule *)
        let ms := if b then [empty_match] else matches_or_default (r_matches rule) in
        let '(x2, hosts) :=
          fold_left (add_path_x bid b)
                    (flat_map (fun m => map (fun h => (m, h)) (filter_hostnames l r)) ms) (x1, []) in
        (* applyCertRef: passthrough marks the hosts that received a link *)
        if pass then {| x_core := x_core x2; x_modetcp := x_modetcp x2;
                        x_pass := fold_left (fun acc h => set_add h acc) hosts (x_pass x2);
                        x_hpb := x_hpb x2 |}
        else x2
    | None => with_core x c1
    end.

Definition sync_listener_x (cl : cluster) (r : route) (g : gateway) (sec : ostr) (x : xstate) (l : listener) : xstate :=
  if listener_ok cl r g sec l
  then fold_left (sync_rule_x cl r l) (indexed 0 (rt_rules r)) x
  else x.

Definition sync_parent_x (cl : cluster) (r : route) (x : xstate) (p : parentref) : xstate :=
  if parent_is_gateway p then
    match get_gateway cl (parent_ns r p) (p_name p) with
    | Some g => fold_left (sync_listener_x cl r g (p_section p)) (g_listeners g) x
    | None => x
    end
  else x.

Definition sync_route_x (cl : cluster) (x : xstate) (r : route) : xstate :=
  fold_left (sync_parent_x cl r) (rt_parents r) x.

(* converter.Sync(full, gwtyp) on the objects of one API version, from the current state *)
Definition sync_cluster_x (cl : cluster) (x : xstate) : xstate :=
  let http := sort_routes (filter (fun r => negb (rt_tcp r)) (c_routes cl)) in
  let tcp := sort_routes (filter rt_tcp (c_routes cl)) in
  fold_left (sync_route_x cl) tcp (fold_left (sync_route_x cl) http x).

Definition attach_impl_x (cl : cluster) : xstate := sync_cluster_x cl empty_xstate.

(* converters.Sync: one sync per enabled API version (v1, v1beta1, v1alpha2 in that order), each on
   the GatewayClasses, Gateways and HTTPRoutes of that version and on all the TCPRoutes *)
Definition attach_versions (cls : list cluster) : xstate :=
  fold_left (fun x cl => sync_cluster_x cl x) cls empty_xstate.

(* ================================================================== specification
   The Gateway API attachment rules named by the property, written without the converter's
   loops and state.  The converter is proved equal to them in Proofs/Gateway.v. *)

Definition true_kind (r : route) : string := if rt_tcp r then "TCPRoute" else "HTTPRoute".

(* the parentRef designates Gateway g (group/kind default to the Gateway API group and kind
   Gateway, the namespace defaults to the route's) *)
Definition designates (r : route) (p : parentref) (g : gateway) : Prop :=
  (p_group p = None \/ p_group p = Some "" \/ p_group p = Some gateway_group) /\
  (p_kind p = None \/ p_kind p = Some "" \/ p_kind p = Some "Gateway") /\
  g_name g = p_name p /\
  g_ns g = match p_ns p with None => rt_ns r | Some n => if String.eqb n "" then rt_ns r else n end.

(* the GatewayClass of g exists and names this controller *)
Definition class_is_ours (cl : cluster) (g : gateway) : Prop :=
  exists c, In c (c_classes cl) /\ gc_name c = g_class g /\ gc_controller c = c_controller cl.

Definition section_admits (p : parentref) (l : listener) : Prop :=
  p_section p = None \/ p_section p = Some (l_name l).

(* allowedRoutes.kinds: empty, or some entry of the Gateway API group (nil group = that group)
   with the route's kind *)
Definition kinds_admit (kinds : list (ostr * string)) (kind : string) : Prop :=
  kinds = [] \/
  exists g k, In (g, k) kinds /\ (g = None \/ g = Some gateway_group) /\ k = kind.

(* one matchExpressions entry holds on a label set *)
Definition expr_holds (ls : list (string * string)) (e : label_req) : Prop :=
  (lr_op e = "In" /\ lr_values e <> [] /\ exists v, assoc (lr_key e) ls = Some v /\ In v (lr_values e)) \/
  (lr_op e = "NotIn" /\ lr_values e <> [] /\ forall v, assoc (lr_key e) ls = Some v -> ~ In v (lr_values e)) \/
  (lr_op e = "Exists" /\ lr_values e = [] /\ assoc (lr_key e) ls <> None) \/
  (lr_op e = "DoesNotExist" /\ lr_values e = [] /\ assoc (lr_key e) ls = None).

(* every operator is known and carries a legal number of values *)
Definition selector_wellformed (s : selector) : Prop :=
  forall e, In e (sel_exprs s) ->
    ((lr_op e = "In" \/ lr_op e = "NotIn") /\ lr_values e <> []) \/
    ((lr_op e = "Exists" \/ lr_op e = "DoesNotExist") /\ lr_values e = []).

(* allowedRoutes.namespaces: All, Same (the route lives in the gateway's namespace), or
   Selector matching the labels of the route's Namespace object *)
Definition namespaces_admit (cl : cluster) (g : gateway) (r : route) (rn : route_ns) : Prop :=
  rn_from rn = Some "All" \/
  (rn_from rn = Some "Same" /\ rt_ns r = g_ns g) \/
  (rn_from rn = Some "Selector" /\
   exists sel ls, rn_selector rn = Some sel /\ In (rt_ns r, ls) (c_namespaces cl) /\
     selector_wellformed sel /\
     (forall k v, In (k, v) (sel_labels sel) -> assoc k ls = Some v) /\
     (forall e, In e (sel_exprs sel) -> expr_holds ls e)).

(* the listener admits the route *)
(* listener protocol against route kind, as far as the project implements it: a TCPRoute needs a
   listener that is not HTTP, HTTPS, TLS or UDP (nothing is asked of an HTTPRoute) *)
Definition protocol_admits (r : route) (l : listener) : Prop :=
  rt_tcp r = true ->
  l_protocol l <> "HTTP" /\ l_protocol l <> "HTTPS" /\ l_protocol l <> "TLS" /\ l_protocol l <> "UDP".

Definition listener_admits (cl : cluster) (r : route) (p : parentref) (g : gateway) (l : listener) : Prop :=
  section_admits p l /\ protocol_admits r l /\
  exists a rn, l_allowed l = Some a /\ al_namespaces a = Some rn /\
    kinds_admit (al_kinds a) (true_kind r) /\ namespaces_admit cl g r rn.

(* one (route, parentRef, gateway, listener, rule, match, hostname) combination *)
Record attachment := { at_route : route; at_parent : parentref; at_gateway : gateway;
                       at_listener : listener; at_index : nat; at_rule : rrule;
                       at_match : hmatch; at_hostname : string }.

(* the combination is admitted: class, parentRef, listener rules, and the rule has a backend *)
Definition admitted (cl : cluster) (a : attachment) : Prop :=
  designates (at_route a) (at_parent a) (at_gateway a) /\
  class_is_ours cl (at_gateway a) /\
  listener_admits cl (at_route a) (at_parent a) (at_gateway a) (at_listener a) /\
  backend_servers cl (rt_ns (at_route a)) (r_backends (at_rule a)) <> None.

(* the host/path rule it yields and the backend that serves it *)
Definition at_key (a : attachment) : string := link_hash (at_hostname a) (at_match a).
Definition at_owner (a : attachment) : string :=
  backend_id (rt_ns (at_route a)) (rt_name (at_route a)) ("_rule" ++ nat_str (at_index a)).

(* all the combinations of HTTPRoutes, in declaration order: routes by creation time then
   namespace/name, then parentRefs, gateways, listeners, rules, matches, hostnames *)
Definition http_routes (cl : cluster) : list route :=
  sort_routes (filter (fun r => negb (rt_tcp r)) (c_routes cl)).
Definition combinations (cl : cluster) : list attachment :=
  flat_map (fun r =>
    flat_map (fun p =>
      flat_map (fun g =>
        flat_map (fun l =>
          flat_map (fun ir : nat * rrule =>
            flat_map (fun m =>
              map (fun h => {| at_route := r; at_parent := p; at_gateway := g; at_listener := l;
                               at_index := fst ir; at_rule := snd ir; at_match := m; at_hostname := h |})
                  (filter_hostnames l r))
              (matches_or_default (r_matches (snd ir))))
            (indexed 0 (rt_rules r)))
          (g_listeners g))
        (c_gateways cl))
      (rt_parents r))
    (http_routes cl).

(* what Kubernetes guarantees about object identity, plus distinct backend ids (names carry no
   underscore) and route kinds reported the way the informer cache reports them *)
Definition rule_ids (cl : cluster) : list string :=
  flat_map (fun r => map (fun ir : nat * rrule =>
                            backend_id (rt_ns r) (rt_name r)
                              ((if rt_tcp r then "_tcprule" else "_rule") ++ nat_str (fst ir)))
                         (indexed 0 (rt_rules r))) (c_routes cl).
Definition wf_objects (cl : cluster) : Prop :=
  NoDup (map gc_name (c_classes cl)) /\
  NoDup (map (fun g => (g_ns g, g_name g)) (c_gateways cl)) /\
  NoDup (map fst (c_namespaces cl)) /\
  NoDup (rule_ids cl) /\
  (forall r, In r (c_routes cl) -> rt_kind r = true_kind r).

(* TCPRoutes: (route, parentRef, gateway, listener, rule); the key is the listener port *)
Record tcp_attachment := { ta_route : route; ta_parent : parentref; ta_gateway : gateway;
                           ta_listener : listener; ta_index : nat; ta_rule : rrule }.
Definition tcp_admitted (cl : cluster) (a : tcp_attachment) : Prop :=
  designates (ta_route a) (ta_parent a) (ta_gateway a) /\
  class_is_ours cl (ta_gateway a) /\
  listener_admits cl (ta_route a) (ta_parent a) (ta_gateway a) (ta_listener a) /\
  backend_servers cl (rt_ns (ta_route a)) (r_backends (ta_rule a)) <> None.
Definition ta_port (a : tcp_attachment) : Z := l_port (ta_listener a).
Definition ta_owner (a : tcp_attachment) : string :=
  backend_id (rt_ns (ta_route a)) (rt_name (ta_route a)) ("_tcprule" ++ nat_str (ta_index a)).
Definition tcp_routes (cl : cluster) : list route := sort_routes (filter rt_tcp (c_routes cl)).
Definition tcp_combinations (cl : cluster) : list tcp_attachment :=
  flat_map (fun r =>
    flat_map (fun p =>
      flat_map (fun g =>
        flat_map (fun l =>
          map (fun ir : nat * rrule =>
                 {| ta_route := r; ta_parent := p; ta_gateway := g; ta_listener := l;
                    ta_index := fst ir; ta_rule := snd ir |})
              (indexed 0 (rt_rules r)))
          (g_listeners g))
        (c_gateways cl))
      (rt_parents r))
    (tcp_routes cl).

(* ================================================================== the Gateway API text alone
   The project documents two departures from the Gateway API: a listener hostname other than
   empty or "*" overrides the route's hostnames without intersecting them, and the listener
   protocol is not looked at for an HTTPRoute.  The relations below are the API's own. *)

Definition is_wild (h : string) : bool := String.prefix "*." h.
(* "*.example.com" -> ".example.com" *)
Definition wild_suffix (h : string) : string := String.substring 1 (String.length h - 1) h.
Definition ends_with (suf s : string) : bool :=
  Nat.leb (String.length suf) (String.length s)
  && String.eqb (String.substring (String.length s - String.length suf) (String.length suf) s) suf.
(* a wildcard stands for at least one more label *)
Definition strictly_ends_with (suf s : string) : bool :=
  Nat.ltb (String.length suf) (String.length s) && ends_with suf s.

(* intersection of a listener hostname L with a route hostname R: the more specific of the two
   when one covers the other *)
Definition spec_match (L R : string) : option string :=
  if String.eqb R "" || String.eqb R "*" then Some L
  else match is_wild L, is_wild R with
       | false, false => if String.eqb L R then Some R else None
       | true, false => if strictly_ends_with (wild_suffix L) R then Some R else None
       | false, true => if strictly_ends_with (wild_suffix R) L then Some L else None
       | true, true => if ends_with (wild_suffix L) (wild_suffix R) then Some R
                       else if ends_with (wild_suffix R) (wild_suffix L) then Some L else None
       end.

(* the hostnames a route gets on a listener *)
Definition spec_hostnames (l : listener) (r : route) : list string :=
  let of_route := match rt_hostnames r with [] => ["*"] | hs => hs end in
  match l_hostname l with
  | None => of_route
  | Some h => if String.eqb h "" || String.eqb h "*" then of_route
              else match rt_hostnames r with
                   | [] => [h]
                   | hs => keep_some (map (spec_match h) hs)
                   end
  end.

(* listener protocol against route kind *)
Definition spec_protocol_admits (r : route) (l : listener) : Prop :=
  if rt_tcp r then l_protocol l = "TCP" else (l_protocol l = "HTTP" \/ l_protocol l = "HTTPS").

(* admitted by the Gateway API text: the project's relation, plus the listener protocol and the
   hostname intersection *)
Definition admitted_by_spec (cl : cluster) (a : attachment) : Prop :=
  admitted cl a /\
  spec_protocol_admits (at_route a) (at_listener a) /\
  In (at_hostname a) (spec_hostnames (at_listener a) (at_route a)).

(* the object set stays inside what the project implements of the API: every admitting listener
   speaks a protocol fit for the route and its hostname override coincides with the intersection *)
Definition within_documented_conformance (cl : cluster) : Prop :=
  forall a, In a (combinations cl) -> admitted cl a ->
    spec_protocol_admits (at_route a) (at_listener a) /\
    filter_hostnames (at_listener a) (at_route a) = spec_hostnames (at_listener a) (at_route a).

(* no listener in tls.mode Passthrough *)
Definition no_passthrough (cl : cluster) : Prop :=
  forall g l, In g (c_gateways cl) -> In l (g_listeners g) -> is_passthrough l = false.
