(* Model of what sits above Instance.HAProxyUpdate and decides whether, and how, another
   attempt follows (C12: "the next reconcile applies it"):

     pkg/controller/reconciler/watchers.go   hdlr.notify: the event is stored in the watchers'
            ChangedObjects (w.ch) and rparam{fullsync: h.full} is AddRateLimited to the work queue;
            getChangedObjects: the whole w.ch is handed over (swapped for an empty one)
     pkg/controller/reconciler/reconciler.go Reconcile(req): changed := getChangedObjects();
            changed.NeedFullSync = req.fullsync; err := Services.ReconcileIngress(changed);
            err != nil => Result{RequeueAfter: ReloadRetry} (controller-runtime then does
            Forget(req); AddAfter(req, ReloadRetry): the SAME rparam); leaderChanged: rparam{true}
     pkg/controller/services/services.go     ReconcileIngress: converters.Sync(changed) on the
            instance's Config (full sync = Clear when changed.NeedFullSync or the converters ask
            for it), then instance.HAProxyUpdate; its error is returned as is;
            reloadHAProxy (reload queue): instance.Reload(), on error AddAfter(nil, ReloadRetry)
     pkg/controller/legacy/controller.go     syncIngress: the same with a single kind of queue
            item (nil): Sync(SwapChangedObjects), HAProxyUpdate, on error AddAfter(nil, 30s)
            - the sub-case of this model where every request is rparam{false} and the converter
            alone decides that a sync is full.

   The work queue is client-go's: a set (equal items are one item) of ready items plus items
   that become ready later (rate limiter, AddAfter).  Taken as given, not modelled: that a
   delayed item does become ready (LTick) and that a ready item is eventually handed to the
   worker (LAttempt) - the theorems are about every finite trace.

   What a reconciliation does to the instance is Model/ConfigSM(_Faults): [step_f e fs s l],
   l being the calls the converters make for the ChangedObjects they were handed.  The
   converters apply l to the model BEFORE HAProxyUpdate can fail, and HAProxyUpdate commits
   the model on every path: a change handed to a failed reconciliation is in the model, not
   in the watchers any more, and not yet (or partly) in the files - which is why the retry
   only converges thanks to lastFailed / changeAll (fix 348fb25). *)
From Coq Require Import NArith List Bool.
From HI Require Import Model.ConfigSM Model.ConfigSM_Faults.
Import ListNotations.
Open Scope N_scope.

(* a set of rparam values: rparam{fullsync:false}, rparam{fullsync:true} *)
Record rset := { r_part : bool; r_full : bool }.
Definition rset_empty : rset := {| r_part := false; r_full := false |}.
Definition rset_add (q : rset) (full : bool) : rset :=
  if full then {| r_part := r_part q; r_full := true |} else {| r_part := true; r_full := r_full q |}.
Definition rset_del (q : rset) (full : bool) : rset :=
  if full then {| r_part := r_part q; r_full := false |} else {| r_part := false; r_full := r_full q |}.
Definition rset_mem (q : rset) (full : bool) : bool := if full then r_full q else r_part q.
Definition rset_any (q : rset) : bool := r_part q || r_full q.

(* the work queue and the watchers, without the instance *)
Record lqueue := {
  q_wch : bool;      (* the watchers hold changes no reconciliation was handed yet *)
  q_ready : rset;    (* items the worker can take *)
  q_delay : rset     (* items that become ready later: rate limiter, RequeueAfter *)
}.
Definition lqueue_init : lqueue := {| q_wch := false; q_ready := rset_empty; q_delay := rset_empty |}.

Record loop := { l_inst : inst; l_q : lqueue }.
Definition loop_init : loop := {| l_inst := inst_empty; l_q := lqueue_init |}.

Inductive lev :=
| LChange (full : bool)      (* a watched object changed; its handler has h.full = full *)
| LLeader                    (* leadership acquired *)
| LTick (full : bool)        (* the delayed rparam{full} becomes ready *)
| LAttempt (full : bool) (l : list op) (fs : list fpoint)
                             (* the worker takes rparam{full}; the converters make the calls l for
                                what the watchers hand over; fs = faults armed in the update *)
| LReload (ok : bool).       (* the reload queue fires services.reloadHAProxy; Reload() succeeds or not *)

(* ---- the queue side of each event *)
Definition q_change (q : lqueue) (full : bool) : lqueue :=
  {| q_wch := true; q_ready := q_ready q; q_delay := rset_add (q_delay q) full |}.
Definition q_leader (q : lqueue) : lqueue :=
  {| q_wch := q_wch q; q_ready := q_ready q; q_delay := rset_add (q_delay q) true |}.
Definition q_tick (q : lqueue) (full : bool) : lqueue :=
  if rset_mem (q_delay q) full
  then {| q_wch := q_wch q; q_ready := rset_add (q_ready q) full; q_delay := rset_del (q_delay q) full |}
  else q.
(* Reconcile(rparam{full}) returned; err = ReconcileIngress failed *)
Definition q_attempt (q : lqueue) (full : bool) (err : bool) : lqueue :=
  {| q_wch := false;
     q_ready := rset_del (q_ready q) full;
     q_delay := if err then rset_add (q_delay q) full else q_delay q |}.

Definition enabled (L : loop) (ev : lev) : bool :=
  match ev with
  | LAttempt full _ _ => rset_mem (q_ready (l_q L)) full
  | _ => true
  end.

Definition lstep (e : env) (L : loop) (ev : lev) : loop :=
  match ev with
  | LChange full => {| l_inst := l_inst L; l_q := q_change (l_q L) full |}
  | LLeader => {| l_inst := l_inst L; l_q := q_leader (l_q L) |}
  | LTick full => {| l_inst := l_inst L; l_q := q_tick (l_q L) full |}
  | LAttempt full l fs =>
    if rset_mem (q_ready (l_q L)) full then
      let r := step_f e fs (l_inst L) l in
      {| l_inst := fst r; l_q := q_attempt (l_q L) full (snd r) |}
    else L
  | LReload ok => {| l_inst := reload_once ok (l_inst L); l_q := l_q L |}
  end.
Definition lrun (e : env) (L : loop) (tr : list lev) : loop := fold_left (lstep e) tr L.

(* something will run again: a queued reconciliation, or a queued reload *)
Definition q_pending (q : lqueue) : bool := rset_any (q_ready q) || rset_any (q_delay q).
Definition pending (L : loop) : bool := q_pending (l_q L) || i_pending (l_inst L).

(* the reconciliations of a trace, as a history of the instance *)
Fixpoint attempts (e : env) (L : loop) (tr : list lev) : list (list op * list fpoint) :=
  match tr with
  | [] => []
  | ev :: tr' =>
    match ev with
    | LAttempt full l fs => if rset_mem (q_ready (l_q L)) full then (l, fs) :: attempts e (lstep e L ev) tr'
                            else attempts e (lstep e L ev) tr'
    | _ => attempts e (lstep e L ev) tr'
    end
  end.
