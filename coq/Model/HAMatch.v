(* C04 — HAProxy map matching as the generated configuration uses it, the property's
   specification of path precedence, and the layout checker `layout_ok`.
   Definitions only; proofs are in Proofs/HAMatch.v.

   TRUSTED TRANSCRIPTION (haproxy src/pattern.c, and rootfs/etc/templates/haproxy/haproxy.tmpl):
   the frontend computes  req.base = lower(host) # path  and, for each MatchFile in the
   emitted order,   var(req.base)[,lower],map_<method>(<file>)   guarded by
   "if the variable was not found yet": the first file that has a matching entry answers.
   - map_str : the sample equals the key.
   - map_beg : the key is a prefix of the sample. Old versions scan the file in order
     (first match), recent ones index the keys in a prefix tree and answer the longest
     matching key. Both are modelled (`tree`), the theorems hold for both.
   - map_dir : pat_match_dir = match_word() with delimiters '/' and '?': delimiters are
     stripped from both ends of the key; the key must occur in the sample starting at
     the beginning of the sample or right after a delimiter, and be followed by the end
     of the sample or a delimiter. The file is scanned in order, first match answers.
   A key that is empty after stripping is outside the model (keys always hold a host). *)
From Coq Require Import Ascii String.
From Coq Require Import List Bool Arith NArith.
From HI Require Export Lib.Maps_Strs.
Import ListNotations.

(* ------------------------------------------------------------------ matching *)

Inductive meth := MStr | MBeg | MDir | MReg.

Record matchfile := { mmeth : meth; mlower : bool; mentries : list (str * str) }.

Definition is_delim (c : ascii) : bool := Ascii.eqb c c_slash || Ascii.eqb c c_quest.

Fixpoint drop_delims (s : str) : str :=
  match s with
  | c :: s' => if is_delim c then drop_delims s' else s
  | [] => []
  end.

(* the key as match_word uses it: delimiters stripped at the beginning and at the end *)
Definition dir_pat (key : str) : str := rev (drop_delims (rev (drop_delims key))).

(* what follows an occurrence: end of sample or a delimiter *)
Definition ends_ok (rest : str) : bool :=
  match rest with [] => true | d :: _ => is_delim d end.

(* the scan of match_word; `may` is its may_match flag *)
Fixpoint match_word (pat s : str) (may : bool) : bool :=
  match s with
  | [] => false
  | c :: s' =>
      if is_delim c then match_word pat s' true
      else if may && is_prefix pat s && ends_ok (skipn (length pat) s) then true
      else match_word pat s' false
  end.

Definition entry_match (m : meth) (key sample : str) : bool :=
  match m with
  | MStr => str_eqb key sample
  | MBeg => is_prefix key sample
  | MDir => match_word (dir_pat key) sample true
  | MReg => false
  end.

Definition file_sample (lw : bool) (s : str) : str := if lw then lower s else s.

(* first entry of the longest matching key *)
Fixpoint longest (best : option (str * str)) (l : list (str * str)) : option (str * str) :=
  match l with
  | [] => best
  | kv :: l' =>
      match best with
      | None => longest (Some kv) l'
      | Some b => if length (fst b) <? length (fst kv) then longest (Some kv) l' else longest best l'
      end
  end.

Definition file_lookup (tree : bool) (f : matchfile) (s : str) : option str :=
  let s' := file_sample (mlower f) s in
  let ms := filter (fun kv => entry_match (mmeth f) (fst kv) s') (mentries f) in
  match mmeth f, tree with
  | MBeg, true => option_map snd (longest None ms)
  | _, _ => option_map snd (hd_error ms)
  end.

Fixpoint lookup (tree : bool) (files : list matchfile) (s : str) : option str :=
  match files with
  | [] => None
  | f :: fs => match file_lookup tree f s with Some v => Some v | None => lookup tree fs s end
  end.

(* the sample of a request *)
Definition sample (host path : str) : str := lower host ++ c_hash :: path.

(* ------------------------------------------------------------------ rules and the specification *)

Inductive mtype := Exact | Prefix | Begin | Regex.

Record rule := { rhost : str; rpath : str; rtype : mtype; rtarget : str }.

Fixpoint drop_slashes (s : str) : str :=
  match s with
  | c :: s' => if Ascii.eqb c c_slash then drop_slashes s' else s
  | [] => []
  end.
(* a declared path without its trailing slashes *)
Definition strip_slash (p : str) : str := rev (drop_slashes (rev p)).

(* when a declared path of a given type matches a request path *)
Definition path_matches (t : mtype) (decl path : str) : Prop :=
  match t with
  | Exact => path = decl
  | Prefix => path = strip_slash decl \/ exists rest, path = strip_slash decl ++ c_slash :: rest
  | Begin => exists rest, lower path = lower decl ++ rest
  | Regex => False
  end.

(* a rule applies to a request: same host (host names ignore case), matching path *)
Definition applies (r : rule) (host path : str) : Prop :=
  lower (rhost r) = lower host /\ path_matches (rtype r) (rpath r) path.

(* the rules that may answer: an exact rule if one applies, otherwise an applying rule
   with a declared path of maximal length. (Two rules of equal length can only both
   apply when they declare the same path up to case / trailing slash with different
   types, or are duplicates: no winner is documented, either may answer.) *)
Definition best (rules : list rule) (host path : str) (r : rule) : Prop :=
  In r rules /\ applies r host path /\
  (rtype r = Exact \/
   forall r', In r' rules -> applies r' host path ->
              rtype r' <> Exact /\ length (rpath r') <= length (rpath r)).

(* alphabet guard *)
Definition no_char (c : ascii) (s : str) : bool := forallb (fun x => negb (Ascii.eqb x c)) s.
Definition host_chars_ok (h : str) : bool := no_char c_slash h && no_char c_quest h && no_char c_hash h.
Definition path_chars_ok (p : str) : bool := no_char c_hash p && no_char c_quest p.

Definition wf_request (host path : str) : Prop :=
  host_chars_ok host = true /\ path_chars_ok path = true.

Definition mtype_eqb (a b : mtype) : bool :=
  match a, b with
  | Exact, Exact | Prefix, Prefix | Begin, Begin | Regex, Regex => true
  | _, _ => false
  end.

Definition wf_ruleb (r : rule) : bool :=
  nonempty (rhost r) && host_chars_ok (rhost r) && nonempty (rpath r) && path_chars_ok (rpath r) &&
  negb (mtype_eqb (rtype r) Regex).

(* ------------------------------------------------------------------ the checker *)

Definition meth_of (t : mtype) : meth :=
  match t with Exact => MStr | Prefix => MDir | Begin => MBeg | Regex => MReg end.

Definition meth_eqb (a b : meth) : bool :=
  match a, b with
  | MStr, MStr | MBeg, MBeg | MDir, MDir | MReg, MReg => true
  | _, _ => false
  end.

(* the key the rule is expected under (types.buildMapKey after addTarget's lower-casing) *)
Definition key_of (r : rule) : str :=
  lower (rhost r) ++ c_hash :: (match rtype r with Begin => lower (rpath r) | _ => rpath r end).

Definition file_ok (f : matchfile) : bool :=
  match mmeth f with
  | MStr | MDir => negb (mlower f)
  | MBeg => mlower f
  | MReg => false
  end.

Definition rule_in_file (r : rule) (f : matchfile) : bool :=
  meth_eqb (meth_of (rtype r)) (mmeth f) &&
  existsb (fun kv => str_eqb (key_of r) (fst kv) && str_eqb (rtarget r) (snd kv)) (mentries f).

(* one entry with the method of its file *)
Definition fentry := (meth * str * str)%type.
Definition fe_meth (e : fentry) : meth := fst (fst e).
Definition fe_key (e : fentry) : str := snd (fst e).
Definition fe_val (e : fentry) : str := snd e.

Definition flat (files : list matchfile) : list fentry :=
  flat_map (fun f => map (fun kv => (mmeth f, fst kv, snd kv)) (mentries f)) files.

Definition entry_of_rule (rules : list rule) (e : fentry) : bool :=
  existsb (fun r => meth_eqb (meth_of (rtype r)) (fe_meth e) && str_eqb (key_of r) (fe_key e) &&
                    str_eqb (rtarget r) (fe_val e)) rules.

(* prefix on a directory boundary *)
Definition dir_prefix (p q : str) : bool := is_prefix p q && ends_ok (skipn (length p) q).

(* may two non-str entries match one sample? (never answers false when they can) *)
Definition conflictb (e1 e2 : fentry) : bool :=
  match fe_meth e1, fe_meth e2 with
  | MBeg, MBeg => is_prefix (fe_key e1) (fe_key e2) || is_prefix (fe_key e2) (fe_key e1)
  | MDir, MDir => let p1 := dir_pat (fe_key e1) in let p2 := dir_pat (fe_key e2) in
                  dir_prefix p1 p2 || dir_prefix p2 p1
  | MBeg, MDir => let p2 := lower (dir_pat (fe_key e2)) in
                  is_prefix (fe_key e1) p2 || dir_prefix p2 (fe_key e1)
  | MDir, MBeg => let p1 := lower (dir_pat (fe_key e1)) in
                  is_prefix (fe_key e2) p1 || dir_prefix p1 (fe_key e2)
  | _, _ => false
  end.

Definition is_str (m : meth) : bool := match m with MStr => true | _ => false end.

(* `later` sits after `earlier` in the lookup order although it has to answer first:
   - an exact entry behind a non-exact entry that matches the exact entry's own key;
   - a longer key behind a shorter one that can match the same sample. *)
Definition beats (later earlier : fentry) : bool :=
  if is_str (fe_meth later) then
    negb (is_str (fe_meth earlier)) &&
    entry_match (fe_meth earlier) (fe_key earlier)
                (file_sample (match fe_meth earlier with MBeg => true | _ => false end) (fe_key later))
  else
    negb (is_str (fe_meth earlier)) && conflictb later earlier &&
    (length (fe_key earlier) <? length (fe_key later)).

Fixpoint ordered (l : list fentry) : bool :=
  match l with
  | [] => true
  | e :: rest => forallb (fun e' => negb (beats e' e)) rest && ordered rest
  end.

Definition layout_ok (files : list matchfile) (rules : list rule) : bool :=
  forallb wf_ruleb rules &&
  forallb file_ok files &&
  forallb (fun r => existsb (rule_in_file r) files) rules &&
  forallb (entry_of_rule rules) (flat files) &&
  ordered (flat files).
