(* C03 extended to WILDCARD HOSTS ("*.example.com") and to the global option strict-host.
   Additive: Model/Route.v is unchanged (its sync_full already stores a wildcard host like any
   other host: Hosts.AcquireHost("*.example.com"), first declaration of a (host, path, type)
   wins); what changes is how the frontends find the rule.

   What the code does (pkg/haproxy/types/maps.go AddHostnamePathMapping / convertWildcardToRegex /
   convertPathToRegex / buildMapKey / hostsMapMatchFile.sort, pkg/haproxy/config.go
   WriteFrontendMaps + SyncConfig (strict-host), haproxy.tmpl lookup chain):
   - every path of a host "*.suffix" becomes ONE regex key  ^[^.]+<quoted .suffix>#<path regex>
     in the map's regex file, whatever its path type:  Exact -> path, end anchor ;  Prefix -> path followed by an optional group (slash, anything)
     (just path when it ends with '/') ;  Begin -> path.  The sample is host#path, not
     lower-cased; nothing anchors the end except the '$' of Exact.  So on a wildcard host a
     Prefix or Begin path matches every request path that STARTS with it, case sensitively;
   - the regex file is sorted by key length (longer first), then key, then declaration order, and
     map_reg answers the first matching key: among the rules of the wildcard host the longest
     REGEX wins (the optional group of Prefix and the end anchor of Exact count);
   - with the default path-type-order the regex file is looked up after every str / beg / dir
     file: a matching rule of the exact host wins, then the wildcard host's, then the default
     host's (strict-host=false: "all matching wildcard hosts will be visited");
   - a request host matches "*.suffix" iff it is one non-empty label without '.', then .suffix
     (so at most one wildcard suffix can match a host: the host minus its first label);
   - strict-host=true: SyncConfig adds to every host without a ("/", begin) path such a path,
     bound to the backend of the default host's first "/" path, else to the default backend,
     else to _error404.

   Regular expressions are not modelled in general (no regex engine in Coq): only the anchored
   literal / prefix forms above, under the guard that declared paths hold no regex
   metacharacter (regexp.QuoteMeta is then the identity) and hosts only '.' as such.
   The regex path type (path-type annotation) is not modelled.
   Definitions only; proofs are in Proofs/RouteWild.v. *)
From Coq Require Import List Bool String ZArith NArith Ascii.
From HI Require Import Model.Maps Model.Route Model.RouteMaps.
Import ListNotations.
Open Scope string_scope.
Open Scope list_scope.

(* ------------------------------------------------------------------ wildcard host names *)

Definition is_wild (h : string) : bool := String.prefix "*." h.
(* ".example.com" of "*.example.com" *)
Definition wild_suffix (h : string) : string := substring 1 (String.length h - 1) h.

(* the request host cut at its first '.': (label, rest starting with the dot) *)
Fixpoint split_label (s : string) : string * string :=
  match s with
  | EmptyString => (EmptyString, EmptyString)
  | String a s' => if Ascii.eqb a "." then (EmptyString, s)
                   else let p := split_label s' in (String a (fst p), snd p)
  end.

(* ^[^.]+\.suffix$ on the (lower-cased) request host; the key is lower-cased by addTarget *)
Definition wild_host_matches (h reqhost : string) : bool :=
  is_wild h &&
  let p := split_label reqhost in
  negb (fst p =? "")%string && (snd p =? Route.lower (wild_suffix h))%string.

(* ------------------------------------------------------------------ the regex of a path *)

Definition ends_with_slash (p : string) : bool :=
  match String.length p with
  | O => false
  | S n => match get n p with Some a => Ascii.eqb a "/" | None => false end
  end.

(* convertPathToRegex, regexp.QuoteMeta being the identity under the guard *)
Definition path_regex (d : decl) : string :=
  match d_type d with
  | Route.Exact => (d_path d ++ "$")%string
  | Route.Prefix => if ends_with_slash (d_path d) then d_path d else (d_path d ++ "(/.*)?")%string
  | Route.Begin => d_path d
  end.

(* when that regex matches a request path (the sample after '#') *)
Definition path_matches_re (d : decl) (requested : string) : bool :=
  match d_type d with
  | Route.Exact => (d_path d =? requested)%string
  | _ => String.prefix (d_path d) requested
  end.

(* regexp.QuoteMeta of a host suffix: only '.' needs a backslash under the guard *)
Fixpoint quote_dots (s : string) : string :=
  match s with
  | EmptyString => EmptyString
  | String a s' => if Ascii.eqb a "." then String "\" (String "." (quote_dots s')) else String a (quote_dots s')
  end.

(* the key as written in the regex file: buildMapKey(MatchRegex, lower("^[^.]+" + quoted + "$"), pathregex) *)
Definition wild_key (d : decl) : str :=
  match d_host d with
  | Some h => s2l (Route.lower ("^[^.]+" ++ quote_dots (wild_suffix h)) ++ "#" ++ path_regex d)%string
  | None => []
  end.

(* ------------------------------------------------------------------ strict-host *)

(* a path list entry: the declaration and the backend section; None = _error404 (strict-host
   without default host root and without default backend) *)
Definition wpath := (decl * option bkey)%type.

Definition lift (x : decl * bkey) : wpath := (fst x, Some (snd x)).

(* the Host objects that exist after the sync: hosts of rules (also when no path of the rule
   resolved), hosts of tls blocks, the default host when it has a path *)
Definition acquired_hosts (c : cluster) (st : state) : list (option string) :=
  flat_map (fun i => map (fun r => norm_host (ir_host r)) (i_rules i)) (sorted_ingresses c)
  ++ map Some (st_tls st)
  ++ (if existsb (fun x => negb (is_named_host x)) (st_paths st) then [None] else []).

Fixpoint dedup_hosts (seen l : list (option string)) : list (option string) :=
  match l with
  | [] => []
  | h :: l' => if existsb (ohost_eqb h) seen then dedup_hosts seen l' else h :: dedup_hosts (h :: seen) l'
  end.

Definition has_root_begin (st : state) (h : option string) : bool :=
  existsb (fun x => ohost_eqb (d_host (fst x)) h && (d_path (fst x) =? "/")%string &&
                    ptype_eqb (d_type (fst x)) Route.Begin) (st_paths st).

(* SyncConfig: the backend of the default host's first "/" path, else Backends.DefaultBackend *)
Definition strict_root (st : state) : option bkey :=
  match find (fun x => negb (is_named_host x) && (d_path (fst x) =? "/")%string) (st_paths st) with
  | Some x => Some (snd x)
  | None => st_default st
  end.

Definition strict_decl (h : option string) : decl :=
  {| d_host := h; d_path := "/"; d_type := Route.Begin; d_ns := ""; d_svc := "";
     d_port := {| pr_str := ""; pr_num := None |} |}.

Definition strict_entries (c : cluster) (st : state) : list wpath :=
  map (fun h => (strict_decl h, strict_root st))
      (filter (fun h => negb (has_root_begin st h)) (dedup_hosts [] (acquired_hosts c st))).

(* every host's paths as the frontend maps see them *)
Definition paths_w (strict : bool) (c : cluster) (st : state) : list wpath :=
  map lift (st_paths st) ++ (if strict then strict_entries c st else []).

(* ------------------------------------------------------------------ choosing the rule *)

Definition tls_ok (tls : list string) (r : request) (h : string) : bool :=
  negb (rq_https r) || existsb (String.eqb h) tls.

(* tier 1: rules of the exact host (a "*." host never is one) *)
Definition exact_visible (tls : list string) (r : request) (d : decl) : bool :=
  match d_host d with
  | Some h => negb (is_wild h) && (Route.lower h =? req_host r)%string && tls_ok tls r h
  | None => false
  end.

(* tier 2: rules of the wildcard host that matches the request host *)
Definition wild_visible (tls : list string) (r : request) (d : decl) : bool :=
  match d_host d with
  | Some h => wild_host_matches h (req_host r) && tls_ok tls r h
  | None => false
  end.

(* order of the regex file (hostsMapMatchFile.sort, MatchRegex = file_less Regex of Model/Maps.v):
   longer key first, then the smaller key, then the earlier declaration *)
Definition key_before (a b : N * wpath) : bool :=
  let ka := wild_key (fst (snd a)) in
  let kb := wild_key (fst (snd b)) in
  if negb (Nat.eqb (List.length ka) (List.length kb)) then Nat.ltb (List.length kb) (List.length ka)
  else if str_eqb ka kb then N.ltb (fst a) (fst b) else str_ltb ka kb.

Definition first_by {A} (before : A -> A -> bool) (l : list A) : option A :=
  fold_left (fun acc x => match acc with
                          | None => Some x
                          | Some a => if before x a then Some x else Some a
                          end) l None.

Definition serve_w (st : state) (k : option bkey) : outcome :=
  match k with
  | Some k => serve_back st k
  | None => NotFound
  end.

(* the frontends: exact host (spec-level matcher of Route.v), else the wildcard host (first
   matching key of the regex file), else the default host, else default backend, else 404 *)
Definition route_w (strict : bool) (c : cluster) (r : request) : outcome :=
  let st := sync_full c in
  let ps := paths_w strict c st in
  let tls := st_tls st in
  let sel f := filter (fun x => f (fst x) && Route.path_matches (d_type (fst x)) (d_path (fst x)) (rq_path r)) ps in
  match Route.best fst (sel (exact_visible tls r)) with
  | Some x => serve_w st (snd x)
  | None =>
      match first_by key_before
              (filter (fun nx => wild_visible tls r (fst (snd nx)) && path_matches_re (fst (snd nx)) (rq_path r))
                      (number 0 ps)) with
      | Some nx => serve_w st (snd (snd nx))
      | None =>
          match Route.best fst (sel default_visible) with
          | Some x => serve_w st (snd x)
          | None => match st_default st with Some k => serve_back st k | None => NotFound end
          end
      end
  end.

(* ------------------------------------------------------------------ specification (strict-host off) *)

(* documented matching: the exact host first, then the wildcard host, then the default host; inside
   a host the path types mean what they mean everywhere (Route.path_matches) and exact beats
   longest beats the rest (Route.better) *)
Definition spec_target_w (c : cluster) (r : request) : starget :=
  let cands f := filter (fun d => f d && Route.path_matches (d_type d) (d_path d) (rq_path r)) (effective_decls c) in
  match Route.best (fun d => d) (cands (exact_visible (tls_hosts c) r)) with
  | Some d => TDecl d
  | None =>
      match Route.best (fun d => d) (cands (wild_visible (tls_hosts c) r)) with
      | Some d => TDecl d
      | None =>
          match Route.best (fun d => d) (cands default_visible) with
          | Some d => TDecl d
          | None => match default_backend_port c with Some _ => TDefaultBackend | None => TNotFound end
          end
      end
  end.

Definition full_spec_w_for (o : outcome) (c : cluster) (r : request) : Prop :=
  match spec_target_w c r with
  | TDecl d => exists svc sp, resolve c d = Some (svc, sp) /\
                 exists srv, o = Serve srv /\ forall s, In s srv <-> designated c svc sp s
  | TDefaultBackend => exists svc sp, default_backend_port c = Some (svc, sp) /\
                 exists srv, o = Serve srv /\ forall s, In s srv <-> designated c svc sp s
  | TNotFound => o = NotFound
  end.

(* the wildcard tier of the implementation agrees with the documented matching for this request:
   the first matching key of the regex file belongs to the rule the documented matching selects
   (false e.g. for Exact /app/sub against Prefix /app: the prefix regex is longer) *)
Definition wild_code_choice (c : cluster) (r : request) : option bkey :=
  let st := sync_full c in
  match first_by key_before
       (filter (fun nx => wild_visible (tls_hosts c) r (fst (snd nx)) && path_matches_re (fst (snd nx)) (rq_path r))
               (number 0 (map lift (st_paths st)))) with
  | Some nx => snd (snd nx)
  | None => None
  end.
Definition wild_spec_choice (c : cluster) (r : request) : option bkey :=
  option_map snd
    (Route.best fst (filter (fun x => wild_visible (tls_hosts c) r (fst x) &&
                                       Route.path_matches (d_type (fst x)) (d_path (fst x)) (rq_path r))
                            (st_paths (sync_full c)))).
Definition obkey_eqb (a b : option bkey) : bool :=
  match a, b with
  | Some x, Some y => bkey_eqb x y
  | None, None => true
  | _, _ => false
  end.
Definition wild_conform (c : cluster) (r : request) : bool :=
  obkey_eqb (wild_code_choice c r) (wild_spec_choice c r).

(* no wildcard host at all *)
Definition no_wildcards (c : cluster) : Prop :=
  forall d h, In d (effective_decls c) -> d_host d = Some h -> is_wild h = false.

(* ------------------------------------------------------------------ through the rendered files *)

Definition is_wild_path (x : wpath) : bool :=
  match d_host (fst x) with Some h => is_wild h | None => false end.
Definition wnamed (x : wpath) : bool :=
  match d_host (fst x) with Some _ => true | None => false end.
Definition wtls (tls : list string) (x : wpath) : bool :=
  match d_host (fst x) with Some h => existsb (String.eqb h) tls | None => false end.

(* the regex file of a map, as rules: hostsMapMatchFile.sort() of the wildcard hosts' entries *)
Definition regex_rules (keep : wpath -> bool) (ps : list (N * wpath)) : list (N * wpath) :=
  gosort key_before (filter (fun nx => is_wild_path (snd nx) && keep (snd nx)) ps).

Definition wvalue (enc : bkey -> str) (x : wpath) : str :=
  match snd x with Some k => enc k | None => s2l "_error404" end.

(* ... and as text (MatchFiles().Values()): what is compared with the rendered file *)
Definition regex_file_text (enc : bkey -> str) (rules : list (N * wpath)) : list (str * str) :=
  map (fun nx => (wild_key (fst (snd nx)), wvalue enc (snd nx))) rules.

(* map_reg: the first key that matches; a key of this form matches host#path iff the host is one
   label + the suffix and the path regex matches (TRUSTED reading of these regex forms) *)
Definition lookup_regex (rules : list (N * wpath)) (reqhost path : string) : option wpath :=
  option_map snd
    (hd_error (filter (fun nx => match d_host (fst (snd nx)) with
                                 | Some h => wild_host_matches h reqhost
                                 | None => false
                                 end && path_matches_re (fst (snd nx)) path) rules)).

(* AddHostnamePathMapping calls of the plain hosts *)
Definition fed_w (enc : bkey -> str) (nx : N * wpath) : fed :=
  let d := fst (snd nx) in
  {| fhost := host_str (d_host d); fpath := s2l (d_path d); ftyp := mt (d_type d);
     forder := fst nx; ftarget := wvalue enc (snd nx) |}.

Record rendered_w := {
  rw : rendered;                        (* the str / beg / dir files of the three maps, default_backend *)
  rw_http_regex : list (N * wpath);     (* regex file of _front_http_host *)
  rw_https_regex : list (N * wpath)     (* regex file of _front_https_host *)
}.

Definition render_w (mo : list mtype) (enc : bkey -> str) (strict : bool) (c : cluster) (st : state) : rendered_w :=
  let ps := number 0 (paths_w strict c st) in
  let plain keep := rebuild_current mo (map add (map (fed_w enc)
                      (filter (fun nx => negb (is_wild_path (snd nx)) && keep (snd nx)) ps))) in
  {| rw := {| rd_http := plain wnamed;
              rd_https := plain (wtls (st_tls st));
              rd_default := plain (fun x => negb (wnamed x));
              rd_defback := option_map enc (st_default st) |};
     rw_http_regex := regex_rules wnamed ps;
     rw_https_regex := regex_rules (wtls (st_tls st)) ps |}.

(* the frontends over the files, regex file last (default path-type-order) *)
Definition route_files_w (tree : bool) (enc : bkey -> str) (rd : rendered_w) (r : request) : option str :=
  let https := rq_https r in
  let h := s2l (req_host r) in let p := s2l (rq_path r) in
  match lookup tree (if https then rd_https (rw rd) else rd_http (rw rd)) (sample h p) with
  | Some v => Some v
  | None =>
      match lookup_regex (if https then rw_https_regex rd else rw_http_regex rd) (req_host r) (rq_path r) with
      | Some x => Some (wvalue enc x)
      | None =>
          match lookup tree (rd_default (rw rd)) (sample default_host p) with
          | Some v => Some v
          | None => rd_defback (rw rd)
          end
      end
  end.

Definition serve_id_w (enc : bkey -> str) (st : state) (v : option str) : outcome :=
  match v with
  | None => NotFound
  | Some id => if str_eqb id (s2l "_error404") then NotFound else serve_id enc st (Some id)
  end.

Definition route_maps_w (tree : bool) (mo : list mtype) (enc : bkey -> str) (strict : bool) (c : cluster) (r : request) : outcome :=
  let st := sync_full c in serve_id_w enc st (route_files_w tree enc (render_w mo enc strict c st) r).

(* ------------------------------------------------------------------ hypotheses of the composition, decidable *)

Definition decl_is_wild (d : decl) : bool := match d_host d with Some h => is_wild h | None => false end.

(* C04's guard for the plain hosts; for wildcard hosts: no regex metacharacter in the path *)
Definition meta_free (p : string) : bool :=
  forallb (fun a => negb (existsb (Ascii.eqb a) (list_ascii_of_string "\.+*?()|[]{}^$"))) (list_ascii_of_string p).
Definition decls_in_guardb_w (c : cluster) : bool :=
  forallb (fun d => if decl_is_wild d then meta_free (d_path d) else wf_decl d) (effective_decls c).

Definition candidates_w (strict : bool) (f : decl -> bool) (c : cluster) (r : request) : list wpath :=
  filter (fun x => f (fst x) && Route.path_matches (d_type (fst x)) (d_path (fst x)) (rq_path r))
         (paths_w strict c (sync_full c)).

Definition tie_freeb_w (l : list wpath) : bool :=
  forallb (fun x => forallb (fun y => negb (rank2_eqb (fst x) (fst y)) || obkey_eqb (snd x) (snd y)) l) l.
Definition unambiguousb_w (strict : bool) (c : cluster) (r : request) : bool :=
  tie_freeb_w (candidates_w strict (exact_visible (tls_hosts c) r) c r) &&
  tie_freeb_w (candidates_w strict default_visible c r).
