(* Orchestration of pkg/converters/converters.go Sync: two sources write one haproxy model
   and share one tracker.
     - the ingress converter: Model/Conv.v as is (full and partial sync);
     - the gateway converter G: it converts only in a full sync; everything it reads
       (Services, Endpoints, Secrets) and every host it writes is linked to the single
       tracker node (Gateway, "gw"); NeedFullSync() = QueryLinks(changed.Links) reaches
       that node.  Events on gateway kinds set changed.NeedFullSync (ob_full).
   G is abstract here (the gateway conversion itself is property C10): the cluster carries
   what G produces in a full sync of that cluster -- its hosts, the backends it acquires,
   the references it tracks.

   sync_o     Sync as it is today (/repo commit 5060862): TrackChanges (the links of added and
              updated ingresses, Conv.track_added_ing) BEFORE the gateway converter is asked;
              needFull = changed.NeedFullSync || G.NeedFullSync(); a full sync clears the
              model and the tracker, runs G, then the ingress full sync; otherwise only the
              ingress partial sync runs.
   sync_old   the order before that commit: G.NeedFullSync() asked before the pre-tracking. *)
From Coq Require Import List Bool String ZArith.
From HI Require Import Model.Tracker Model.Conv.
Import ListNotations.
Open Scope string_scope.

Record gout := {
  og_hosts : list (string * hostrec);      (* the hosts G builds *)
  og_backs : list (string * backrec);      (* the backends G acquires (it runs first) *)
  og_refs : list node                      (* Service / Endpoints / Secret references G tracks *)
}.

Record oworld := { ow_base : world; ow_g : gout }.
Record obatch := { ob_base : batch; ob_full : bool }.

(* the tracker node (Gateway, "gw"); Conv.kind has no Gateway kind, this name is no object's *)
Definition gw : node := (KConfigMap, "<gateway>").

Definition gnodes (g : gout) : list node := og_refs g ++ map (fun p => (KHost, fst p)) (og_hosts g).

Definition gtrack (g : gout) (T : ctracker) : ctracker :=
  fold_left (fun T n => track T n gw) (gnodes g) T.

Definition ginstall (g : gout) (s : cstate) : cstate :=
  fun t => match t with
           | THost h => match assoc h (og_hosts g) with Some r => Some (CHost r) | None => s t end
           | TBack bk => match assoc bk (og_backs g) with Some r => Some (CBack r) | None => s t end
           end.

Definition g_full (g : gout) (x : st) : st := (ginstall g (fst x), gtrack g (snd x)).

(* haproxy.Clear, tracker.ClearLinks, gateway converter, ingress converter *)
Definition sync_full_o (w : oworld) : st :=
  fold_left (sync_ingress (ow_base w)) (sort_ings (w_ings (ow_base w))) (g_full (ow_g w) (empty_state, [])).

(* G.NeedFullSync: QueryLinks(changed.Links, false) returns a Gateway resource *)
Definition need_full (T : ctracker) (links : list node) : option bool :=
  match query_links node_eqb T links with
  | Some out => Some (mem node_eqb gw out)
  | None => None
  end.

Definition pretrack (w' : world) (x : st) (b : batch) : ctracker :=
  fold_left (track_added_ing w' (fst x)) (b_add b ++ b_upd b) (snd x).

Definition sync_o (w' : oworld) (x : st) (b : obatch) : option st :=
  match need_full (pretrack (ow_base w') x (ob_base b)) (b_links (ob_base b)) with
  | None => None
  | Some g => if ob_full b || g then Some (sync_full_o w') else sync_partial (ow_base w') x (ob_base b)
  end.

Definition sync_old (w' : oworld) (x : st) (b : obatch) : option st :=
  match need_full (snd x) (b_links (ob_base b)) with
  | None => None
  | Some g => if ob_full b || g then Some (sync_full_o w') else sync_partial (ow_base w') x (ob_base b)
  end.
