(* Model of pkg/utils/workqueue/ratelimiters.go: the two rate limiters
   ingressReconciler.When and reloadHAProxy.When (after the repair
   "fix: reloadHAProxy.When did not record the scheduled reload time").
   Definitions only; proofs are in Proofs/Limiter.v.

   Time is Z nanoseconds on one monotonic clock. `last` is the limiter's field,
   `now` the reading of time.Now() inside When (an explicit input). The result is
   (returned delay, new value of last).
   Go:  t.After(u) <-> u < t      t.Before(u) <-> t < u   (both strict). *)
From Coq Require Import ZArith List.
Import ListNotations.
Open Scope Z_scope.

(* func (r *ingressReconciler[T]) When(_ T) time.Duration *)
Definition reconciler_when (delta wait : Z) (last now : Z) : Z * Z :=
  (* if r.last.After(now) { return r.last.Sub(now) } *)
  if now <? last then (last - now, last)
  else
    (* next := r.last.Add(r.delta) *)
    let next := last + delta in
    (* if next.Before(now) { r.last = now.Add(r.wait); return r.wait } *)
    if next <? now then (wait, now + wait)
    (* r.last = next; return next.Sub(now) *)
    else (next - now, next).

(* func (r *reloadHAProxy) When(_ any) time.Duration, as repaired *)
Definition reload_when (interval : Z) (last now : Z) : Z * Z :=
  (* if r.last.After(now) { return r.last.Sub(now) } *)
  if now <? last then (last - now, last)
  else
    let next := last + interval in
    (* if next.Before(now) { r.last = now; return 0 } *)
    if next <? now then (0, now)
    (* r.last = next; return next.Sub(now) *)
    else (next - now, next).

(* The code before the repair (kept to show what was wrong, see Proofs/Limiter.v
   reload_v0_spacing_refuted). `now2` is the second clock reading of time.Until. *)
Definition reload_when_v0 (interval : Z) (last now now2 : Z) : Z * Z :=
  let next := last + interval in
  if next <? now then (0, now) else (next - now2, last).

(* func (r *ingressReconciler[T]) Forget(_ T) {}  and  func (r *reloadHAProxy) Forget(_ any) {}:
   client-go calls Forget after every successful callback (and controller-runtime before a
   RequeueAfter); both are no-ops: `last` is left alone, whatever the clock says *)
Definition reconciler_forget (last now : Z) : Z := last.
Definition reload_forget (last now : Z) : Z := last.

(* A limiter is any function of this shape. *)
Definition whenfn := Z -> Z -> Z * Z.

(* Successive calls at the instants `nows`: the list of (delay, new last). *)
Fixpoint run_when (f : whenfn) (last : Z) (nows : list Z) : list (Z * Z) :=
  match nows with
  | [] => []
  | now :: rest => let r := f last now in r :: run_when f (snd r) rest
  end.

(* value of `last` after the calls *)
Definition last_after (f : whenfn) (last : Z) (nows : list Z) : Z :=
  fold_left (fun l now => snd (f l now)) nows last.

(* Grant instants: now + returned delay, i.e. when client-go's AddAfter makes the
   item ready. *)
Definition grants (f : whenfn) (last : Z) (nows : list Z) : list Z :=
  map (fun p : Z * (Z * Z) => fst p + fst (snd p)) (combine nows (run_when f last nows)).

(* IngressReconcilerRateLimiter: delta = time.Duration(float64(time.Second) / rate).
   The float division is not modelled: the harness evaluates the very same Go expression
   and `delta` enters the model as an input; every theorem holds for all delta >= 0. *)
