(* Model of the ACME part of haproxy-ingress (property C17), call by call:
     pkg/acme/signer.go            Notify / verify / match
     crypto/x509 (Go 1.23)         Certificate.VerifyHostname for DNS names (not IP literals)
     pkg/haproxy/types/global.go   AcmeStorages: Acquire (+AddDomains, AssignPreferredChain),
                                   RemoveAll, shrink, Commit, AcmeData.Clear, buildAcmeStorages
     pkg/haproxy/instance.go       AcmeUpdate
   as they are after the two `fix:` commits of C17 (Acquire clones a committed storage;
   Clear keeps the committed storages as removed and marks the cycle as full).
   Definitions only; proofs are in Proofs/Acme.v.
   Clock reading (`now`), the certificate found in the secret, the answers of the acme client
   and of the secret writer are explicit parameters.  Go maps are association lists without
   duplicate keys; their iteration order only shows in the order of the queue calls, which the
   correspondence compares as multisets. *)
From Coq Require Import ZArith NArith List Bool String Ascii.
Import ListNotations.
Open Scope string_scope.

(* ------------------------------------------------------------------ strings *)

Definition is_upper (c : ascii) : bool :=
  let n := nat_of_ascii c in (Nat.leb 65 n && Nat.leb n 90)%bool.
Definition lower_ascii (c : ascii) : ascii :=
  if is_upper c then ascii_of_nat (nat_of_ascii c + 32) else c.
(* x509.toLowerCaseASCII (byte-wise; only 'A'..'Z' change) *)
Fixpoint lower (s : string) : string :=
  match s with
  | EmptyString => EmptyString
  | String c t => String (lower_ascii c) (lower t)
  end.

(* strings.Split(s, sep) for a one-byte separator: always at least one element *)
Fixpoint split_aux (sep : ascii) (s : string) (cur : string) : list string :=
  match s with
  | EmptyString => [cur]
  | String c t =>
      if Ascii.eqb c sep then cur :: split_aux sep t EmptyString
      else split_aux sep t (cur ++ String c EmptyString)
  end.
Definition split (sep : ascii) (s : string) : list string := split_aux sep s EmptyString.

(* strings.Join *)
Fixpoint join (sep : string) (l : list string) : string :=
  match l with
  | [] => EmptyString
  | [x] => x
  | x :: t => x ++ sep ++ join sep t
  end.

(* strings.TrimSuffix(s, ".") *)
Fixpoint trim_dot (s : string) : string :=
  match s with
  | EmptyString => EmptyString
  | String c EmptyString => if Ascii.eqb c "." then EmptyString else s
  | String c t => String c (trim_dot t)
  end.

Fixpoint str_forall_idx (f : nat -> ascii -> bool) (i : nat) (s : string) : bool :=
  match s with
  | EmptyString => true
  | String c t => f i c && str_forall_idx f (S i) t
  end.

(* ------------------------------------------------------------------ x509 host names *)

(* one character of a label, j = its index in the label *)
Definition host_char_ok (j : nat) (c : ascii) : bool :=
  let n := nat_of_ascii c in
  (Nat.leb 97 n && Nat.leb n 122) || (Nat.leb 48 n && Nat.leb n 57) || (Nat.leb 65 n && Nat.leb n 90)
  || (Nat.eqb n 45 && negb (Nat.eqb j 0)) || Nat.eqb n 95.

Fixpoint labels_ok (is_pattern : bool) (i : nat) (parts : list string) : bool :=
  match parts with
  | [] => true
  | p :: t =>
      (if String.eqb p "" then false
       else if is_pattern && Nat.eqb i 0 && String.eqb p "*" then true
       else str_forall_idx host_char_ok 0 p)
      && labels_ok is_pattern (S i) t
  end.

(* x509.validHostname *)
Definition valid_hostname (host : string) (is_pattern : bool) : bool :=
  let host := if is_pattern then host else trim_dot host in
  if String.eqb host "" then false
  else if String.eqb host "*" then false
  else labels_ok is_pattern 0 (split "." host).

(* x509.matchExactly *)
Definition match_exactly (a b : string) : bool :=
  if String.eqb a "" || String.eqb a "." || String.eqb b "" || String.eqb b "." then false
  else String.eqb (lower a) (lower b).

Fixpoint parts_match (i : nat) (pp hp : list string) : bool :=
  match pp, hp with
  | [], [] => true
  | p :: pt, h :: ht =>
      ((Nat.eqb i 0 && String.eqb p "*") || String.eqb p h) && parts_match (S i) pt ht
  | _, _ => false
  end.

(* x509.matchHostnames *)
Definition match_hostnames (pattern host : string) : bool :=
  let pattern := lower pattern in
  let host := lower (trim_dot host) in
  if String.eqb pattern "" || String.eqb host "" then false
  else parts_match 0 (split "." pattern) (split "." host).

(* Certificate.VerifyHostname(h) == nil, for h that is not an IP literal *)
Definition verify_hostname (dnsnames : list string) (h : string) : bool :=
  let cand := lower h in
  let valid := valid_hostname cand false in
  existsb (fun m => if valid && valid_hostname m true then match_hostnames m cand
                    else match_exactly m cand) dnsnames.

(* acme.match: every wanted domain is covered by the certificate *)
Definition covers (dnsnames : list string) (domains : list string) : bool :=
  forallb (verify_hostname dnsnames) domains.

(* ------------------------------------------------------------------ signer *)

(* what GetTLSSecretContent returned: None = error (missing or unreadable secret),
   Some (notAfter in ns, DNS names of the certificate) *)
Definition secret_state := option (Z * list string).

Inductive reason := RNone | RMissing | RExpiring | ROutdated.

(* the condition of signer.verify, with the order in which the reasons are tested *)
Definition verify_decision (now expiring : Z) (sec : secret_state) (domains : list string) : reason :=
  match sec with
  | None => RMissing
  | Some (not_after, dns) =>
      if (not_after <? now + expiring)%Z then RExpiring      (* NotAfter.Before(duedate): strict *)
      else if negb (covers dns domains) then ROutdated
      else RNone
  end.

(* answer of Client.Sign and of SetTLSSecretContent *)
Record answers := { a_crt : bool; a_key : bool; a_err : bool; a_set_err : bool }.

(* what one Notify did: calls of Sign (domains, preferred chain), calls of
   SetTLSSecretContent (secret name), class of the returned error
   (0 none, 1 no account, 2 the error of Sign, 3 the error of the secret writer,
    9 = the item has no second field: Notify panics), reason counted *)
Record notify_out := { o_signs : list (list string * string); o_sets : list string;
                       o_err : N; o_reason : reason }.

Definition verify (now expiring : Z) (sec : secret_state) (ans : answers)
                  (secret chain : string) (domains : list string) : notify_out :=
  match verify_decision now expiring sec domains with
  | RNone => {| o_signs := []; o_sets := []; o_err := 0; o_reason := RNone |}
  | r =>
      if a_crt ans && a_key ans then
        {| o_signs := [(domains, chain)]; o_sets := [secret];
           o_err := if a_set_err ans then 3%N else 0%N; o_reason := r |}
      else
        {| o_signs := [(domains, chain)]; o_sets := [];
           o_err := if a_err ans then 2%N else 0%N; o_reason := r |}
  end.

(* signer.Notify(item), item = "secret,chain,domain,..." *)
Definition notify (has_account : bool) (now expiring : Z) (sec : secret_state) (ans : answers)
                  (item : string) : notify_out :=
  if negb has_account then {| o_signs := []; o_sets := []; o_err := 1; o_reason := RNone |}
  else match split "," item with
       | secret :: chain :: domains => verify now expiring sec ans secret chain domains
       | _ => {| o_signs := []; o_sets := []; o_err := 9; o_reason := RNone |}
       end.

(* ------------------------------------------------------------------ storages *)

(* AcmeCerts: certs (a set, kept sorted without duplicates) and preferredChain *)
Record acert := { doms : list string; chain : string }.

Fixpoint ins (x : string) (l : list string) : list string :=
  match l with
  | [] => [x]
  | y :: t => match String.compare x y with
              | Eq => l
              | Lt => x :: l
              | Gt => y :: ins x t
              end
  end.

Definition acert_eqb (a b : acert) : bool :=
  (if list_eq_dec string_dec (doms a) (doms b) then true else false) && String.eqb (chain a) (chain b).

Definition smap := list (string * acert).

Fixpoint lookup (n : string) (m : smap) : option acert :=
  match m with
  | [] => None
  | (k, v) :: t => if String.eqb n k then Some v else lookup n t
  end.
Fixpoint remove (n : string) (m : smap) : smap :=
  match m with
  | [] => []
  | (k, v) :: t => if String.eqb n k then remove n t else (k, v) :: remove n t
  end.
Definition set (n : string) (v : acert) (m : smap) : smap := (n, v) :: remove n m.
Definition mem (n : string) (m : smap) : bool :=
  match lookup n m with Some _ => true | None => false end.

(* full = between AcmeData.Clear and the next Commit *)
Record storages := { items : smap; iadd : smap; idel : smap; full : bool }.

Definition empty_storages : storages := {| items := []; iadd := []; idel := []; full := false |}.

(* AddDomains(ds) then AssignPreferredChain(ch) when ch is not empty *)
Definition mutate (c : acert) (ds : list string) (ch : string) : acert :=
  {| doms := fold_left (fun acc d => ins d acc) ds (doms c);
     chain := if String.eqb ch "" then chain c
              else if negb (String.eqb (chain c) "") && negb (String.eqb (chain c) ch) then chain c
              else ch |}.

Definition empty_cert : acert := {| doms := []; chain := "" |}.

(* Acquire(name) followed by the two mutations on the returned object.  items[name] and
   itemsAdd[name] are the same object whenever both exist, so both entries follow. *)
Definition acquire (n : string) (ds : list string) (ch : string) (st : storages) : storages :=
  match lookup n (items st) with
  | None =>
      let c := mutate empty_cert ds ch in
      {| items := set n c (items st); iadd := set n c (iadd st); idel := idel st; full := full st |}
  | Some c0 =>
      let c := mutate c0 ds ch in
      if mem n (iadd st) then
        {| items := set n c (items st); iadd := set n c (iadd st); idel := idel st; full := full st |}
      else
        (* committed storage: remembered as removed, the work continues on a clone *)
        {| items := set n c (items st); iadd := set n c (iadd st); idel := set n c0 (idel st);
           full := full st |}
  end.

Definition remove_one (st : storages) (n : string) : storages :=
  match lookup n (items st) with
  | Some c => {| items := remove n (items st); iadd := iadd st; idel := set n c (idel st); full := full st |}
  | None => st
  end.
Definition remove_all (names : list string) (st : storages) : storages := fold_left remove_one names st.

Definition same_in (m : smap) (e : string * acert) : bool :=
  match lookup (fst e) m with Some v => acert_eqb v (snd e) | None => false end.

Definition shrink (st : storages) : storages :=
  {| items := items st;
     iadd := if full st then iadd st else filter (fun e => negb (same_in (idel st) e)) (iadd st);
     idel := filter (fun e => negb (same_in (iadd st) e)) (idel st);
     full := full st |}.

Definition commit (st : storages) : storages :=
  {| items := items st; iadd := []; idel := []; full := false |}.

(* AcmeData.Clear, called by config.Clear at the start of a full sync *)
Definition clear (st : storages) : storages :=
  {| items := []; iadd := [];
     idel := fold_left (fun d e => if mem (fst e) (iadd st) then d else set (fst e) (snd e) d) (items st) (idel st);
     full := true |}.

(* the "name,chain,domains" string of buildAcmeStorages *)
Definition render (e : string * acert) : string :=
  fst e ++ "," ++ chain (snd e) ++ "," ++ join "," (doms (snd e)).

(* Instance.AcmeUpdate: new state, storages passed to queue.Add, storages passed to queue.Remove *)
Definition acme_update (leader has_account : bool) (st : storages) : storages * smap * smap :=
  if leader then
    if has_account then let st' := shrink st in (st', iadd st', idel st')
    else (st, [], [])
  else (shrink st, [], []).      (* storages.Updated() shrinks too *)

(* ------------------------------------------------------------------ histories *)

Inductive op :=
| OAcquire (name : string) (domains : list string) (chain : string)
| ORemove (names : list string)
| OUpdate (leader has_account : bool)
| OCommit
| OClear.

(* one observed AcmeUpdate: Add strings, Remove strings, BuildAcmeStorages() before the call *)
Definition upd_obs := (list string * list string * list string)%type.

Fixpoint run (ops : list op) (st : storages) : storages * list upd_obs :=
  match ops with
  | [] => (st, [])
  | o :: t =>
      match o with
      | OAcquire n ds ch => run t (acquire n ds ch st)
      | ORemove ns => run t (remove_all ns st)
      | OCommit => run t (commit st)
      | OClear => run t (clear st)
      | OUpdate l a =>
          let '(st', adds, dels) := acme_update l a st in
          let '(stf, obs) := run t st' in
          (stf, (map render adds, map render dels, map render (items st)) :: obs)
      end
  end.

(* what converters.Sync does to the storages in one reconciliation:
   partial sync = RemoveAll(dirty storages) then the Acquire calls of the re-read ingresses;
   full sync = Clear then the Acquire calls of every ingress *)
Definition acq := (string * list string * string)%type.
Definition do_acq (st : storages) (a : acq) : storages :=
  let '(n, ds, ch) := a in acquire n ds ch st.
Inductive sync :=
| Partial (dirty : list string) (acqs : list acq)
| Full (acqs : list acq).
Definition is_full (s : sync) : bool := match s with Full _ => true | Partial _ _ => false end.
Definition do_sync (s : sync) (st : storages) : storages :=
  match s with
  | Partial dirty acqs => fold_left do_acq acqs (remove_all dirty st)
  | Full acqs => fold_left do_acq acqs (clear st)
  end.

(* one reconciliation as Services.ReconcileIngress runs it: Sync, AcmeUpdate, Commit.
   called = false when the controller does not lead and Services skips AcmeUpdate altogether *)
Record step := { s_sync : sync; s_called : bool; s_leader : bool; s_account : bool }.

(* record of one reconciliation: wanted storages before, wanted storages after, the step,
   storages passed to Add, storages passed to Remove *)
Record step_trace := { t_before : smap; t_after : smap; t_step : step; t_adds : smap; t_dels : smap }.

Definition reconcile (st : storages) (s : step) : storages * step_trace :=
  let st1 := do_sync (s_sync s) st in
  let '(st2, adds, dels) :=
    if s_called s then acme_update (s_leader s) (s_account s) st1 else (st1, [], []) in
  (commit st2, {| t_before := items st; t_after := items st1; t_step := s; t_adds := adds; t_dels := dels |}).

Fixpoint reconcile_all (st : storages) (h : list step) : list step_trace :=
  match h with
  | [] => []
  | s :: t => let '(st', tr) := reconcile st s in tr :: reconcile_all st' t
  end.

(* ------------------------------------------------------------------ the acme account
   signer.AcmeAccount (pkg/acme/signer.go, after the fix of /repo 461dbc0): the signer remembers
   the account it holds a client for.  `load_ok` says whether acme.NewClient would succeed now
   (account key readable, ACME directory reachable, account found or created): it is the
   environment, a parameter. *)

Record account := { ac_endpoint : string; ac_emails : string; ac_terms : bool }.
Definition empty_account : account := {| ac_endpoint := ""; ac_emails := ""; ac_terms := false |}.

Definition account_eqb (a b : account) : bool :=
  String.eqb (ac_endpoint a) (ac_endpoint b) && String.eqb (ac_emails a) (ac_emails b)
  && Bool.eqb (ac_terms a) (ac_terms b).

(* the short names of the Let's Encrypt endpoints *)
Definition normal_endpoint (e : string) : string :=
  if String.eqb e "v2" || String.eqb e "v02" then "https://acme-v02.api.letsencrypt.org"
  else if String.eqb e "v2-staging" || String.eqb e "v02-staging" then "https://acme-staging-v02.api.letsencrypt.org"
  else e.

(* acme is configured: not all three keys empty *)
Definition configured (a : account) : bool :=
  negb (String.eqb (normal_endpoint (ac_endpoint a)) "" && String.eqb (ac_emails a) "" && negb (ac_terms a)).

(* sg_client: s.client != nil, what HasAccount() answers *)
Record signer_state := { sg_account : account; sg_client : bool }.
Definition new_signer : signer_state := {| sg_account := empty_account; sg_client := false |}.

Definition acme_account (load_ok : bool) (cfg : account) (s : signer_state) : signer_state :=
  let a := {| ac_endpoint := normal_endpoint (ac_endpoint cfg); ac_emails := ac_emails cfg; ac_terms := ac_terms cfg |} in
  if account_eqb (sg_account s) a then s
  else if negb (configured cfg) then new_signer              (* account dropped, nothing to load *)
  else if load_ok then {| sg_account := a; sg_client := true |}
  else new_signer.                                          (* load failed: nothing is remembered *)

(* one reconciliation with the real signer: Instance.AcmeUpdate asks the signer for the account
   (acmeEnsureConfig) only when leading *)
Record astep := { as_sync : sync; as_leader : bool; as_config : account; as_load_ok : bool }.

Definition areconcile (ss : storages * signer_state) (s : astep)
    : (storages * signer_state) * (step_trace * bool) :=
  let '(st, sg) := ss in
  let sg' := if as_leader s then acme_account (as_load_ok s) (as_config s) sg else sg in
  let '(st', tr) := reconcile st {| s_sync := as_sync s; s_called := true; s_leader := as_leader s;
                                    s_account := sg_client sg' |} in
  ((st', sg'), (tr, sg_client sg')).

Fixpoint areconcile_all (ss : storages * signer_state) (h : list astep) : list (astep * step_trace * bool) :=
  match h with
  | [] => []
  | s :: t => let '(ss', (tr, has)) := areconcile ss s in (s, tr, has) :: areconcile_all ss' t
  end.
