(* C07, generative side — which sections the template emits and which sections it refers to.

   `tstate` is the haproxy model state (pkg/haproxy/types) restricted to what decides the
   emission of SECTIONS and of REFERENCES TO SECTIONS in
     rootfs/etc/templates/haproxy/haproxy.tmpl   (main cfg + backend shards)
     pkg/haproxy/config.go  WriteFrontendMaps (HTTPHostMap, HTTPSHostMap, SSLPassthroughMap,
                            DefaultHostMap values) and WriteTCPServicesMaps (SNI map values).
   `emitted_sections` and `references` transcribe the CURRENT template, block by block:

     resolvers <name>            {{ if $global.DNS.Resolvers }}            (dnresolvers)
     userlist <name>             {{ range $cfg.Userlists.BuildSortedItems }}
     listen _tcp_<name>_<port>   {{ range $cfg.TCPBackends.BuildSortedItems }}  (tcp ConfigMap)
     backend <id>                {{ range $backends.BuildSortedItems }} / the shards
        http-request auth ... http_auth(<userlist>)     mode http only, AuthHTTP items with a name
        http-request lua.auth-intercept <backend>        mode http only, AuthExternal items that
                                                         are not AlwaysDeny and have a name
        server-template ... resolvers <name>             {{ if $backend.Resolver }}
     backend _redirect_https     {{ if $hosts.HasSSLPassthrough }}
     backend _acme_challenge     {{ if $global.Acme.Enabled }}
     backend _error404           {{ if or (not $backends.DefaultBackend) $hosts.HasError404 }}
     backend _auth_<port> ...    {{ range $frontend.AuthProxy.BindList }}   (only if the list is not empty)
     frontend <auth proxy name>      use_backend <bind.Backend> per bind
     frontend _front_tcp_<port>  {{ range $cfg.TCPServices.BuildSortedItems }}
        use_backend %[var(req.tcpback)]  <- values of _tcp_sni_<port>.map = backend of each hostname
        default_backend <backend>         {{ if DefaultHost }}{{ if not Backend.IsEmpty }}
     listen _front__tls          {{ if $hosts.HasSSLPassthrough }}
        use_backend %[var(req.sslpassback)] <- SSLPassthroughMap values
        use_backend <id>                     default host with ssl-passthrough, its "/" paths with a backend
     frontend _front_http, frontend <$frontend.Name>     {{ if $fmaps }}
        use_backend _acme_challenge           {{ if $global.Acme.Enabled }} (exclusive or shared)
        use_backend %[var(req.backend)] / %[var(req.hostbackend)] <- HTTPHostMap / HTTPSHostMap values
        use_backend %[var(req.defaultbackend)] <- DefaultHostMap values  (default host, no passthrough)
        use_backend <DefaultHost.HTTPPassthroughBackend>   _front_http only
        default_backend <DefaultBackend.ID | _error404>
        http-request lua.auth-intercept <backend>  authExternalFrontend: paths with AuthExt
     listen stats, frontend prometheus ({{ if $global.Prometheus.Port }}), frontend healthz,
     backend spoe-modsecurity ({{ if $global.ModSecurity.Endpoints }})

   NOT transcribed (the verified checker `wellformed` of Model/CfgRefs.v covers them on the
   written files): file references (map / list / crt-list / crt / ca-file / crl-file /
   spoe config), server names and ids, path ids, use-server, auth-proxy ports, custom
   snippets and custom sections (global.CustomSections / CustomProxy / config-backend ...),
   the keys of the maps (only their values refer to sections).

   Second part: the bookkeeping of Hosts (pkg/haproxy/types/host.go AcquireHost,
   Host.SetSSLPassthrough, RemoveAll + releaseHost, Shrink, Commit, Clear) that the
   HasSSLPassthrough counter depends on.
   Definitions only; proofs are in Proofs/TmplRefs.v. *)
From Coq Require Import String List NArith ZArith Bool.
From HI Require Import Model.CfgRefs.
Import ListNotations.
Open Scope string_scope.
Open Scope list_scope.

(* ------------------------------------------------------------------ the state *)

Record tpath := {
  tp_path : string;                       (* HostPath.Path() *)
  tp_back : string;                       (* HostPath.Backend.ID ("" = none, e.g. redirect-to) *)
  tp_auth : option (bool * string)        (* HostPath.AuthExt: AlwaysDeny, AuthBackendName *)
}.

Record thost := {
  th_name : string;
  th_pass : bool;                         (* Host.SSLPassthrough() *)
  th_httppass : string;                   (* Host.HTTPPassthroughBackend *)
  th_tls : bool;                          (* Host.HasTLS() *)
  th_paths : list tpath
}.

Record tback := {
  tb_id : string;
  tb_tcp : bool;                          (* ModeTCP *)
  tb_userlists : list string;             (* AuthHTTP.UserlistName of its paths, non-empty ones *)
  tb_auth : list (bool * string);         (* AuthExternal of its paths: AlwaysDeny, AuthBackendName *)
  tb_resolver : string                    (* Resolver, "" = none *)
}.

Record ttcp := {
  tt_port : N;
  tt_hosts : list (string * string);      (* hostname, Backend.String() *)
  tt_default : option string;             (* DefaultHost with a non-empty backend *)
  tt_tls : bool                           (* TCPServicePort.HasTLS(): len(TLS) > 0 *)
}.

Record tbind := { ab_name : string; ab_backend : string }.  (* AuthBackendName, Backend.String() *)

Record tstate := {
  ts_hosts : list thost;                  (* Hosts.BuildSortedItems: every host but the default one *)
  ts_defhost : option thost;              (* Hosts.DefaultHost() *)
  ts_haspass : bool;                      (* Hosts.HasSSLPassthrough(): sslPassthroughCount > 0 *)
  ts_backs : list tback;
  ts_default : option string;             (* Backends.DefaultBackend.ID *)
  ts_userlists : list string;
  ts_resolvers : list string;             (* Global.DNS.Resolvers names *)
  ts_tcpbacks : list (string * N);        (* TCPBackends: name, port *)
  ts_tcp : list ttcp;                     (* TCPServices *)
  ts_authname : string;                   (* Frontend.AuthProxy.Name *)
  ts_binds : list tbind;                  (* Frontend.AuthProxy.BindList *)
  ts_fmaps : bool;                        (* Frontend.Maps != nil *)
  ts_httpsname : string;                  (* Frontend.Name *)
  ts_crtlist : string;                    (* Frontend.CrtListFile (without the filesystem prefix) *)
  ts_acme : bool;                         (* Global.Acme.Enabled *)
  ts_modsec : bool;                       (* Global.ModSecurity.Endpoints not empty *)
  ts_prom : bool                          (* Global.Prometheus.Port != 0 *)
}.

Inductive sid :=
| SBack (n : string) | SFront (n : string) | SListen (n : string)
| SUserlist (n : string) | SResolvers (n : string).

Definition sid_eqb (a b : sid) : bool :=
  match a, b with
  | SBack x, SBack y | SFront x, SFront y | SListen x, SListen y
  | SUserlist x, SUserlist y | SResolvers x, SResolvers y => String.eqb x y
  | _, _ => false
  end.
Definition sid_mem (x : sid) (l : list sid) : bool := existsb (sid_eqb x) l.
Fixpoint sid_nodupb (l : list sid) : bool :=
  match l with [] => true | x :: r => negb (sid_mem x r) && sid_nodupb r end.

Definition backids (st : tstate) : list string := map tb_id (ts_backs st).
Definition opt_list {A} (o : option A) : list A := match o with Some x => [x] | None => [] end.
Definition all_hosts (st : tstate) : list thost := ts_hosts st ++ opt_list (ts_defhost st).

(* Hosts.HasError404 *)
Definition has_error404 (st : tstate) : bool :=
  existsb (fun h => existsb (fun p => String.eqb (tp_back p) "_error404") (th_paths h)) (all_hosts st).

Definition is_some {A} (o : option A) : bool := match o with Some _ => true | None => false end.
Definition nonempty (s : string) : bool := negb (String.eqb s "").
Definition is_root (p : tpath) : bool := String.eqb (tp_path p) "/".

Definition tcpback_name (nb : string * N) : string := ("_tcp_" ++ fst nb ++ "_" ++ decN (snd nb))%string.
Definition tcpfront_name (t : ttcp) : string := ("_front_tcp_" ++ decN (tt_port t))%string.

(* ------------------------------------------------------------------ emitted sections *)

Definition support_backs (st : tstate) : list sid :=
  (if ts_haspass st then [SBack "_redirect_https"] else []) ++
  (if ts_acme st then [SBack "_acme_challenge"] else []) ++
  (if negb (is_some (ts_default st)) || has_error404 st then [SBack "_error404"] else []).

Definition auth_sections (st : tstate) : list sid :=
  match ts_binds st with
  | [] => []
  | bs => map (fun b => SBack (ab_name b)) bs ++ [SFront (ts_authname st)]
  end.

Definition emitted_sections (st : tstate) : list sid :=
  map SResolvers (ts_resolvers st) ++
  map SUserlist (ts_userlists st) ++
  map (fun nb => SListen (tcpback_name nb)) (ts_tcpbacks st) ++
  map SBack (backids st) ++
  support_backs st ++
  auth_sections st ++
  map (fun t => SFront (tcpfront_name t)) (ts_tcp st) ++
  (if ts_haspass st then [SListen "_front__tls"] else []) ++
  (if ts_fmaps st then [SFront "_front_http"; SFront (ts_httpsname st)] else []) ++
  [SListen "stats"] ++
  (if ts_prom st then [SFront "prometheus"] else []) ++
  [SFront "healthz"] ++
  (if ts_modsec st then [SBack "spoe-modsecurity"] else []).

(* ------------------------------------------------------------------ references *)

Definition ref := (string * sid)%type.   (* the section holding the reference, what it names *)

(* template "authExternal": a rule naming a backend is written unless AlwaysDeny / no name *)
Definition auth_target (a : bool * string) : list string :=
  if fst a then [] else if nonempty (snd a) then [snd a] else [].

Definition auth_front_refs (site : string) (st : tstate) : list ref :=
  flat_map (fun h => flat_map (fun p =>
     match tp_auth p with
     | Some a => map (fun n => (site, SBack n)) (auth_target a)
     | None => []
     end) (th_paths h)) (all_hosts st).

(* WriteFrontendMaps: value written to HTTPHostMap for one path of a (non default) host *)
Definition http_value (h : thost) (p : tpath) : string :=
  if th_pass h && is_root p then
    (if nonempty (th_httppass h) then th_httppass h else "_redirect_https")
  else tp_back p.

Definition http_map_refs (st : tstate) : list ref :=
  flat_map (fun h => flat_map (fun p =>
     if nonempty (tp_back p) then [("_front_http", SBack (http_value h p))] else []) (th_paths h)) (ts_hosts st).

Definition https_map_refs (st : tstate) : list ref :=
  flat_map (fun h =>
     if negb (th_pass h) && th_tls h then
       flat_map (fun p => if nonempty (tp_back p) then [(ts_httpsname st, SBack (tp_back p))] else []) (th_paths h)
     else []) (ts_hosts st).

Definition sslpass_map_refs (st : tstate) : list ref :=
  flat_map (fun h =>
     if th_pass h then
       flat_map (fun p => if nonempty (tp_back p) && is_root p then [("_front__tls", SBack (tp_back p))] else []) (th_paths h)
     else []) (ts_hosts st).

Definition defaulthost_refs (site : string) (st : tstate) : list ref :=
  match ts_defhost st with
  | Some dh =>
      if th_pass dh then []
      else flat_map (fun p => if nonempty (tp_back p) then [(site, SBack (tp_back p))] else []) (th_paths dh)
  | None => []
  end.

Definition default_backend_ref (site : string) (st : tstate) : list ref :=
  [(site, SBack (match ts_default st with Some d => d | None => "_error404" end))].

Definition tls_front_refs (st : tstate) : list ref :=
  if ts_haspass st then
    sslpass_map_refs st ++
    match ts_defhost st with
    | Some dh => if th_pass dh then
                   flat_map (fun p => if is_root p && nonempty (tp_back p)
                                      then [("_front__tls", SBack (tp_back p))] else []) (th_paths dh)
                 else []
    | None => []
    end
  else [].

Definition http_front_refs (st : tstate) : list ref :=
  if ts_fmaps st then
    (if ts_acme st then [("_front_http", SBack "_acme_challenge")] else []) ++
    http_map_refs st ++
    defaulthost_refs "_front_http" st ++
    auth_front_refs "_front_http" st ++
    match ts_defhost st with
    | Some dh => if nonempty (th_httppass dh) then [("_front_http", SBack (th_httppass dh))] else []
    | None => []
    end ++
    default_backend_ref "_front_http" st
  else [].

Definition https_front_refs (st : tstate) : list ref :=
  if ts_fmaps st then
    https_map_refs st ++
    defaulthost_refs (ts_httpsname st) st ++
    auth_front_refs (ts_httpsname st) st ++
    default_backend_ref (ts_httpsname st) st
  else [].

Definition tcp_front_refs (st : tstate) : list ref :=
  flat_map (fun t =>
     map (fun hb : string * string => (tcpfront_name t, SBack (snd hb))) (tt_hosts t) ++
     map (fun d => (tcpfront_name t, SBack d)) (opt_list (tt_default t))) (ts_tcp st).

Definition authproxy_refs (st : tstate) : list ref :=
  map (fun b => (ts_authname st, SBack (ab_backend b))) (ts_binds st).

Definition backend_refs_of (b : tback) : list ref :=
  (if tb_tcp b then []
   else map (fun u => (tb_id b, SUserlist u)) (tb_userlists b) ++
        flat_map (fun a => map (fun n => (tb_id b, SBack n)) (auth_target a)) (tb_auth b)) ++
  (if nonempty (tb_resolver b) then [(tb_id b, SResolvers (tb_resolver b))] else []).

Definition references (st : tstate) : list ref :=
  flat_map backend_refs_of (ts_backs st) ++
  authproxy_refs st ++
  tcp_front_refs st ++
  tls_front_refs st ++
  http_front_refs st ++
  https_front_refs st.

(* ------------------------------------------------------------------ crt-list files *)

(* the only FILE references transcribed: the crt-list of the binds.
     frontend _front_tcp_<port>: bind ... {{ if $tcpport.HasTLS }} ssl crt-list
        <prefix>/etc/haproxy/crtlist_tcp_<port>.list    written by instance.writeCrtLists for
        every port with len(TLS) > 0
     frontend <$frontend.Name>: bind ... crt-list {{ $frontend.CrtListFile }}   written with the
        frontend maps (WriteFrontendMaps) *)
Definition tcp_crtlist (t : ttcp) : string := ("/etc/haproxy/crtlist_tcp_" ++ decN (tt_port t) ++ ".list")%string.

Definition file_refs (st : tstate) : list (string * string) :=
  flat_map (fun t => if tt_tls t then [(tcpfront_name t, tcp_crtlist t)] else []) (ts_tcp st) ++
  (if ts_fmaps st then [(ts_httpsname st, ts_crtlist st)] else []).

Definition written_files (st : tstate) : list string :=
  flat_map (fun t => if tt_tls t then [tcp_crtlist t] else []) (ts_tcp st) ++
  (if ts_fmaps st then [ts_crtlist st] else []).

(* ------------------------------------------------------------------ the invariants *)

(* what the converters + the bookkeeping of the model maintain, as a decidable predicate *)

Definition known_back (st : tstate) (n : string) : bool := mem n (backids st).

Definition path_ok (st : tstate) (p : tpath) : bool :=
  (negb (nonempty (tp_back p)) || String.eqb (tp_back p) "_error404" || known_back st (tp_back p)) &&
  match tp_auth p with
  | Some a => forallb (fun n => known_back st n || mem n (map ab_name (ts_binds st))) (auth_target a)
  | None => true
  end.

Definition host_ok (st : tstate) (h : thost) : bool :=
  forallb (path_ok st) (th_paths h) &&
  (negb (nonempty (th_httppass h)) || known_back st (th_httppass h)).

Definition back_ok (st : tstate) (b : tback) : bool :=
  forallb (fun u => mem u (ts_userlists st)) (tb_userlists b) &&
  forallb (fun a => forallb (fun n => known_back st n || mem n (map ab_name (ts_binds st))) (auth_target a)) (tb_auth b) &&
  (negb (nonempty (tb_resolver b)) || mem (tb_resolver b) (ts_resolvers st)).

Definition tcp_ok (st : tstate) (t : ttcp) : bool :=
  forallb (fun hb : string * string => known_back st (snd hb)) (tt_hosts t) &&
  forallb (known_back st) (opt_list (tt_default t)).

(* names of the sections a use_backend can reach (backend and listen sections) *)
Definition backlike_names (st : tstate) : list string :=
  flat_map (fun x => match x with SBack n | SListen n => [n] | _ => [] end) (emitted_sections st).

(* the paths of the hosts name backends of the model (what the tracking of the converters
   is there for; the strict-host finding breaks exactly this one) *)
Definition inv_hostrefs (st : tstate) : bool := forallb (host_ok st) (all_hosts st).

Definition inv_rest (st : tstate) : bool :=
  (* the counter behind HasSSLPassthrough agrees with the hosts (hosts_counter theorem) *)
  Bool.eqb (ts_haspass st) (existsb th_pass (all_hosts st)) &&
  forallb (back_ok st) (ts_backs st) &&
  forallb (fun b => known_back st (ab_backend b)) (ts_binds st) &&
  forallb (known_back st) (opt_list (ts_default st)) &&
  forallb (tcp_ok st) (ts_tcp st) &&
  (* identifiers are keys of Go maps / distinct by construction *)
  sid_nodupb (emitted_sections st) &&
  nodupb (backlike_names st).

Definition st_inv (st : tstate) : bool := inv_hostrefs st && inv_rest st.

(* ------------------------------------------------------------------ the generated structure *)

(* the reference structure (Model/CfgRefs.v cfg) of the configuration the template generates
   from a state, restricted to sections and references to sections *)
Definition site_backs (st : tstate) (site : string) : list string :=
  flat_map (fun r : ref => if String.eqb (fst r) site then
                             match snd r with SBack n => [n] | _ => [] end else []) (references st).
Definition site_userlists (st : tstate) (site : string) : list string :=
  flat_map (fun r : ref => if String.eqb (fst r) site then
                             match snd r with SUserlist n => [n] | _ => [] end else []) (references st).

Definition gen_section (st : tstate) (k : skind) (n : string) : section :=
  {| s_kind := k; s_name := n; s_servers := []; s_use := site_backs st n; s_usedyn := []; s_default := [];
     s_authback := []; s_userlists := site_userlists st n; s_maps := []; s_crtlists := []; s_files := [];
     s_idmaps := []; s_idsused := []; s_useserver := [] |}.

Definition gen_sections (st : tstate) : list section :=
  flat_map (fun x => match x with
                     | SBack n => [gen_section st KBack n]
                     | SFront n => [gen_section st KFront n]
                     | SListen n => [gen_section st KListen n]
                     | _ => []
                     end) (emitted_sections st).

Definition gen_cfg (st : tstate) : cfg :=
  {| c_sections := gen_sections st; c_userlists := ts_userlists st; c_maps := []; c_crtlists := [];
     c_files := []; c_authbinds := []; c_authids := []; c_authservers := [] |}.

(* ------------------------------------------------------------------ Hosts bookkeeping *)

Record hstate := {
  hs_items : list (string * thost);
  hs_add : list (string * thost);
  hs_del : list (string * thost);
  hs_count : Z                           (* sslPassthroughCount *)
}.

Definition hs0 : hstate := {| hs_items := []; hs_add := []; hs_del := []; hs_count := 0 |}.

Fixpoint aset {A} (k : string) (v : A) (l : list (string * A)) : list (string * A) :=
  match l with
  | [] => [(k, v)]
  | (k', v') :: r => if String.eqb k k' then (k, v) :: r else (k', v') :: aset k v r
  end.
Fixpoint adel {A} (k : string) (l : list (string * A)) : list (string * A) :=
  match l with
  | [] => []
  | (k', v') :: r => if String.eqb k k' then r else (k', v') :: adel k r
  end.
(* update in place, only if present *)
Fixpoint aupd {A} (k : string) (f : A -> A) (l : list (string * A)) : list (string * A) :=
  match l with
  | [] => []
  | (k', v') :: r => if String.eqb k k' then (k', f v') :: r else (k', v') :: aupd k f r
  end.

Definition new_host (n : string) : thost :=
  {| th_name := n; th_pass := false; th_httppass := ""; th_tls := false; th_paths := [] |}.

(* what the converter does to the hosts between RemoveAll and Shrink *)
Inductive hmut :=
| HAcquire (n : string)                                  (* Hosts.AcquireHost *)
| HSetPass (n : string) (v : bool)                       (* Host.SetSSLPassthrough *)
| HEdit (n : string) (httppass : string) (tls : bool) (paths : list tpath).  (* any other field *)

Definition set_pass (v : bool) (h : thost) : thost :=
  {| th_name := th_name h; th_pass := v; th_httppass := th_httppass h; th_tls := th_tls h; th_paths := th_paths h |}.
Definition edit_host (hp : string) (tls : bool) (ps : list tpath) (h : thost) : thost :=
  {| th_name := th_name h; th_pass := th_pass h; th_httppass := hp; th_tls := tls; th_paths := ps |}.

Definition hmut_step (s : hstate) (m : hmut) : hstate :=
  match m with
  | HAcquire n =>
      match lookup n (hs_items s) with
      | Some _ => s
      | None => {| hs_items := aset n (new_host n) (hs_items s); hs_add := aset n (new_host n) (hs_add s);
                   hs_del := hs_del s; hs_count := hs_count s |}
      end
  | HSetPass n v =>
      match lookup n (hs_items s) with
      | Some h =>
          if Bool.eqb (th_pass h) v then s
          else {| hs_items := aupd n (set_pass v) (hs_items s); hs_add := aupd n (set_pass v) (hs_add s);
                  hs_del := hs_del s;
                  hs_count := if v then (hs_count s + 1)%Z else (hs_count s - 1)%Z |}
      | None => s
      end
  | HEdit n hp tls ps =>
      {| hs_items := aupd n (edit_host hp tls ps) (hs_items s); hs_add := aupd n (edit_host hp tls ps) (hs_add s);
         hs_del := hs_del s; hs_count := hs_count s |}
  end.

(* Hosts.RemoveAll: releaseHost + itemsDel + delete *)
Definition remove_one (s : hstate) (n : string) : hstate :=
  match lookup n (hs_items s) with
  | Some h => {| hs_items := adel n (hs_items s); hs_add := hs_add s; hs_del := aset n h (hs_del s);
                 hs_count := if th_pass h then (hs_count s - 1)%Z else hs_count s |}
  | None => s
  end.
Definition remove_all (s : hstate) (ns : list string) : hstate := fold_left remove_one ns s.

Definition tpath_eqb (a b : tpath) : bool :=
  String.eqb (tp_path a) (tp_path b) && String.eqb (tp_back a) (tp_back b) &&
  match tp_auth a, tp_auth b with
  | Some x, Some y => Bool.eqb (fst x) (fst y) && String.eqb (snd x) (snd y)
  | None, None => true
  | _, _ => false
  end.
Fixpoint tpaths_eqb (a b : list tpath) : bool :=
  match a, b with
  | [], [] => true
  | x :: a', y :: b' => tpath_eqb x y && tpaths_eqb a' b'
  | _, _ => false
  end.
(* reflect.DeepEqual(add, del) on the modelled fields *)
Definition thost_eqb (a b : thost) : bool :=
  String.eqb (th_name a) (th_name b) && Bool.eqb (th_pass a) (th_pass b) &&
  String.eqb (th_httppass a) (th_httppass b) && Bool.eqb (th_tls a) (th_tls b) &&
  tpaths_eqb (th_paths a) (th_paths b).

(* Hosts.Shrink: an added host equal to the deleted one of the same name: the old instance
   goes back into items, the pair leaves itemsAdd / itemsDel; the counter is not touched *)
Definition shrink_one (s : hstate) (nd : string * thost) : hstate :=
  match lookup (fst nd) (hs_add s) with
  | Some a =>
      if thost_eqb a (snd nd) then
        {| hs_items := aset (fst nd) (snd nd) (hs_items s); hs_add := adel (fst nd) (hs_add s);
           hs_del := adel (fst nd) (hs_del s); hs_count := hs_count s |}
      else s
  | None => s
  end.
Definition shrink (s : hstate) : hstate := fold_left shrink_one (hs_del s) s.

Definition commit (s : hstate) : hstate :=
  {| hs_items := hs_items s; hs_add := []; hs_del := []; hs_count := hs_count s |}.

(* one reconciliation: a full sync starts from Clear (CreateHosts), a partial one from
   RemoveAll of the dirty hosts; then the converter acquires / edits hosts; then
   Shrink and Commit *)
Record hcycle := { hc_full : bool; hc_remove : list string; hc_muts : list hmut }.

Definition run_cycle (s : hstate) (c : hcycle) : hstate :=
  let s1 := if hc_full c then hs0 else remove_all s (hc_remove c) in
  commit (shrink (fold_left hmut_step (hc_muts c) s1)).

Definition run_cycles (cs : list hcycle) : hstate := fold_left run_cycle cs hs0.

Definition pass_count (l : list (string * thost)) : Z :=
  Z.of_nat (length (filter (fun kv => th_pass (snd kv)) l)).
