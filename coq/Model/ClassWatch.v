(* Model of the Ingress handler of pkg/controller/reconciler/watchers.go
   (handlersIngress: predicates, add/upd/del reclassification, compose/notify),
   of what the API server does to metadata.generation, and of how
   pkg/converters/ingress/ingress.go syncPartial merges one batch into the set of
   converted ingresses. Definitions only (proofs in Proofs/ClassWatch.v).
   The IngressClass table is a parameter that stays fixed during a history: validity
   changes caused by IngressClass events are not part of this model (DESIGN C08). *)
From Coq Require Import String List Bool NArith.
From HI Require Import Lib.XNs_Strs Model.ClassSel.
Import ListNotations.
Open Scope string_scope.
Open Scope list_scope.

Inductive wevent :=
| WCreate (o : ingress)
| WUpdate (old new : ingress)
| WDelete (o : ingress).

(* types.ChangedObjects, the part fed by the Ingress handler; b_notes counts
   queue.AddRateLimited calls *)
Record batch := {
  b_add : list ingress;
  b_upd : list ingress;
  b_del : list ingress;
  b_links : list string;
  b_notes : N }.

Definition batch0 : batch := {| b_add := []; b_upd := []; b_del := []; b_links := []; b_notes := 0 |}.

Definition opt_string_eqb (a b : option string) : bool :=
  match a, b with
  | Some x, Some y => String.eqb x y
  | None, None => true
  | _, _ => false
  end.

(* maps.Equal(new.GetAnnotations(), old.GetAnnotations()) *)
Definition ann_equal (a b : ingress) : bool :=
  opt_string_eqb (i_ann a) (i_ann b) && N.eqb (i_oann a) (i_oann b).

(* predicate.Or(AnnotationChangedPredicate, GenerationChangedPredicate): both accept
   every create and delete *)
Definition changed_pred (old new : ingress) : bool :=
  negb (ann_equal old new) || negb (N.eqb (i_gen old) (i_gen new)).

(* the conjunction of the two predicates of the handler *)
Definition accepts (c : cfg) (cls : classes) (e : wevent) : bool :=
  match e with
  | WCreate o => is_valid c cls o
  | WUpdate old new => changed_pred old new && (is_valid c cls old || is_valid c cls new)
  | WDelete o => is_valid c cls o
  end.

(* appenddedup *)
Definition append_dedup (l : list string) (s : string) : list string :=
  if existsb (String.eqb s) l then l else l ++ [s].

Definition ev_name (e : wevent) : string :=
  match e with WCreate o => i_name o | WUpdate _ new => i_name new | WDelete o => i_name o end.

(* hdlr.Create / Update / Delete for an accepted event *)
Definition handle (c : cfg) (cls : classes) (b : batch) (e : wevent) : batch :=
  if accepts c cls e then
    let b1 :=
      match e with
      | WCreate o => {| b_add := b_add b ++ [o]; b_upd := b_upd b; b_del := b_del b; b_links := b_links b; b_notes := b_notes b |}
      | WUpdate old new =>
          let vo := is_valid c cls old in
          let vn := is_valid c cls new in
          if vo && vn then {| b_add := b_add b; b_upd := b_upd b ++ [new]; b_del := b_del b; b_links := b_links b; b_notes := b_notes b |}
          else if negb vo && vn then {| b_add := b_add b ++ [new]; b_upd := b_upd b; b_del := b_del b; b_links := b_links b; b_notes := b_notes b |}
          else if vo && negb vn then {| b_add := b_add b; b_upd := b_upd b; b_del := b_del b ++ [old]; b_links := b_links b; b_notes := b_notes b |}
          else b
      | WDelete o => {| b_add := b_add b; b_upd := b_upd b; b_del := b_del b ++ [o]; b_links := b_links b; b_notes := b_notes b |}
      end in
    {| b_add := b_add b1; b_upd := b_upd b1; b_del := b_del b1;
       b_links := append_dedup (b_links b1) (ev_name e);
       b_notes := b_notes b1 + 1 |}
  else b.

(* ---------- the cluster side ---------- *)

(* what a client asks for; OSwap is one reconciliation (getChangedObjects + Sync) *)
Inductive op :=
| OPut (i : ingress)        (* create, or update when the name exists *)
| ODelete (n : string)
| OSwap.

Fixpoint remove_ingress (ings : list ingress) (n : string) : list ingress :=
  match ings with
  | [] => []
  | i :: r => if String.eqb (i_name i) n then remove_ingress r n else i :: remove_ingress r n
  end.

Definition with_gen_rv (i : ingress) (g rv : N) : ingress :=
  {| i_name := i_name i; i_ann := i_ann i; i_cls := i_cls i; i_oann := i_oann i;
     i_spec := i_spec i; i_gen := g; i_rv := rv |}.

Definition spec_equal (a b : ingress) : bool :=
  opt_string_eqb (i_cls a) (i_cls b) && N.eqb (i_spec a) (i_spec b).

(* the API server: generation starts at 1 and is incremented exactly when the spec
   changes; every stored version gets a fresh resourceVersion *)
Definition store_put (objs : list ingress) (rv : N) (i : ingress) : wevent * list ingress :=
  match find_ingress objs (i_name i) with
  | None =>
      let o := with_gen_rv i 1 rv in
      (WCreate o, objs ++ [o])
  | Some old =>
      let g := if spec_equal old i then i_gen old else (i_gen old + 1)%N in
      let o := with_gen_rv i g rv in
      (WUpdate old o, remove_ingress objs (i_name i) ++ [o])
  end.

(* ---------- syncPartial, reduced to which ingresses end up converted ---------- *)

Definition names (l : list ingress) : list string := map i_name l.
Definition mem (n : string) (l : list string) : bool := existsb (String.eqb n) l.

(* ingMap := dirty ingresses (those linked by the tracker to a changed name: at least
   the changed ingresses that were converted before) minus IngressesDel plus
   IngressesAdd. A dirty ingress is re-read through GetIngress; an added one is taken
   from the event unless the same batch also removes or updates it, in which case it is
   re-read too (the lists do not tell the order of the events); an updated one is always
   re-read, tracked or not, removed in the same batch or not.
   [view] is the list of names whose conversion is in the model. *)
Definition converted_after (c : cfg) (cls : classes) (objs : list ingress) (b : batch)
    (view : list string) (n : string) : bool :=
  if mem n (names (b_add b)) then
    if mem n (names (b_del b)) || mem n (names (b_upd b))
    then is_some (get_ingress c cls objs n)
    else true
  else if mem n (names (b_upd b)) then is_some (get_ingress c cls objs n)
  else if mem n (names (b_del b)) then false
  else if mem n (b_links b) && mem n view then is_some (get_ingress c cls objs n)
  else mem n view.

Definition dedup_names (l : list string) : list string :=
  fold_left append_dedup l [].

Definition apply_batch (c : cfg) (cls : classes) (objs : list ingress) (b : batch)
    (view : list string) : list string :=
  filter (converted_after c cls objs b view) (dedup_names (view ++ names (b_add b))).

Record wstate := {
  w_objs : list ingress;
  w_batch : batch;
  w_view : list string;
  w_rv : N;
  (* observations: one entry per OSwap = the batch handed over and the view after it *)
  w_obs : list (batch * list string) }.

Definition wstate0 : wstate :=
  {| w_objs := []; w_batch := batch0; w_view := []; w_rv := 1; w_obs := [] |}.

Definition step (c : cfg) (cls : classes) (s : wstate) (o : op) : wstate :=
  match o with
  | OPut i =>
      let '(e, objs') := store_put (w_objs s) (w_rv s) i in
      {| w_objs := objs'; w_batch := handle c cls (w_batch s) e; w_view := w_view s;
         w_rv := (w_rv s + 1)%N; w_obs := w_obs s |}
  | ODelete n =>
      match find_ingress (w_objs s) n with
      | None => s
      | Some old =>
          {| w_objs := remove_ingress (w_objs s) n;
             w_batch := handle c cls (w_batch s) (WDelete old); w_view := w_view s;
             w_rv := w_rv s; w_obs := w_obs s |}
      end
  | OSwap =>
      let v := apply_batch c cls (w_objs s) (w_batch s) (w_view s) in
      {| w_objs := w_objs s; w_batch := batch0; w_view := v; w_rv := w_rv s;
         w_obs := w_obs s ++ [(w_batch s, v)] |}
  end.

Definition run (c : cfg) (cls : classes) (ops : list op) : wstate :=
  fold_left (step c cls) ops wstate0.

(* the name an operation touches *)
Definition op_name (o : op) : option string :=
  match o with OPut i => Some (i_name i) | ODelete n => Some n | OSwap => None end.

(* every reconciliation sees at most one operation per ingress name *)
Fixpoint touch_once_from (seen : list string) (ops : list op) : bool :=
  match ops with
  | [] => true
  | OSwap :: r => touch_once_from [] r
  | o :: r =>
      match op_name o with
      | Some n => negb (mem n seen) && touch_once_from (n :: seen) r
      | None => touch_once_from seen r
      end
  end.
Definition touch_once (ops : list op) : bool := touch_once_from [] ops.
