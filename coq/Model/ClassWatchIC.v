(* Model/ClassWatch.v extended with IngressClass events: the IngressClass handler of
   pkg/controller/reconciler/watchers.go (predicates, Links[IngressClass], notify), what
   the API server does to the generation of an IngressClass, and
   pkg/converters/ingress/ingress.go syncPartial as it is now: addIngressOfChangedClasses
   (ingresses naming a changed class are handled as added; an added ingress that names a
   changed class is re-read), the tracker link IngressClass <-> Ingress recorded by
   readIngressClass for every converted ingress, and the merge of dirty / deleted /
   updated / added ingresses. The class table is no more a parameter: it is part of the
   state and changes along the history. Definitions only (proofs in
   Proofs/ClassWatchIC.v).
   The annotation ingressclass.kubernetes.io/is-default-class is not read anywhere in
   /repo: it is part of k_meta, the metadata that neither the decision nor the
   predicates look at. *)
From Coq Require Import String List Bool NArith.
From HI Require Import Lib.XNs_Strs Model.ClassSel Model.ClassWatch.
Import ListNotations.
Open Scope string_scope.
Open Scope list_scope.

(* an IngressClass: metadata.name, spec.controller, spec.parameters (opaque), labels and
   annotations (opaque), metadata.generation *)
Record iclass := {
  k_name : string;
  k_ctrl : string;
  k_params : N;
  k_meta : N;
  k_gen : N }.

Definition to_classes (ks : list iclass) : classes := map (fun k => (k_name k, k_ctrl k)) ks.

Inductive cevent :=
| KCreate (k : iclass)
| KUpdate (old new : iclass)
| KDelete (k : iclass).

(* GenerationChangedPredicate and the IsValidIngressClass predicate, as a conjunction *)
Definition accepts_k (c : cfg) (e : cevent) : bool :=
  match e with
  | KCreate k => is_valid_class c (k_ctrl k)
  | KUpdate old new =>
      negb (N.eqb (k_gen old) (k_gen new)) &&
      (is_valid_class c (k_ctrl old) || is_valid_class c (k_ctrl new))
  | KDelete k => is_valid_class c (k_ctrl k)
  end.

Definition cev_name (e : cevent) : string :=
  match e with KCreate k => k_name k | KUpdate _ new => k_name new | KDelete k => k_name k end.

(* the batch: the Ingress part of Model/ClassWatch.v plus Links[IngressClass] *)
Record batch2 := {
  q_b : batch;
  q_cl : list string }.

Definition batch2_0 : batch2 := {| q_b := batch0; q_cl := [] |}.

Definition bump_notes (b : batch) : batch :=
  {| b_add := b_add b; b_upd := b_upd b; b_del := b_del b; b_links := b_links b; b_notes := b_notes b + 1 |}.

(* the IngressClass handler has no add/upd/del function: compose + notify only *)
Definition handle_k (c : cfg) (q : batch2) (e : cevent) : batch2 :=
  if accepts_k c e then
    {| q_b := bump_notes (q_b q); q_cl := append_dedup (q_cl q) (cev_name e) |}
  else q.

Definition handle_i (c : cfg) (cls : classes) (q : batch2) (e : wevent) : batch2 :=
  {| q_b := handle c cls (q_b q) e; q_cl := q_cl q |}.

(* ---------- the cluster side ---------- *)

Fixpoint find_iclass (ks : list iclass) (n : string) : option iclass :=
  match ks with
  | [] => None
  | k :: r => if String.eqb (k_name k) n then Some k else find_iclass r n
  end.

Fixpoint remove_iclass (ks : list iclass) (n : string) : list iclass :=
  match ks with
  | [] => []
  | k :: r => if String.eqb (k_name k) n then remove_iclass r n else k :: remove_iclass r n
  end.

Definition with_kgen (k : iclass) (g : N) : iclass :=
  {| k_name := k_name k; k_ctrl := k_ctrl k; k_params := k_params k; k_meta := k_meta k; k_gen := g |}.

Definition kspec_equal (a b : iclass) : bool :=
  String.eqb (k_ctrl a) (k_ctrl b) && N.eqb (k_params a) (k_params b).

(* the API server: generation 1 at creation, incremented exactly when the spec changes *)
Definition kstore_put (ks : list iclass) (k : iclass) : cevent * list iclass :=
  match find_iclass ks (k_name k) with
  | None => let o := with_kgen k 1 in (KCreate o, ks ++ [o])
  | Some old =>
      let g := if kspec_equal old k then k_gen old else (k_gen old + 1)%N in
      let o := with_kgen k g in
      (KUpdate old o, remove_iclass ks (k_name k) ++ [o])
  end.

(* ---------- syncPartial ---------- *)

(* hasChangedClass *)
Definition has_cc (cl : list string) (o : ingress) : bool :=
  match i_cls o with Some k => mem k cl | None => false end.

(* addIngressOfChangedClasses, first loop: an added ingress that names a changed class is
   re-read from the cache, and dropped when it is gone or not valid any more *)
Definition adds1 (c : cfg) (cls : classes) (objs : list ingress) (cl : list string)
    (adds : list ingress) : list ingress :=
  flat_map (fun o =>
    if has_cc cl o then
      match get_ingress c cls objs (i_name o) with Some cur => [cur] | None => [] end
    else [o]) adds.

(* second loop: the valid ingresses that name a changed class and were not added *)
Definition scan (c : cfg) (cls : classes) (objs : list ingress) (cl : list string)
    (added : list string) : list ingress :=
  filter (fun x => has_cc cl x && negb (mem (i_name x) added)) (get_ingress_list c cls objs).

Definition adds2 (c : cfg) (cls : classes) (objs : list ingress) (q : batch2) : list ingress :=
  let a1 := adds1 c cls objs (q_cl q) (b_add (q_b q)) in
  a1 ++ scan c cls objs (q_cl q) (names a1).

(* the last object with that name: ingMap[name] = ing overwrites *)
Fixpoint last_named (l : list ingress) (n : string) : option ingress :=
  match l with
  | [] => None
  | o :: r =>
      match last_named r n with
      | Some x => Some x
      | None => if String.eqb (i_name o) n then Some o else None
      end
  end.

(* the converted ingresses: name -> ingressClassName of the version that was converted
   (readIngressClass links the IngressClass of that name to the ingress) *)
Definition view2 := list (string * option string).

Fixpoint lookup (v : view2) (n : string) : option (option string) :=
  match v with
  | [] => None
  | (m, k) :: r => if String.eqb m n then Some k else lookup r n
  end.

Definition opt_mem (k : option string) (l : list string) : bool :=
  match k with Some x => mem x l | None => false end.

(* what syncPartial does about the ingress named n: None = it is not (or no more)
   converted, Some k = it is converted from a version whose ingressClassName is k.
   [extra] = converted ingresses that are dirty only because they share a host or a
   backend with a changed one (tracker closure): they are re-read too. *)
Definition decide (c : cfg) (cls : classes) (objs : list ingress) (q : batch2)
    (view : view2) (extra : list string) (n : string) : option (option string) :=
  let reread := match get_ingress c cls objs n with Some x => Some (i_cls x) | None => None end in
  let a2 := adds2 c cls objs q in
  let b := q_b q in
  match last_named a2 n with
  | Some o =>
      if mem n (names (b_del b)) || mem n (names (b_upd b)) then reread else Some (i_cls o)
  | None =>
      if mem n (names (b_upd b)) then reread
      else if mem n (names (b_del b)) then None
      else
        match lookup view n with
        | Some sc =>
            (* dirty: changed itself, or linked to a changed IngressClass, or by closure
               (the names scan adds to Links are in adds2, handled above) *)
            if mem n (b_links b) || opt_mem sc (q_cl q) || mem n extra
            then reread else Some sc
        | None => None
        end
  end.

Definition apply_batch2 (c : cfg) (cls : classes) (objs : list ingress) (q : batch2)
    (view : view2) (extra : list string) : view2 :=
  let cands := dedup_names (map fst view ++ names (adds2 c cls objs q) ++ names (b_upd (q_b q))) in
  flat_map (fun n => match decide c cls objs q view extra n with Some k => [(n, k)] | None => [] end) cands.

(* ---------- histories ---------- *)

Inductive op2 :=
| IPut (i : ingress)
| IDelete (n : string)
| KPut (k : iclass)          (* create, or update when the name exists *)
| KDel (n : string)
| ISwap (extra : list string).

Record state2 := {
  s_objs : list ingress;
  s_ks : list iclass;
  s_batch : batch2;
  s_view : view2;
  s_rv : N;
  (* observations, one per ISwap: the batch handed over, the converted ingresses, and those
     of them that the tracker links to an IngressClass name (readIngressClass links every
     converted ingress that has an ingressClassName, whatever the kind of ingress) *)
  s_obs : list (batch2 * list string * list string) }.

Definition linked_names (v : view2) : list string :=
  flat_map (fun p => match snd p with Some _ => [fst p] | None => [] end) v.

Definition state2_0 (ks : list iclass) : state2 :=
  {| s_objs := []; s_ks := ks; s_batch := batch2_0; s_view := []; s_rv := 1; s_obs := [] |}.

Definition step2 (c : cfg) (s : state2) (o : op2) : state2 :=
  let cls := to_classes (s_ks s) in
  match o with
  | IPut i =>
      let '(e, objs') := store_put (s_objs s) (s_rv s) i in
      {| s_objs := objs'; s_ks := s_ks s; s_batch := handle_i c cls (s_batch s) e;
         s_view := s_view s; s_rv := (s_rv s + 1)%N; s_obs := s_obs s |}
  | IDelete n =>
      match find_ingress (s_objs s) n with
      | None => s
      | Some old =>
          {| s_objs := remove_ingress (s_objs s) n; s_ks := s_ks s;
             s_batch := handle_i c cls (s_batch s) (WDelete old);
             s_view := s_view s; s_rv := s_rv s; s_obs := s_obs s |}
      end
  | KPut k =>
      let '(e, ks') := kstore_put (s_ks s) k in
      {| s_objs := s_objs s; s_ks := ks'; s_batch := handle_k c (s_batch s) e;
         s_view := s_view s; s_rv := s_rv s; s_obs := s_obs s |}
  | KDel n =>
      match find_iclass (s_ks s) n with
      | None => s
      | Some old =>
          {| s_objs := s_objs s; s_ks := remove_iclass (s_ks s) n;
             s_batch := handle_k c (s_batch s) (KDelete old);
             s_view := s_view s; s_rv := s_rv s; s_obs := s_obs s |}
      end
  | ISwap extra =>
      let v := apply_batch2 c cls (s_objs s) (s_batch s) (s_view s) extra in
      {| s_objs := s_objs s; s_ks := s_ks s; s_batch := batch2_0; s_view := v;
         s_rv := s_rv s; s_obs := s_obs s ++ [(s_batch s, map fst v, linked_names v)] |}
  end.

(* the history starts from the IngressClass objects [ks0] that exist when the
   controller starts (their names are unique) and no ingress *)
Definition run2 (c : cfg) (ks0 : list iclass) (ops : list op2) : state2 :=
  fold_left (step2 c) ops (state2_0 ks0).
