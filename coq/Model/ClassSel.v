(* Model of the class selection of pkg/controller/services/cache.go:
   IsValidIngress, IsValidIngressClass, GetIngressClass, GetIngress, GetIngressList
   (the legacy copy pkg/controller/legacy/cache.go has the same decision; its
   GetIngressClass returns nil for a missing class instead of a zero value, see
   [get_class_controller_legacy]).
   Three layers, all definitions only (proofs in Proofs/ClassSel.v):
   1. string level, as coded: strings are compared by equality;
   2. the abstraction of an input into the classes the code distinguishes
      (annotation absent/ours/foreign; ingressClassName absent/ours/foreign/dangling)
      and the decision over those 3 x 4 x 2 x 2 rows;
   3. the declarative rule [selected], written from
      docs/content/en/docs/configuration/keys.md "Class matter",
      command-line.md "Ingress Class" and the text of property C08. *)
From Coq Require Import String List Bool NArith.
From HI Require Import Lib.XNs_Strs.
Import ListNotations.
Open Scope string_scope.
Open Scope list_scope.

(* --ingress-class, controller name ("haproxy-ingress.github.io/controller" + optional
   "/" + --controller-class), --watch-ingress-without-class, --ingress-class-precedence *)
Record cfg := {
  c_class : string;
  c_controller : string;
  c_watch : bool;
  c_prec : bool }.

(* What the decision and the watchers read of an Ingress:
   name = "namespace/name"; the kubernetes.io/ingress.class annotation (None = the key
   is absent; Some "" = present and empty); spec.ingressClassName (nil pointer = None);
   the other annotations, the rest of the spec and metadata.generation as opaque
   numbers; i_rv identifies one version of the object (resourceVersion). *)
Record ingress := {
  i_name : string;
  i_ann : option string;
  i_cls : option string;
  i_oann : N;
  i_spec : N;
  i_gen : N;
  i_rv : N }.

(* the IngressClass objects of the cluster: metadata.name, spec.controller *)
Definition classes := list (string * string).

Fixpoint find_class (cls : classes) (n : string) : option string :=
  match cls with
  | [] => None
  | (m, ctrl) :: r => if String.eqb m n then Some ctrl else find_class r n
  end.

(* c.GetIngressClass(className) goes through cache.SplitMetaNamespaceKey and
   client.Get; it always returns a non-nil pointer: the zero IngressClass (controller
   "") when the key is malformed or nothing is found. IngressClass is cluster scoped:
   a key with a namespace part finds nothing. The result below is Spec.Controller of
   the returned object. *)
Definition get_class_controller (cls : classes) (key : string) : string :=
  match split_key key with
  | Some (ns, n) =>
      if String.eqb ns "" then
        match find_class cls n with Some ctrl => ctrl | None => "" end
      else ""
  | None => ""
  end.

(* IsValidIngressClass *)
Definition is_valid_class (c : cfg) (ctrl : string) : bool := String.eqb ctrl (c_controller c).

Definition is_some {A} (o : option A) : bool := match o with Some _ => true | None => false end.

(* IsValidIngress, statement by statement *)
Definition is_valid (c : cfg) (cls : classes) (ing : ingress) : bool :=
  let hasAnn := is_some (i_ann ing) in
  let annEq := match i_ann ing with Some a => String.eqb a (c_class c) | None => false end in
  let fromAnn := if c_watch c then negb hasAnn || annEq else hasAnn && annEq in
  let hasClass := is_some (i_cls ing) in
  let fromClass :=
    match i_cls ing with
    | Some k => is_valid_class c (get_class_controller cls k)
    | None => false
    end in
  if hasAnn then
    if hasClass && negb (Bool.eqb fromAnn fromClass) then
      if c_prec c then fromClass else fromAnn
    else fromAnn
  else if hasClass then fromClass
  else fromAnn.

(* the legacy lister returns (nil, NotFound): fromClass stays false *)
Definition is_valid_legacy (c : cfg) (cls : classes) (ing : ingress) : bool :=
  let hasAnn := is_some (i_ann ing) in
  let annEq := match i_ann ing with Some a => String.eqb a (c_class c) | None => false end in
  let fromAnn := if c_watch c then negb hasAnn || annEq else hasAnn && annEq in
  let hasClass := is_some (i_cls ing) in
  let fromClass :=
    match i_cls ing with
    | Some k => match find_class cls k with
                | Some ctrl => is_valid_class c ctrl
                | None => false
                end
    | None => false
    end in
  if hasAnn then
    if hasClass && negb (Bool.eqb fromAnn fromClass) then
      if c_prec c then fromClass else fromAnn
    else fromAnn
  else if hasClass then fromClass
  else fromAnn.

(* GetIngress(name): client.Get, then the class filter (true = returned without error) *)
Fixpoint find_ingress (ings : list ingress) (n : string) : option ingress :=
  match ings with
  | [] => None
  | i :: r => if String.eqb (i_name i) n then Some i else find_ingress r n
  end.

Definition get_ingress (c : cfg) (cls : classes) (ings : list ingress) (n : string) : option ingress :=
  match find_ingress ings n with
  | Some i => if is_valid c cls i then Some i else None
  | None => None
  end.

(* GetIngressList: client.List order is a parameter (the list), the filter keeps it *)
Definition get_ingress_list (c : cfg) (cls : classes) (ings : list ingress) : list ingress :=
  filter (is_valid c cls) ings.

(* a full synchronisation, reduced to what C08 says about it: whatever one Ingress
   contributes (hosts, paths, backends, certificates, TCP ports) is a function of that
   Ingress and of the rest of the cluster [env]; only listed ingresses are converted *)
Definition sync_full {item env} (contrib : env -> ingress -> list item) (e : env)
    (c : cfg) (cls : classes) (ings : list ingress) : list item :=
  flat_map (contrib e) (get_ingress_list c cls ings).

(* ---------- abstraction ---------- *)

Inductive ann_kind := AnnAbsent | AnnOurs | AnnForeign.
Inductive cls_kind := ClsAbsent | ClsOurs | ClsForeign | ClsDangling.

Definition abs_ann (c : cfg) (ing : ingress) : ann_kind :=
  match i_ann ing with
  | None => AnnAbsent
  | Some a => if String.eqb a (c_class c) then AnnOurs else AnnForeign
  end.

(* for an ingressClassName without '/': the class it names, if any *)
Definition abs_cls (c : cfg) (cls : classes) (ing : ingress) : cls_kind :=
  match i_cls ing with
  | None => ClsAbsent
  | Some k =>
      match find_class cls k with
      | None => ClsDangling
      | Some ctrl => if String.eqb ctrl (c_controller c) then ClsOurs else ClsForeign
      end
  end.

(* the code's decision over the abstract rows (same statements as is_valid) *)
Definition is_valid_abs (a : ann_kind) (k : cls_kind) (watch prec : bool) : bool :=
  let hasAnn := match a with AnnAbsent => false | _ => true end in
  let annEq := match a with AnnOurs => true | _ => false end in
  let fromAnn := if watch then negb hasAnn || annEq else hasAnn && annEq in
  let hasClass := match k with ClsAbsent => false | _ => true end in
  let fromClass := match k with ClsOurs => true | _ => false end in
  if hasAnn then
    if hasClass && negb (Bool.eqb fromAnn fromClass) then
      if prec then fromClass else fromAnn
    else fromAnn
  else if hasClass then fromClass
  else fromAnn.

(* ---------- the documented rule ---------- *)

(* "Ingress resources have the annotation kubernetes.io/ingress.class with the value
    <--ingress-class>" *)
Definition ann_selects (c : cfg) (ing : ingress) : Prop := i_ann ing = Some (c_class c).

(* "its ingressClassName field assigning an IngressClass resource whose controller name
    is <this controller>" *)
Definition class_selects (c : cfg) (cls : classes) (ing : ingress) : Prop :=
  exists k, i_cls ing = Some k /\ In (k, c_controller c) cls.

(* "does not have the annotation and also does not have the ingressClassName field" *)
Definition unclassified (ing : ingress) : Prop := i_ann ing = None /\ i_cls ing = None.

(* C08: selected iff the annotation equals the controller's class, or ingressClassName
   names an IngressClass of this controller, or it is unclassified and
   --watch-ingress-without-class is set; when both are present and they disagree the
   annotation wins unless --ingress-class-precedence is set. *)
Definition selected (c : cfg) (cls : classes) (ing : ingress) : Prop :=
  match i_ann ing, i_cls ing with
  | None, None => c_watch c = true
  | Some _, None => ann_selects c ing
  | None, Some _ => class_selects c cls ing
  | Some _, Some _ =>
      (ann_selects c ing /\ class_selects c cls ing) \/
      (~ (ann_selects c ing <-> class_selects c cls ing) /\
       if c_prec c then class_selects c cls ing else ann_selects c ing)
  end.

(* the same rule over the abstract rows, as a table *)
Definition selected_abs (a : ann_kind) (k : cls_kind) (watch prec : bool) : bool :=
  match a, k with
  | AnnAbsent, ClsAbsent => watch
  | AnnOurs, ClsAbsent => true
  | AnnForeign, ClsAbsent => false
  | AnnAbsent, ClsOurs => true
  | AnnAbsent, _ => false
  | AnnOurs, ClsOurs => true
  | AnnForeign, ClsOurs => prec
  | AnnOurs, _ => negb prec
  | AnnForeign, _ => false
  end.

Definition all_ann : list ann_kind := [AnnAbsent; AnnOurs; AnnForeign].
Definition all_cls : list cls_kind := [ClsAbsent; ClsOurs; ClsForeign; ClsDangling].
Definition all_bool : list bool := [false; true].

Definition all_rows : list (ann_kind * cls_kind * bool * bool) :=
  flat_map (fun a => flat_map (fun k => flat_map (fun w => map (fun p => (a, k, w, p)) all_bool) all_bool) all_cls) all_ann.

Definition row_ok (r : ann_kind * cls_kind * bool * bool) : bool :=
  match r with (a, k, w, p) => Bool.eqb (is_valid_abs a k w p) (selected_abs a k w p) end.
