(* C15 with the cross-namespace permission: the secret a tls entry names is read through
   cache.GetTLSSecretPath(ingress namespace, secretName), i.e. getContentProtocol +
   buildResourceName with the CrossNamespaceSecretCertificate bit of the dynamic
   configuration (global keys cross-namespace-secrets-crt, --allow-cross-namespace).
   The definitions of these are those of Model/XNs.v (property C09), not restated.

   Model/Conv.v reads a secret under the key  <ingress namespace>/<secretName as written>.
   `xworld d w` is the cluster as that converter sees it under configuration d: its secret
   table answers, for the key of every tls entry, with the content of the secret the entry
   resolves to -- when the reference is well formed, of protocol `secret`, and readable
   from the namespace of the ingress (same namespace, or the crt bit allows). *)
From Coq Require Import List Bool String Ascii ZArith.
From HI Require Import Model.Tracker Model.Conv Model.CrtList.
From HI Require Model.XNs.
Import ListNotations.
Open Scope string_scope.

(* the secret ns/name a reference written in an ingress of namespace ns resolves to;
   None = malformed, another protocol (file://: not modelled), or forbidden *)
Definition xresolve (d : XNs.dyn) (ns secret : string) : option string :=
  let (proto, content) := XNs.content_protocol secret in
  if String.eqb proto "secret"
  then match XNs.build_resource_name ns content (XNs.d_crt d) with
       | inl (n1, n2) => Some (n1 ++ "/" ++ n2)
       | inr _ => None
       end
  else None.

(* the certificate of a tls entry: the content of the secret it names if it is readable
   from the namespace of the ingress, present and valid; else the default certificate *)
Definition cert_x (d : XNs.dyn) (w : world) (ns secret : string) : string :=
  if String.eqb secret "" then default_crt
  else match xresolve d ns secret with
       | Some k => match assoc k (w_secrets w) with Some c => c | None => default_crt end
       | None => default_crt
       end.

Definition xentry (d : XNs.dyn) (w : world) (i : ingress) (blk : list string * string)
  : list (string * string) :=
  if String.eqb (snd blk) "" then []
  else match xresolve d (i_ns i) (snd blk) with
       | Some k => match assoc k (w_secrets w) with
                   | Some c => [(i_ns i ++ "/" ++ snd blk, c)]
                   | None => []
                   end
       | None => []
       end.

Definition xsecrets (d : XNs.dyn) (w : world) : list (string * string) :=
  flat_map (fun i => flat_map (xentry d w i) (i_tls i)) (w_ings w).

Definition xworld (d : XNs.dyn) (w : world) : world :=
  {| w_ings := w_ings w; w_svcs := w_svcs w; w_eps := w_eps w; w_secrets := xsecrets d w |}.

Definition served_x (d : XNs.dyn) (w : world) (name : string) : string :=
  served (xworld d w) name.

(* the batch of a partial sync as the converter model sees it: the real tracker links an
   ingress to the secret its reference resolves to; the model links it to the key it reads *)
Definition xlinks (d : XNs.dyn) (w : world) (k : string) : list node :=
  flat_map (fun i => flat_map (fun blk : list string * string =>
      match xresolve d (i_ns i) (snd blk) with
      | Some k' => if String.eqb k k' then [(KSecret, i_ns i ++ "/" ++ snd blk)] else []
      | None => []
      end) (i_tls i)) (w_ings w).

Definition xbatch (d : XNs.dyn) (w : world) (b : batch) : batch :=
  {| b_links := b_links b ++ flat_map (fun n : node =>
                  match fst n with KSecret => xlinks d w (snd n) | _ => [] end) (b_links b);
     b_add := b_add b; b_upd := b_upd b; b_del := b_del b |}.

(* namespaces are DNS labels: no "/" *)
Definition ns_ok (w : world) : Prop :=
  forall i, In i (w_ings w) -> XNs_Strs.contains_char XNs_Strs.slash (i_ns i) = false.
