(* Mini-converter with spec.defaultBackend: Model/Conv.v plus the default backend of an
   Ingress, as pkg/converters/ingress/ingress.go has it today (syncIngressHTTP ->
   addDefaultHostBackend, trackAddedIngress, syncPartial).

   An ingress may name a default backend (service, port).  syncIngressHTTP handles it
   before the rules: addDefaultHostBackend
     - if the default host exists and has the path "/" (match begin) already: tracks
       Ingress - default host (so that the ingress is parsed again when the owner goes,
       hunk of commit a55b280) and skips ("path / was already defined on default host");
     - else addBackend with the path link of the default host (tracks Service - default
       host, Endpoints - default host, then on success Ingress - Backend): on failure tracks
       Ingress - Service and skips; on success addHost(default host) (tracks Ingress -
       default host) and adds the path "/" begin.
   The first ingress in sortIngress order wins the root path of the default host.
   trackAddedIngress pre-tracks the BACKEND of the default backend of an added / updated
   ingress, not the default host: known finding C01/ingress-default-backend-not-pretracked;
   the model follows the code.

   Everything else is Model/Conv.v: the state, add_backend, the rules and tls blocks
   (sync_ingress), the tracker, merge_names, the observation obs_host.  Not modelled (as in
   Conv.v): --default-backend-service, annotations, TCP services.  The IngressClass link of
   an ingress without rules (commit 5ff6d91) is tracked here when it has a default backend. *)
From Coq Require Import List Bool String ZArith Ascii.
From HI Require Import Model.Tracker Model.Conv.
Import ListNotations.
Open Scope string_scope.

Record dingress := {
  d_ing : ingress;
  d_db : option (string * string)        (* spec.defaultBackend: service name, port (name or number) *)
}.

Record dworld := {
  dw_ings : list dingress;
  dw_svcs : list service;
  dw_eps : list (string * list subset);
  dw_secrets : list (string * string)
}.

(* the cluster as Conv.v's functions read it (they only read services, endpoints, secrets) *)
Definition base (w : dworld) : world :=
  {| w_ings := map d_ing (dw_ings w); w_svcs := dw_svcs w; w_eps := dw_eps w; w_secrets := dw_secrets w |}.

Definition root_rule (svc port : string) : prule :=
  {| r_path := "/"; r_type := Begin; r_svc := svc; r_port := port |}.

Definition class_track (i : ingress) (x : st) : st :=
  match i_class i with
  | Some c => (fst x, track (snd x) (KClass, c) (KIngress, i_full i))
  | None => x
  end.

(* addDefaultHostBackend *)
Definition sync_db (w : world) (i : ingress) (svc port : string) (x : st) : st :=
  let skip := match get_host (fst x) default_host with
              | Some hr => has_path hr "/" Begin
              | None => false
              end in
  if skip then (fst x, track (snd x) (KIngress, i_full i) (KHost, default_host))
  else
    let '(x1, ob) := add_backend w i default_host (root_rule svc port) x in
    match ob with
    | None => (fst x1, track (snd x1) (KIngress, i_full i) (KService, i_ns i ++ "/" ++ svc))
    | Some bid =>
        let '(s2, T2) := add_host i default_host x1 in
        match get_host s2 default_host with
        | None => (s2, T2)
        | Some hr =>
            (upd s2 (THost default_host)
                 (CHost {| h_paths := h_paths hr ++ [{| hp_path := "/"; hp_type := Begin; hp_back := bid |}];
                           h_tls := h_tls hr |}), T2)
        end
    end.

(* syncIngress (HTTP): the default backend first, then the rules and the tls blocks *)
Definition sync_dingress (w : world) (x : st) (d : dingress) : st :=
  let i := d_ing d in
  let x0 := match d_db d with
            | None => x
            | Some (svc, port) => sync_db w i svc port (class_track i x)
            end in
  sync_ingress w x0 i.

(* sortIngress *)
Fixpoint dinsert (d : dingress) (l : list dingress) : list dingress :=
  match l with
  | [] => [d]
  | e :: r => if ing_ltb (d_ing e) (d_ing d) then e :: dinsert d r else d :: l
  end.
Definition dsort (l : list dingress) : list dingress := fold_right dinsert [] l.

Definition sync_full_d (w : dworld) : st :=
  fold_left (sync_dingress (base w)) (dsort (dw_ings w)) (empty_state, []).

(* ---------- partial sync ---------- *)
Record dbatch := {
  db_links : list node;
  db_add : list dingress;
  db_upd : list dingress;
  db_del : list string
}.

Definition base_batch (b : dbatch) : batch :=
  {| b_links := db_links b; b_add := map d_ing (db_add b); b_upd := map d_ing (db_upd b); b_del := db_del b |}.

(* trackAddedIngress: the backend of spec.defaultBackend when it exists, then Conv.v's part *)
Definition track_added_d (w : world) (s : cstate) (T : ctracker) (d : dingress) : ctracker :=
  let i := d_ing d in
  let T0 := match d_db d with
            | None => T
            | Some (svc, port) =>
                match find_backend w s i (root_rule svc port) with
                | Some bid => track T (KIngress, i_full i) (KBackend, bid)
                | None => T
                end
            end in
  track_added_ing w s T0 i.

Definition find_d (w : dworld) (full : string) : option dingress :=
  find (fun d => String.eqb (i_full (d_ing d)) full) (dw_ings w).

Definition pick_d (w : dworld) (b : dbatch) (name : string) : option dingress :=
  if existsb (String.eqb name) (db_del b) || existsb (fun d => String.eqb (i_full (d_ing d)) name) (db_upd b)
  then find_d w name
  else
    match find (fun d => String.eqb (i_full (d_ing d)) name) (rev (db_add b)) with
    | Some d => Some d
    | None => find_d w name
    end.

Definition sync_partial_d (w' : dworld) (x : st) (b : dbatch) : option st :=
  let '(s, T) := x in
  let T1 := fold_left (track_added_d (base w') s) (db_add b ++ db_upd b) T in
  match query_remove node_eqb T1 (db_links b) with
  | None => None
  | Some (out, T2) =>
      let s1 := remove_all s out in
      let names := merge_names (names_of KIngress out) (base_batch b) in
      let ings := dsort (flat_map (fun n => opt_list (pick_d w' b n)) names) in
      Some (fold_left (sync_dingress (base w')) ings (s1, T2))
  end.
