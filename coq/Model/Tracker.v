(* Model of pkg/converters/tracker/tracker.go.
   The tracker is a symmetric relation between resource references (context, name).
   The Go maps are modelled by a list of directed pairs; TrackRefs adds both
   directions. QueryLinks is the recursive walk of the code: a node is put in the
   output the first time it is met as somebody's neighbour and is then expanded;
   the input names themselves are only in the output when they are reached.
   Go map iteration order does not matter: the output lists are sorted by the code. *)
From Coq Require Import List Bool.
Import ListNotations.

Section Tracker.
  Variable node : Type.
  Variable eqb : node -> node -> bool.

  Definition tracker := list (node * node).

  Definition mem (n : node) (l : list node) : bool := existsb (eqb n) l.

  (* TrackRefs(left, right): track(left <- right); track(right <- left) *)
  Definition track (T : tracker) (a b : node) : tracker := (a, b) :: (b, a) :: T.

  Definition neighbors (T : tracker) (n : node) : list node :=
    map snd (filter (fun e => eqb (fst e) n) T).

  (* nodes of l not yet in acc, each once, in order *)
  Fixpoint fresh (l acc : list node) : list node :=
    match l with
    | [] => []
    | m :: r => if mem m acc then fresh r acc else m :: fresh r (acc ++ [m])
    end.

  (* updateOutput: stack = nodes still to expand, out = outputrefs *)
  Fixpoint walk (fuel : nat) (T : tracker) (stack out : list node) : option (list node) :=
    match stack with
    | [] => Some out
    | n :: rest =>
        match fuel with
        | O => None
        | S f =>
            let new := fresh (neighbors T n) out in
            walk f T (new ++ rest) (out ++ new)
        end
    end.

  Definition nodes_of (T : tracker) : list node := map fst T.

  (* enough fuel for any walk: every node is expanded at most once after it entered the
     output, and every input once *)
  Definition fuel_for (T : tracker) (input : list node) : nat := length input + length T + 1.

  Definition query_links (T : tracker) (input : list node) : option (list node) :=
    walk (fuel_for T input) T input [].

  (* removeRef on every returned id: every pair with an end in the output goes away *)
  Definition remove_refs (T : tracker) (out : list node) : tracker :=
    filter (fun e => negb (mem (fst e) out || mem (snd e) out)) T.

  Definition query_remove (T : tracker) (input : list node) : option (list node * tracker) :=
    match query_links T input with
    | Some out => Some (out, remove_refs T out)
    | None => None
    end.
End Tracker.

Arguments mem {node} eqb n l.
Arguments track {node} T a b.
Arguments neighbors {node} eqb T n.
Arguments fresh {node} eqb l acc.
Arguments walk {node} eqb fuel T stack out.
Arguments fuel_for {node} T input.
Arguments query_links {node} eqb T input.
Arguments remove_refs {node} eqb T out.
Arguments query_remove {node} eqb T input.
