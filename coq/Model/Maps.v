(* C04 — model of pkg/haproxy/types/maps.go: addTarget, buildMapKey and
   rebuildMatchFiles (after the two `fix:` commits: case-insensitive overlap detection
   and the _upper mark that only moves forward). Definitions only.

   What is a parameter, not computed:
   - the order in which the hosts of `rawhosts` are visited (`hostorder`): Go map order
     until /repo 5f31221, sorted since (`rebuild_current`); the theorems cover every order;
   - sort.Slice is modelled as the insertion sort Go uses for slices of at most 12
     elements (`gosort`); for longer slices Go's pdqsort may order elements that
     compare equal differently, which is why the general theorem in Proofs/Maps.v is
     stated for every sorted arrangement (`rebuild_with`) and not only for `gosort`.
   Out of the model: header filters (`listWithFilters`), regex keys, wildcard hosts;
   strings.ToLower is ASCII lower-casing (paths and hosts are ASCII).
   container/list elements are indices into an append-only list of priority files:
   the code only ever calls PushBack on `order` before the default files are added. *)
From Coq Require Import Ascii String.
From Coq Require Import List Bool Arith NArith.
From HI Require Export Model.HAMatch.
Import ListNotations.

Record entry := {
  ehost : str; epath : str; etype : mtype; eorder : N; ekey : str; evalue : str }.

(* buildMapKey, non-regex part *)
Definition build_map_key (h p : str) : str :=
  if nonempty h && nonempty p then h ++ c_hash :: p else h ++ p.

(* addTarget: one call of AddHostnamePathMapping for a plain host name *)
Definition add_target (host path : str) (t : mtype) (order : N) (target : str) : entry :=
  let h := lower host in
  let p := match t with Begin => lower path | _ => path end in
  {| ehost := h; epath := p; etype := t; eorder := order; ekey := build_map_key h p; evalue := target |}.

(* ---------- sort.Slice on short slices: insertion sort *)
Section Sort.
  Context {A : Type} (less : A -> A -> bool).
  (* racc is the sorted prefix, reversed: x moves left while less(x, left neighbour) *)
  Fixpoint ins_rev (x : A) (racc : list A) : list A :=
    match racc with
    | [] => [x]
    | y :: r => if less x y then y :: ins_rev x r else x :: racc
    end.
  Definition gosort (l : list A) : list A := rev (fold_left (fun racc x => ins_rev x racc) l []).
End Sort.

(* comparator of the per-host sort in rebuildMatchFiles (no header filters) *)
Definition host_less (e1 e2 : entry) : bool :=
  let p1 := lower (epath e1) in let p2 := lower (epath e2) in
  if str_eqb p1 p2 then str_ltb (epath e2) (epath e1) else str_ltb p2 p1.

(* overlaps() *)
Definition overlaps (e1 e2 : entry) : bool :=
  negb (mtype_eqb (etype e1) (etype e2)) &&
  negb (str_eqb (epath e1) (epath e2)) &&
  negb (mtype_eqb (etype e1) Exact) && negb (mtype_eqb (etype e2) Exact) &&
  negb (mtype_eqb (etype e1) Regex) && negb (mtype_eqb (etype e2) Regex) &&
  is_prefix (lower (epath e2)) (lower (epath e1)).

(* ---------- the list `order` of priority files *)
Definition pfile := (mtype * list entry)%type.

(* findMatchFile: first file at or after `from` with the wanted match type *)
Fixpoint find_file (t : mtype) (files : list pfile) (i from : nat) : option nat :=
  match files with
  | [] => None
  | f :: fs => if (from <=? i) && mtype_eqb (fst f) t then Some i else find_file t fs (S i) from
  end.

Fixpoint add_at (i : nat) (e : entry) (files : list pfile) : list pfile :=
  match files, i with
  | [], _ => []
  | f :: fs, 0 => (fst f, snd f ++ [e]) :: fs
  | f :: fs, S j => f :: add_at j e fs
  end.

(* findOrCreateMatchFile(order, e) with e._upper = u; returns the element (index) *)
Definition place (files : list pfile) (u : option nat) (e : entry) : list pfile * nat :=
  match find_file (etype e) files 0 (match u with Some j => j | None => 0 end) with
  | Some i => (add_at i e files, i)
  | None => (files ++ [(etype e, [e])], length files)
  end.

(* value of e2._upper when e2's turn comes: the entries placed so far (most recent
   first, with their element) that overlap e2 each did
     if e2._upper == nil || isAfter(el1, e2._upper) { e2._upper = el1 } *)
Fixpoint upper_of (placed : list (entry * nat)) (e2 : entry) : option nat :=
  match placed with
  | [] => None
  | (e1, i) :: earlier =>
      let u := upper_of earlier e2 in
      if overlaps e1 e2 then
        match u with None => Some i | Some j => if j <? i then Some i else Some j end
      else u
  end.

(* the double loop over one host's sorted entries: e is moved to a priority file when
   it overlaps some later entry *)
Fixpoint proc_host (files : list pfile) (placed : list (entry * nat)) (l : list entry)
  : list pfile * list (entry * nat) :=
  match l with
  | [] => (files, placed)
  | e :: rest =>
      if existsb (overlaps e) rest then
        let fi := place files (upper_of placed e) e in
        proc_host (fst fi) ((e, snd fi) :: placed) rest
      else proc_host files placed rest
  end.

Fixpoint proc_hosts (files : list pfile) (moved : list entry) (hls : list (list entry))
  : list pfile * list entry :=
  match hls with
  | [] => (files, moved)
  | l :: rest =>
      let r := proc_host files [] l in
      proc_hosts (fst r) (moved ++ map fst (snd r)) rest
  end.

Definition entry_eqb (a b : entry) : bool :=
  str_eqb (ehost a) (ehost b) && str_eqb (epath a) (epath b) && mtype_eqb (etype a) (etype b) &&
  N.eqb (eorder a) (eorder b) && str_eqb (ekey a) (ekey b) && str_eqb (evalue a) (evalue b).

(* e._elem != nil *)
Definition is_moved (moved : list entry) (e : entry) : bool := existsb (entry_eqb e) moved.

(* the loop over matchOrder: shrink() keeps the entries that were not moved; the exact
   file is pushed to the front, the others to the back *)
Definition default_files (mo : list mtype) (entries moved : list entry) (prio : list pfile) : list pfile :=
  fold_left (fun acc t =>
    match filter (fun e => mtype_eqb (etype e) t && negb (is_moved moved e)) entries with
    | [] => acc
    | es => if mtype_eqb t Exact then (t, es) :: acc else acc ++ [(t, es)]
    end) mo prio.

(* hostsMapMatchFile.sort() *)
Definition file_less (t : mtype) (a b : entry) : bool :=
  match t with
  | Exact =>
      if str_eqb (ekey a) (ekey b) then N.ltb (eorder a) (eorder b) else str_ltb (ekey a) (ekey b)
  | Regex =>
      if negb (length (ekey a) =? length (ekey b)) then length (ekey b) <? length (ekey a)
      else if str_eqb (ekey a) (ekey b) then N.ltb (eorder a) (eorder b) else str_ltb (ekey a) (ekey b)
  | _ =>
      if str_eqb (ehost a) (ehost b) then
        if str_eqb (epath a) (epath b) then N.ltb (eorder a) (eorder b) else str_ltb (epath b) (epath a)
      else str_ltb (ekey a) (ekey b)
  end.

Definition is_begin (t : mtype) : bool := mtype_eqb t Begin.

(* what MatchFiles() exposes of one file: Method(), Lower(), Values() as key/value *)
Definition emit_with (fsort : mtype -> list entry -> list entry) (f : pfile) : matchfile :=
  {| mmeth := meth_of (fst f); mlower := is_begin (fst f);
     mentries := map (fun e => (ekey e, evalue e)) (fsort (fst f) (snd f)) |}.

(* rebuildMatchFiles with the sorted per-host lists given (in processing order) *)
Definition rebuild_with (fsort : mtype -> list entry -> list entry)
    (mo : list mtype) (hls : list (list entry)) (entries : list entry) : list matchfile :=
  let r := proc_hosts [] [] hls in
  map (emit_with fsort) (default_files mo entries (snd r) (fst r)).

Definition host_entries (entries : list entry) (h : str) : list entry :=
  filter (fun e => str_eqb (ehost e) h) entries.

(* rebuildMatchFiles with the hosts of `rawhosts` visited in `hostorder`; entries in the
   order of the addTarget calls *)
Definition rebuild (mo : list mtype) (hostorder : list str) (entries : list entry) : list matchfile :=
  rebuild_with (fun t => gosort (file_less t)) mo
    (map (fun h => gosort host_less (host_entries entries h)) hostorder) entries.

(* Since /repo 5f31221 the keys of `rawhosts` are collected and passed to sort.Strings:
   the hosts are visited in byte-wise ascending order (before, in Go map order, which
   is why the theorems are stated for every `hostorder`). *)
Fixpoint dedup (seen : list str) (l : list str) : list str :=
  match l with
  | [] => []
  | x :: r => if existsb (str_eqb x) seen then dedup seen r else x :: dedup (x :: seen) r
  end.
Definition sorted_hosts (entries : list entry) : list str :=
  gosort str_ltb (dedup [] (map ehost entries)).

(* the model run by the correspondence check *)
Definition rebuild_current (mo : list mtype) (entries : list entry) : list matchfile :=
  rebuild mo (sorted_hosts entries) entries.

(* ---------- inputs of the theorems: one AddHostnamePathMapping call *)
Record fed := { fhost : str; fpath : str; ftyp : mtype; forder : N; ftarget : str }.

Definition add (f : fed) : entry := add_target (fhost f) (fpath f) (ftyp f) (forder f) (ftarget f).

(* the rule the call declares *)
Definition rule_of (f : fed) : rule :=
  {| rhost := fhost f; rpath := fpath f; rtype := ftyp f; rtarget := ftarget f |}.

(* guard of theorem B: the alphabet guard of the checker (wf_ruleb: host not empty and
   without '/', '?', '#'; path not empty and without '#', '?'; no regex); for Prefix
   rules at most one trailing slash (the Kubernetes API refuses "//" in Prefix paths);
   and what keeps the call inside this model of addTarget: no wildcard host ("*." hosts
   become regex keys) and ASCII bytes only (strings.ToLower is modelled on ASCII) *)
Definition one_trailing_slash (p : str) : bool := length p <=? S (length (strip_slash p)).
Definition ascii_only (s : str) : bool := forallb (fun c => N.ltb (N_of_ascii c) 128) s.
Definition wf_fed (f : fed) : bool :=
  wf_ruleb (rule_of f) &&
  (if mtype_eqb (ftyp f) Prefix then one_trailing_slash (fpath f) else true) &&
  negb (is_prefix (s2l "*.") (fhost f)) && ascii_only (fhost f) && ascii_only (fpath f).

(* path-type-order as validated by the converter: each type once *)
Definition permitted (mo : list mtype) : Prop :=
  NoDup mo /\ In Exact mo /\ In Prefix mo /\ In Begin mo /\ In Regex mo.

(* boolean form, evaluated on the order the real configuration parser handed over *)
Definition permittedb (mo : list mtype) : bool :=
  (length mo =? 4) &&
  existsb (mtype_eqb Exact) mo && existsb (mtype_eqb Prefix) mo &&
  existsb (mtype_eqb Begin) mo && existsb (mtype_eqb Regex) mo.

(* hosts visited: each host of the entries exactly once *)
Definition host_order_ok (hostorder : list str) (entries : list entry) : Prop :=
  NoDup hostorder /\ forall e, In e entries -> In (ehost e) hostorder.

(* ---------- what the sorts are only assumed to do in the general theorem *)

(* later elements never have to come before earlier ones *)
Definition sorted_by {A : Type} (less : A -> A -> bool) (l : list A) : Prop :=
  forall l1 x l2, l = l1 ++ x :: l2 -> forall y, In y l2 -> less y x = false.

(* the per-file sort, on lists of the map's entries: keeps the elements, result sorted
   for the file's comparator *)
Definition sorter_ok (fsort : mtype -> list entry -> list entry) (entries : list entry) : Prop :=
  forall t es, (forall e, In e es -> In e entries) ->
    (forall e, In e (fsort t es) <-> In e es) /\ sorted_by (file_less t) (fsort t es).

Definition disjoint_hosts (l l' : list entry) : Prop :=
  forall e e', In e l -> In e' l' -> ehost e <> ehost e'.

(* the per-host lists handed to the double loop: one list per host, holding that
   host's entries, sorted for the per-host comparator, each host once *)
Definition hls_ok (hls : list (list entry)) (entries : list entry) : Prop :=
  (forall l, In l hls -> sorted_by host_less l) /\
  (forall l e, In l hls -> In e l -> In e entries) /\
  (forall e, In e entries -> exists l, In l hls /\ In e l) /\
  (forall l e e', In l hls -> In e l -> In e' l -> ehost e = ehost e') /\
  ForallOrdPairs disjoint_hosts hls.

(* ---------- before the two repairs
   The same algorithm with the overlap test, the per-host comparator and the _upper
   update as parameters. With the code as it was (case-sensitive overlap test and
   comparator; `e2._upper = el1` unconditionally) the statement of theorem B is false:
   two witnesses, both replayed on the implementation by the harness corpus. *)
Section Before.
  Variable ovl : entry -> entry -> bool.
  Variable hless : entry -> entry -> bool.
  Variable upf : list (entry * nat) -> entry -> option nat.

  Fixpoint proc_host_g (files : list pfile) (placed : list (entry * nat)) (l : list entry)
    : list pfile * list (entry * nat) :=
    match l with
    | [] => (files, placed)
    | e :: rest =>
        if existsb (ovl e) rest then
          let fi := place files (upf placed e) e in
          proc_host_g (fst fi) ((e, snd fi) :: placed) rest
        else proc_host_g files placed rest
    end.

  Fixpoint proc_hosts_g (files : list pfile) (moved : list entry) (hls : list (list entry))
    : list pfile * list entry :=
    match hls with
    | [] => (files, moved)
    | l :: rest =>
        let r := proc_host_g files [] l in
        proc_hosts_g (fst r) (moved ++ map fst (snd r)) rest
    end.

  Definition rebuild_g (mo : list mtype) (hostorder : list str) (entries : list entry) : list matchfile :=
    let r := proc_hosts_g [] [] (map (fun h => gosort hless (host_entries entries h)) hostorder) in
    map (emit_with (fun t => gosort (file_less t))) (default_files mo entries (snd r) (fst r)).
End Before.


Definition overlaps_cs (e1 e2 : entry) : bool :=
  negb (mtype_eqb (etype e1) (etype e2)) && negb (str_eqb (epath e1) (epath e2)) &&
  negb (mtype_eqb (etype e1) Exact) && negb (mtype_eqb (etype e2) Exact) &&
  negb (mtype_eqb (etype e1) Regex) && negb (mtype_eqb (etype e2) Regex) &&
  is_prefix (epath e2) (epath e1).
Definition host_less_cs (e1 e2 : entry) : bool := str_ltb (epath e2) (epath e1).
(* e2._upper = el1: the last writer wins (placed is most recent first) *)
Fixpoint upper_last (ovl : entry -> entry -> bool) (placed : list (entry * nat)) (e2 : entry) : option nat :=
  match placed with
  | [] => None
  | (e1, i) :: earlier => if ovl e1 e2 then Some i else upper_last ovl earlier e2
  end.

Definition mkfed (h p : string) (t : mtype) (o : N) (v : string) : fed :=
  {| fhost := s2l h; fpath := s2l p; ftyp := t; forder := o; ftarget := s2l v |}.

