(* C15: the certificate list of the https bind and HAProxy's choice of a certificate.

   (1) crt_list: model of the crt-list part of pkg/haproxy/config.go WriteFrontendMaps
       (after the fix: commit "a host served with the default certificate got the
       certificate of another host ..."), over the hosts state of Model/Conv.v:
         - first line  "<default crt> !*";
         - hosts.BuildSortedItems(): every host but "<default>", sorted by name;
         - a host whose certificate file is not the default one: "<crt> <hostname>"
           (hasCustomTLS; the bind options alpn / ca-file / ciphers / ... come from
           annotations, which are outside the feature subset of Model/Conv.v);
         - a host with a tls entry (HasTLS) served with the default certificate, when the
           wildcard hostname HAProxy would match for it has its own line:
           "<default crt> <hostname>" (wildcardHasCustomTLS);
         - nothing otherwise.
       The model identifies a certificate file with the label of its content: the hash
       in h_tls, "DEFAULT" for the default certificate (the converter stores the default
       file and hash when a secret is missing, invalid or forbidden, see tls_of).  The code
       compares file names (<ns>_<name>.pem per secret), so a secret is never taken for
       the default certificate unless it is the --default-ssl-certificate itself; in the
       model no secret has the label "DEFAULT".  HasTLS = the host has a tls entry
       (ssl-always-add-https, ssl-passthrough are annotations, outside the subset).
   (2) sni_select: TRUSTED transcription of how HAProxy picks the certificate for an SNI
       name on a bind with a crt-list (ssl_sock_switchctx_cbk): the line with that exact
       filter (negative filters "!..." never select), else the line whose filter is "*"
       followed by the name from its first dot on, else the first line.  Names are
       compared as given: Kubernetes host names and the SNI as HAProxy looks it up are
       lower case.
   (3) served: what a cluster is served with = (2) on (1) on the full sync of Conv.v.
   (4) the vocabulary of the statements: tls declarations in processing order, the secret
       a declaration refers to, the winner for a name.
   (5) cert_update_dynamic: the decision of pkg/haproxy/dynupdate.go checkHostPair /
       execUpdateCert (an own small model; Model/Dyn.v belongs to C02).
   (6) crt_list_gen: the same part of WriteFrontendMaps over ANY hosts model: one record
       per hatypes.Host with every field that code reads (certificate file, HasTLS,
       SSLPassthrough, alpn / ca-file / crl-file / ciphers / ciphersuites / options), so
       that hosts filled in by annotations and by the Gateway API converter are covered;
       (1) is its special case (Proofs/CrtList_gen.v gen_refines). *)
From Coq Require Import List Bool String Ascii ZArith.
From HI Require Import Model.Tracker Model.Conv.
Import ListNotations.
Open Scope string_scope.

(* ---------- (1) crt-list generation ---------- *)
Record crtline := { cl_crt : string; cl_filter : string }.

(* host.TLS.TLSHash / TLSFilename as a content label; None = no tls entry *)
Definition htls (s : cstate) (h : string) : option string :=
  match get_host s h with Some r => h_tls r | None => None end.

(* hasCustomTLS *)
Definition custom_tls (s : cstate) (h : string) : bool :=
  match htls s h with Some c => negb (String.eqb c default_crt) | None => false end.

(* strings.Index(hostname, ".") and what follows the dot *)
Fixpoint after_dot (s : string) : option string :=
  match s with
  | EmptyString => None
  | String c r => if Ascii.eqb c "."%char then Some r else after_dot r
  end.
(* "*" + hostname[dot:] *)
Definition wild_of (name : string) : option string :=
  match after_dot name with Some r => Some ("*." ++ r) | None => None end.

(* wildcardHasCustomTLS (wildcard != host holds whenever it is called: the host has no
   custom certificate) *)
Definition wild_custom (s : cstate) (h : string) : bool :=
  match wild_of h with Some wn => custom_tls s wn | None => false end.

(* the certificate of the line of a host, None = the host has no line *)
Definition line_crt (s : cstate) (h : string) : option string :=
  match htls s h with
  | None => None
  | Some c =>
      if negb (String.eqb c default_crt) then Some c
      else if wild_custom s h then Some default_crt
      else None
  end.

Definition host_lines (s : cstate) (h : string) : list crtline :=
  match line_crt s h with
  | Some c => [{| cl_crt := c; cl_filter := h |}]
  | None => []
  end.

(* sort.Slice by Hostname: insertion sort with the byte order of Go strings *)
Fixpoint insert_str (x : string) (l : list string) : list string :=
  match l with
  | [] => [x]
  | y :: r => if str_ltb y x then y :: insert_str x r else x :: l
  end.
Definition sort_strs (l : list string) : list string := fold_right insert_str [] l.

(* the host names of the cluster: rule hosts and tls hosts of every ingress; these are the
   keys of the hosts map after a sync (add_host is called for exactly these) *)
Definition ing_hosts (i : ingress) : list string :=
  map (fun r => norm_host (fst r)) (i_rules i) ++ flat_map fst (i_tls i).
Definition host_names (w : world) : list string :=
  sort_strs (dedup (flat_map ing_hosts (w_ings w))).

Definition neg_default : string := "!*".

Definition crt_list (names : list string) (s : cstate) : list crtline :=
  {| cl_crt := default_crt; cl_filter := neg_default |}
  :: flat_map (host_lines s) (filter (fun h => negb (String.eqb h default_host)) names).

(* ---------- (2) HAProxy: certificate for an SNI name ---------- *)
Definition is_neg (f : string) : bool :=
  match f with String c _ => Ascii.eqb c "!"%char | EmptyString => false end.

Definition find_filter (f : string) (l : list crtline) : option string :=
  match find (fun e => negb (is_neg (cl_filter e)) && String.eqb (cl_filter e) f) l with
  | Some e => Some (cl_crt e)
  | None => None
  end.

Definition first_crt (l : list crtline) : string :=
  match l with e :: _ => cl_crt e | [] => "" end.

Definition sni_select (l : list crtline) (name : string) : string :=
  match find_filter name l with
  | Some c => c
  | None =>
      match wild_of name with
      | Some wn => match find_filter wn l with Some c => c | None => first_crt l end
      | None => first_crt l
      end
  end.

(* ---------- (3) what a cluster is served with ---------- *)
Definition served_in (names : list string) (s : cstate) (name : string) : string :=
  sni_select (crt_list names s) name.

Definition served (w : world) (name : string) : string :=
  served_in (host_names w) (fst (sync_full w)) name.

(* ---------- (4) vocabulary of the statements ---------- *)
(* the secret a tls block refers to: "" = no secretName, else namespace/secretName *)
Definition secret_ref (i : ingress) (secret : string) : string :=
  if String.eqb secret "" then "" else i_ns i ++ "/" ++ secret.

(* the certificate a reference resolves to: the content of a present, valid secret, else
   the default certificate *)
Definition ref_cert (w : world) (ref : string) : string :=
  if String.eqb ref "" then default_crt
  else match assoc ref (w_secrets w) with Some c => c | None => default_crt end.

(* the (host, reference) pairs of the tls blocks of an ingress, in order *)
Definition ing_refs (i : ingress) : list (string * string) :=
  flat_map (fun blk => map (fun h => (h, secret_ref i (snd blk))) (fst blk)) (i_tls i).

(* ... of the cluster, in the order of syncFull: (creation, ns/name) *)
Definition tls_refs (w : world) : list (string * string) :=
  flat_map ing_refs (sort_ings (w_ings w)).

(* the reference of the first declaration for a host name *)
Definition winner_ref (w : world) (h : string) : option string := assoc h (tls_refs w).

(* ... the declaration that decides for an SNI name: its own, else the one of the wildcard
   host covering it *)
Definition effective_ref (w : world) (name : string) : option string :=
  match winner_ref w name with
  | Some r => Some r
  | None => match wild_of name with Some wn => winner_ref w wn | None => None end
  end.

(* names that can be host names / SNI filters: not the internal name of the default host,
   not starting with "!" *)
Definition name_ok (name : string) : Prop := name <> default_host /\ is_neg name = false.

(* some ingress has rules for the host *)
Definition has_rules (w : world) (h : string) : Prop :=
  exists i rule, In i (w_ings w) /\ In rule (i_rules i) /\ norm_host (fst rule) = h.

(* ---------- (5) runtime: certificate replaced without reload ---------- *)
(* One host of the old (running) and of the new configuration. `hv_other` stands for every
   field of hatypes.Host but TLS.TLSFilename, TLS.TLSHash, TLS.TLSCommonName and
   TLS.TLSNotAfter, compared by reflect.DeepEqual. *)
Record hostview (A : Type) := { hv_other : A; hv_file : string; hv_hash : string }.
Arguments hv_other {A}. Arguments hv_file {A}. Arguments hv_hash {A}.

Section Dyn.
  Context {A : Type} (eqA : A -> A -> bool).

  (* curHost.TLS.HasTLS() *)
  Definition hv_hastls (v : hostview A) : bool := negb (String.eqb (hv_file v) "").

  (* the `set ssl cert` + `commit ssl cert` pair is sent *)
  Definition cert_cmd_sent (old new : hostview A) : bool :=
    hv_hastls new && negb (String.eqb (hv_hash old) (hv_hash new))
    && String.eqb (hv_file old) (hv_file new).

  (* checkHostPair: true = the pair needs no reload. cmd_ok is the outcome of
     execUpdateCert (file read, socket, "Success!" answer). *)
  Definition cert_update_dynamic (old new : hostview A) (cmd_ok : bool) : bool :=
    eqA (hv_other old) (hv_other new) && String.eqb (hv_file old) (hv_file new)
    && (if cert_cmd_sent old new then cmd_ok else true).
End Dyn.

(* ---------- (6) the crt-list from ANY hosts model ---------- *)
(* The crt-list part of WriteFrontendMaps over the hosts of the haproxy model whatever
   filled them in (ingress converter with annotations, Gateway API converter): one record
   per hatypes.Host with the fields that part of the code reads.  Files are named by the
   label of their content ("" = no file). *)
Record hcfg := {
  hc_name : string;         (* Hostname *)
  hc_crt : string;          (* TLS.TLSFilename *)
  hc_hastls : bool;         (* HasTLS(): TLS.UseDefaultCrt || TLS.TLSHash != "" *)
  hc_pass : bool;           (* SSLPassthrough() *)
  hc_alpn : string;         (* TLS.ALPN *)
  hc_ca : string;           (* TLS.CAFilename *)
  hc_crl : string;          (* TLS.CRLFilename *)
  hc_ciphers : string;      (* TLS.Ciphers *)
  hc_suites : string;       (* TLS.CipherSuites *)
  hc_options : string       (* TLS.Options *)
}.

(* one line: certificate, the words between [ ], sni filter *)
Record gline := { gl_crt : string; gl_opts : list string; gl_filter : string }.

Definition nonempty (s : string) : bool := negb (String.eqb s "").

(* hasCustomTLS; d = frontend.DefaultCrtFile *)
Definition hc_custom (d : string) (h : hcfg) : bool :=
  (nonempty (hc_crt h) && negb (String.eqb (hc_crt h) d))
  || nonempty (hc_alpn h) || nonempty (hc_ca h) || nonempty (hc_ciphers h)
  || nonempty (hc_suites h) || nonempty (hc_options h).

(* bindConf *)
Definition hc_bind (h : hcfg) : list string :=
  (if nonempty (hc_alpn h) then ["alpn"; hc_alpn h] else [])
  ++ (if nonempty (hc_ca h)
      then ["ca-file"; hc_ca h; "verify"; "optional"]
           ++ (if nonempty (hc_crl h) then ["crl-file"; hc_crl h] else [])
      else [])
  ++ (if nonempty (hc_ciphers h) then ["ciphers"; hc_ciphers h] else [])
  ++ (if nonempty (hc_suites h) then ["ciphersuites"; hc_suites h] else [])
  ++ (if nonempty (hc_options h) then [hc_options h] else []).

(* hosts.FindHost *)
Definition find_hcfg (name : string) (l : list hcfg) : option hcfg :=
  find (fun h => String.eqb (hc_name h) name) l.

(* wildcardHasCustomTLS *)
Definition gen_wild_custom (d : string) (l : list hcfg) (h : hcfg) : bool :=
  match wild_of (hc_name h) with
  | None => false
  | Some wn =>
      match find_hcfg wn l with
      | None => false
      | Some wh => negb (String.eqb (hc_name wh) (hc_name h)) && negb (hc_pass wh) && hc_custom d wh
      end
  end.

Definition gen_crtfile (d : string) (h : hcfg) : string :=
  if nonempty (hc_crt h) then hc_crt h else d.

(* the line of one host of the loop over BuildSortedItems, None = no line *)
Definition gen_line (d : string) (l : list hcfg) (h : hcfg) : option gline :=
  if hc_pass h then None                      (* `continue` of ssl-passthrough hosts *)
  else if hc_custom d h
       then Some {| gl_crt := gen_crtfile d h; gl_opts := hc_bind h; gl_filter := hc_name h |}
       else if hc_hastls h && gen_wild_custom d l h
            then Some {| gl_crt := gen_crtfile d h; gl_opts := []; gl_filter := hc_name h |}
            else None.

Fixpoint insert_hcfg (x : hcfg) (l : list hcfg) : list hcfg :=
  match l with
  | [] => [x]
  | y :: r => if str_ltb (hc_name y) (hc_name x) then y :: insert_hcfg x r else x :: l
  end.
Definition sort_hcfg (l : list hcfg) : list hcfg := fold_right insert_hcfg [] l.

Definition opt_list_g (o : option gline) : list gline := match o with Some g => [g] | None => [] end.

Definition crt_list_gen (d : string) (l : list hcfg) : list gline :=
  {| gl_crt := d; gl_opts := []; gl_filter := neg_default |}
  :: flat_map (fun h => opt_list_g (gen_line d l h))
              (sort_hcfg (filter (fun h => negb (String.eqb (hc_name h) default_host)) l)).

Definition plain (g : gline) : crtline := {| cl_crt := gl_crt g; cl_filter := gl_filter g |}.

Definition served_gen (d : string) (l : list hcfg) (name : string) : string :=
  sni_select (map plain (crt_list_gen d l)) name.

(* the hosts of the converter model of Conv.v as host records *)
Definition hcfg_of (s : cstate) (h : string) : hcfg :=
  {| hc_name := h;
     hc_crt := match htls s h with Some c => c | None => "" end;
     hc_hastls := match htls s h with Some _ => true | None => false end;
     hc_pass := false; hc_alpn := ""; hc_ca := ""; hc_crl := ""; hc_ciphers := "";
     hc_suites := ""; hc_options := "" |}.
