(* Model of pkg/controller/reconciler/watchers.go: the accumulator `ch`
   (types.ChangedObjects, pkg/converters/types/interfaces.go) filled by the per-kind event
   handlers and handed over by getChangedObjects.
   Definitions only; proofs are in Proofs/Watch.v.

   An atomic step is either one event offered to the handler of its kind (predicates, then
   the handler body Create/Update/Delete/Generic which runs under watchers.mu) or one Swap
   (getChangedObjects, under the same mutex). A history is a list of atomic steps: since
   every step runs under the mutex, the lists are all the interleavings of concurrent
   deliveries and swaps. That atomicity is assumed here (it is the mutex's job) and only
   tested by the harness.

   Objects are abstracted to what the predicates and handlers read. Identities of Go
   pointers / map contents are N tokens chosen by the harness: equal tokens iff equal
   contents (o_ann: annotations, maps.Equal; o_body: Endpoints.Subsets / EndpointSlice.Endpoints
   by reflect.DeepEqual, Pod deletion timestamp by pointer, 0 = nil; o_data: ConfigMap.Data,
   None = nil map). o_valid is the answer of services.IsValidResource for the object. *)
From Coq Require Import ZArith NArith List Bool String.
Import ListNotations.
Open Scope string_scope.

Inductive kind :=
| KConfigMap | KService | KEndpoints | KEndpointSlice | KSecret | KPod
| KIngress | KIngressClass
| KGatewayA2 | KGatewayClassA2 | KHTTPRouteA2
| KGatewayB1 | KGatewayClassB1 | KHTTPRouteB1
| KGatewayV1 | KGatewayClassV1 | KHTTPRouteV1
| KTCPRouteA2.

Inductive evtype := ECreate | EUpdate | EDelete | EGeneric.

Record object := {
  o_ns : string; o_name : string;
  o_svc : string;        (* label kubernetes.io/service-name, "" when absent *)
  o_id : N;              (* identity of the Go object (pointer) *)
  o_gen : Z;             (* metadata.generation *)
  o_ann : N;             (* token of metadata.annotations *)
  o_body : N;            (* token of the part the kind's update predicate compares *)
  o_valid : bool;        (* IsValidIngress / IsValidIngressClass / IsValidGateway... *)
  o_data : option N      (* ConfigMap: token of .Data, None = nil *)
}.

Record event := { e_kind : kind; e_type : evtype; e_old : object; e_new : object }.
(* create / delete / generic carry their object in e_new (e_old is ignored) *)

Record config := {
  cm_name : string;      (* cfg.ConfigMapName "ns/name" *)
  tcp_name : string;     (* cfg.TCPConfigMapName *)
  publish : string;      (* cfg.PublishService *)
  slice_api : bool;      (* cfg.EnableEndpointSliceAPI *)
  has_a2 : bool; has_b1 : bool; has_v1 : bool; has_tcp : bool
}.

(* the per-kind lists of ChangedObjects that handlers append to *)
Inductive lname :=
| IngAdd | IngUpd | IngDel
| GwA2Add | GwA2Upd | GwA2Del | GwcA2Add | GwcA2Upd | GwcA2Del
| GwB1Add | GwB1Upd | GwB1Del | GwcB1Add | GwcB1Upd | GwcB1Del.

Definition lname_eqb (a b : lname) : bool :=
  match a, b with
  | IngAdd, IngAdd | IngUpd, IngUpd | IngDel, IngDel
  | GwA2Add, GwA2Add | GwA2Upd, GwA2Upd | GwA2Del, GwA2Del
  | GwcA2Add, GwcA2Add | GwcA2Upd, GwcA2Upd | GwcA2Del, GwcA2Del
  | GwB1Add, GwB1Add | GwB1Upd, GwB1Upd | GwB1Del, GwB1Del
  | GwcB1Add, GwcB1Add | GwcB1Upd, GwcB1Upd | GwcB1Del, GwcB1Del => true
  | _, _ => false
  end.

(* The accumulator. c_desc is the chronological list of appends to the per-kind lists; the
   Go slice named ln is `list_of ln ch` (appends to different slices commute). *)
Record chg := {
  c_gcur : option N; c_gnew : option N;     (* GlobalConfigMapDataCur / New *)
  c_tcur : option N; c_tnew : option N;     (* TCPConfigMapDataCur / New *)
  c_desc : list (lname * N);
  c_full : bool;                            (* NeedFullSync *)
  c_objects : list string;                  (* Objects *)
  c_links : list (string * list string)     (* Links: resource type -> names *)
}.

Definition list_of (ln : lname) (ch : chg) : list N :=
  map snd (filter (fun p => lname_eqb ln (fst p)) (c_desc ch)).

(* initCh: a fresh accumulator carrying the ConfigMap data *)
Definition init_ch (gcur tcur : option N) : chg :=
  {| c_gcur := gcur; c_gnew := None; c_tcur := tcur; c_tnew := None; c_desc := [];
     c_full := false; c_objects := []; c_links := [] |}.

Definition carry (cur new : option N) : option N :=
  match new with Some d => Some d | None => cur end.

(* ---------- handler table ---------- *)

(* hdlr.res *)
Definition res_of (k : kind) : string :=
  match k with
  | KConfigMap => "ConfigMap" | KService => "Service"
  | KEndpoints | KEndpointSlice => "Endpoints"
  | KSecret => "Secret" | KPod => "Pod"
  | KIngress => "Ingress" | KIngressClass => "IngressClass"
  | KGatewayA2 | KGatewayB1 | KGatewayV1 => "Gateway"
  | KGatewayClassA2 | KGatewayClassB1 | KGatewayClassV1 => "GatewayClass"
  | KHTTPRouteA2 | KHTTPRouteB1 | KHTTPRouteV1 => "HTTPRoute"
  | KTCPRouteA2 => "TCPRoute"
  end.

(* hdlr.full *)
Definition full_of (k : kind) : bool :=
  match k with
  | KGatewayA2 | KGatewayClassA2 | KHTTPRouteA2
  | KGatewayB1 | KGatewayClassB1 | KHTTPRouteB1
  | KGatewayV1 | KGatewayClassV1 | KHTTPRouteV1 | KTCPRouteA2 => true
  | _ => false
  end.

(* getHandlers: which handlers exist *)
Definition enabled (cfg : config) (k : kind) : bool :=
  match k with
  | KGatewayA2 | KGatewayClassA2 | KHTTPRouteA2 => has_a2 cfg
  | KGatewayB1 | KGatewayClassB1 | KHTTPRouteB1 => has_b1 cfg
  | KGatewayV1 | KGatewayClassV1 | KHTTPRouteV1 => has_v1 cfg
  | KTCPRouteA2 => has_tcp cfg
  | _ => true
  end.

(* cm.Namespace + "/" + cm.Name *)
Definition key (o : object) : string := o_ns o ++ "/" ++ o_name o.

Definition is_update (t : evtype) : bool := match t with EUpdate => true | _ => false end.

(* predicate.Funcs{CreateFunc: valid(obj), DeleteFunc: valid(obj),
                   UpdateFunc: valid(old) || valid(new)}; Generic is not filtered *)
Definition valid_pred (e : event) : bool :=
  match e_type e with
  | ECreate | EDelete => o_valid (e_new e)
  | EUpdate => o_valid (e_old e) || o_valid (e_new e)
  | EGeneric => true
  end.

Definition gen_changed (e : event) : bool :=
  if is_update (e_type e) then negb (Z.eqb (o_gen (e_new e)) (o_gen (e_old e))) else true.
Definition ann_changed (e : event) : bool :=
  if is_update (e_type e) then negb (N.eqb (o_ann (e_new e)) (o_ann (e_old e))) else true.
Definition body_changed (e : event) : bool :=
  if is_update (e_type e) then negb (N.eqb (o_body (e_new e)) (o_body (e_old e))) else true.

(* hdlr.pr: all predicates of the handler must accept *)
Definition preds (cfg : config) (e : event) : bool :=
  match e_kind e with
  | KConfigMap => String.eqb (key (e_new e)) (cm_name cfg) || String.eqb (key (e_new e)) (tcp_name cfg)
  | KService =>
      (* Or(AnnotationChanged, GenerationChanged, is the publish service) *)
      if is_update (e_type e)
      then ann_changed e || gen_changed e ||
           (negb (String.eqb (publish cfg) "") && String.eqb (key (e_new e)) (publish cfg))
      else true
  | KEndpoints => negb (slice_api cfg) && body_changed e
  | KEndpointSlice => slice_api cfg && body_changed e
  | KSecret => true
  | KPod => match e_type e with ECreate => false | _ => body_changed e end
  | KIngress => (ann_changed e || gen_changed e) && valid_pred e
  | KIngressClass => gen_changed e && valid_pred e
  | KGatewayA2 | KGatewayB1 | KGatewayV1 => gen_changed e
  | KGatewayClassA2 | KGatewayClassB1 | KGatewayClassV1 => gen_changed e && valid_pred e
  | KHTTPRouteA2 | KHTTPRouteB1 | KHTTPRouteV1 | KTCPRouteA2 => gen_changed e
  end.

(* the event reaches a handler body *)
Definition accepted (cfg : config) (e : event) : bool := enabled cfg (e_kind e) && preds cfg e.

(* the three lists of a kind whose handler keeps add / upd / del lists *)
Definition lists_of (k : kind) : option (lname * lname * lname) :=
  match k with
  | KIngress => Some (IngAdd, IngUpd, IngDel)
  | KGatewayA2 => Some (GwA2Add, GwA2Upd, GwA2Del)
  | KGatewayClassA2 => Some (GwcA2Add, GwcA2Upd, GwcA2Del)
  | KGatewayB1 => Some (GwB1Add, GwB1Upd, GwB1Del)
  | KGatewayClassB1 => Some (GwcB1Add, GwcB1Upd, GwcB1Del)
  | _ => None
  end.

(* hdlr.add / upd / del: what is appended to the per-kind lists *)
Definition descr (e : event) : list (lname * N) :=
  match lists_of (e_kind e) with
  | None => []
  | Some (la, lu, ld) =>
      match e_type e with
      | ECreate => [(la, o_id (e_new e))]
      | EDelete => [(ld, o_id (e_new e))]
      | EUpdate =>
          let ov := o_valid (e_old e) in
          let nv := o_valid (e_new e) in
          if ov && nv then [(lu, o_id (e_new e))]
          else if negb ov && nv then [(la, o_id (e_new e))]
          else if ov && negb nv then [(ld, o_id (e_old e))]
          else []
      | EGeneric => []
      end
  end.

(* token of the empty, non-nil map[string]string{} (the harness gives it this token) *)
Definition empty_data : N := 1%N.

(* the data cmChange captures: the object's Data on create / update, the empty map when the
   object has no data (`if data == nil { data = map[string]string{} }`); on delete the handler
   passes a copy whose Data is the empty map ("a removed configmap means an empty
   configuration"). So a captured value is never nil. *)
Definition cm_payload (e : event) : option N :=
  match e_type e with
  | EDelete => Some empty_data
  | _ => match o_data (e_new e) with Some d => Some d | None => Some empty_data end
  end.

(* cmChange, called by the ConfigMap handler on create, update and delete *)
Definition cm_change (cfg : config) (e : event) (ch : chg) : chg :=
  match e_kind e, e_type e with
  | KConfigMap, (ECreate | EUpdate | EDelete) =>
      if String.eqb (key (e_new e)) (cm_name cfg) then
        {| c_gcur := c_gcur ch; c_gnew := cm_payload e; c_tcur := c_tcur ch; c_tnew := c_tnew ch;
           c_desc := c_desc ch; c_full := c_full ch; c_objects := c_objects ch; c_links := c_links ch |}
      else if String.eqb (key (e_new e)) (tcp_name cfg) then
        {| c_gcur := c_gcur ch; c_gnew := c_gnew ch; c_tcur := c_tcur ch; c_tnew := cm_payload e;
           c_desc := c_desc ch; c_full := c_full ch; c_objects := c_objects ch; c_links := c_links ch |}
      else ch
  | _, _ => ch
  end.

(* compose: names *)
Definition fullname (k : kind) (o : object) : string :=
  let n := match k with
           | KEndpointSlice => if String.eqb (o_svc o) "" then o_name o else o_svc o
           | _ => o_name o
           end in
  if String.eqb (o_ns o) "" then n else o_ns o ++ "/" ++ n.

Definition evname (t : evtype) : string :=
  match t with ECreate => "add" | EUpdate => "update" | EDelete => "del" | EGeneric => "generic" end.

(* fmt.Sprintf("%s/%s:%s", ev, h.res, fullname) *)
Definition obj_entry (e : event) : string :=
  evname (e_type e) ++ "/" ++ res_of (e_kind e) ++ ":" ++ fullname (e_kind e) (e_new e).

Fixpoint appenddedup (l : list string) (s : string) : list string :=
  match l with
  | [] => [s]
  | x :: r => if String.eqb x s then l else x :: appenddedup r s
  end.

Fixpoint links_get (r : string) (m : list (string * list string)) : list string :=
  match m with
  | [] => []
  | (r', ns) :: rest => if String.eqb r' r then ns else links_get r rest
  end.

(* ch.Links[res] = appenddedup(ch.Links[res], name) *)
Fixpoint links_add (r n : string) (m : list (string * list string)) : list (string * list string) :=
  match m with
  | [] => [(r, [n])]
  | (r', ns) :: rest =>
      if String.eqb r' r then (r', appenddedup ns n) :: rest else (r', ns) :: links_add r n rest
  end.

(* the link and the Objects entry an accepted event leaves (Generic leaves none) *)
Definition link_of (e : event) : option (string * string) :=
  match e_type e with
  | EGeneric => None
  | _ => Some (res_of (e_kind e), fullname (e_kind e) (e_new e))
  end.

(* hdlr.Create / Update / Delete / Generic, under the mutex *)
Definition handle (cfg : config) (e : event) (ch : chg) : chg :=
  let full' := c_full ch || full_of (e_kind e) in
  match e_type e with
  | EGeneric =>
      {| c_gcur := c_gcur ch; c_gnew := c_gnew ch; c_tcur := c_tcur ch; c_tnew := c_tnew ch;
         c_desc := c_desc ch; c_full := true; c_objects := c_objects ch; c_links := c_links ch |}
  | _ =>
      let ch1 := cm_change cfg e ch in
      {| c_gcur := c_gcur ch1; c_gnew := c_gnew ch1; c_tcur := c_tcur ch1; c_tnew := c_tnew ch1;
         c_desc := c_desc ch1 ++ descr e; c_full := full';
         c_objects := appenddedup (c_objects ch1) (obj_entry e);
         c_links := links_add (res_of (e_kind e)) (fullname (e_kind e) (e_new e)) (c_links ch1) |}
  end.

(* one event offered to the watchers *)
Definition offer (cfg : config) (ch : chg) (e : event) : chg :=
  if accepted cfg e then handle cfg e ch else ch.

(* getChangedObjects: hand over a copy, start a fresh accumulator carrying the ConfigMap data *)
Definition swap (ch : chg) : chg * chg :=
  (ch, init_ch (carry (c_gcur ch) (c_gnew ch)) (carry (c_tcur ch) (c_tnew ch))).

Inductive step := Ev (e : event) | Swap.

(* state: accumulator, delivered batches (oldest first), queue notifications (oldest first,
   true = full sync) *)
Record wstate := { w_ch : chg; w_batches : list chg; w_notifs : list bool }.

Definition w_init : wstate := {| w_ch := init_ch None None; w_batches := []; w_notifs := [] |}.

Definition wstep (cfg : config) (st : wstate) (s : step) : wstate :=
  match s with
  | Ev e =>
      {| w_ch := offer cfg (w_ch st) e; w_batches := w_batches st;
         w_notifs := if accepted cfg e then w_notifs st ++ [full_of (e_kind e)] else w_notifs st |}
  | Swap =>
      let p := swap (w_ch st) in
      {| w_ch := snd p; w_batches := w_batches st ++ [fst p]; w_notifs := w_notifs st |}
  end.

Definition wrun (cfg : config) (steps : list step) : wstate := fold_left (wstep cfg) steps w_init.

(* ---------- the declarative side: segments between swaps and their summaries ---------- *)

(* events between consecutive swaps: closed segments (each ended by a Swap), and the open tail *)
Fixpoint segments_from (cur : list event) (steps : list step) : list (list event) * list event :=
  match steps with
  | [] => ([], cur)
  | Ev e :: rest => segments_from (cur ++ [e]) rest
  | Swap :: rest => let p := segments_from [] rest in (cur :: fst p, snd p)
  end.
Definition segments (steps : list step) : list (list event) := fst (segments_from [] steps).
Definition open_segment (steps : list step) : list event := snd (segments_from [] steps).

(* what a list of events leaves in a fresh accumulator *)
Definition summary (cfg : config) (gcur tcur : option N) (evs : list event) : chg :=
  fold_left (offer cfg) evs (init_ch gcur tcur).
