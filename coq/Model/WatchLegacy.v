(* Model of the legacy controller's event path, pkg/controller/legacy/cache.go:
   k8scache.Notify (every lister event, under stateMutex.Lock) fills c.changed;
   k8scache.SwapChangedObjects (a reconciliation, under the same lock for its whole body)
   describes the batch (Objects, Links), hands it over and starts a fresh one carrying the
   ConfigMap data. Definitions only; proofs are in Proofs/WatchLegacy.v.

   As in Model/Watch.v a history is a list of atomic steps (one Notify, or one Swap): since
   both run entirely under the exclusive lock, the lists are all interleavings. That
   atomicity is ASSUMED by the model; a swap that takes its copy and resets the accumulator
   in two critical sections violates the assumption, not the theorems: it is what the
   concurrent stream of the harness tests. *)
From Coq Require Import ZArith NArith List Bool String.
Import ListNotations.
Open Scope string_scope.

(* what Notify's type switches distinguish *)
Inductive lkind :=
| LIngress | LIngressClass | LGatewayA2 | LGatewayClassA2 | LHTTPRouteA2
| LService | LSecret | LConfigMap | LEndpoints | LEndpointSlice | LPod
| LUnknown.   (* cache.DeletedFinalStateUnknown *)

Record lobj := {
  lo_ns : string; lo_name : string;
  lo_svc : string;         (* label kubernetes.io/service-name *)
  lo_id : N;               (* identity of the Go object *)
  lo_data : option N       (* ConfigMap: token of .Data, None = nil *)
}.

(* Notify(old, cur): either side may be nil *)
Record levent := { l_kind : lkind; l_old : option lobj; l_cur : option lobj }.

(* the slices of ChangedObjects, in the order SwapChangedObjects describes them *)
Inductive llist :=
| LIngDel | LIngUpd | LIngAdd | LClsDel | LClsUpd | LClsAdd
| LGwDel | LGwUpd | LGwAdd | LGwcDel | LGwcUpd | LGwcAdd | LHrDel | LHrUpd | LHrAdd
| LEpNew | LEpsUpd | LSvcDel | LSvcUpd | LSvcAdd | LSecDel | LSecUpd | LSecAdd
| LCmDel | LCmUpd | LCmAdd | LPodNew.

Definition all_llists : list llist :=
  [LIngDel; LIngUpd; LIngAdd; LClsDel; LClsUpd; LClsAdd;
   LGwDel; LGwUpd; LGwAdd; LGwcDel; LGwcUpd; LGwcAdd; LHrDel; LHrUpd; LHrAdd;
   LEpNew; LEpsUpd; LSvcDel; LSvcUpd; LSvcAdd; LSecDel; LSecUpd; LSecAdd;
   LCmDel; LCmUpd; LCmAdd; LPodNew].

Definition llist_idx (l : llist) : nat :=
  match l with
  | LIngDel => 0 | LIngUpd => 1 | LIngAdd => 2 | LClsDel => 3 | LClsUpd => 4 | LClsAdd => 5
  | LGwDel => 6 | LGwUpd => 7 | LGwAdd => 8 | LGwcDel => 9 | LGwcUpd => 10 | LGwcAdd => 11
  | LHrDel => 12 | LHrUpd => 13 | LHrAdd => 14 | LEpNew => 15 | LEpsUpd => 16
  | LSvcDel => 17 | LSvcUpd => 18 | LSvcAdd => 19 | LSecDel => 20 | LSecUpd => 21 | LSecAdd => 22
  | LCmDel => 23 | LCmUpd => 24 | LCmAdd => 25 | LPodNew => 26
  end%nat.
Definition llist_eqb (a b : llist) : bool := Nat.eqb (llist_idx a) (llist_idx b).

(* del / upd / add lists of a kind *)
Definition dua (k : lkind) : option (llist * llist * llist) :=
  match k with
  | LIngress => Some (LIngDel, LIngUpd, LIngAdd)
  | LIngressClass => Some (LClsDel, LClsUpd, LClsAdd)
  | LGatewayA2 => Some (LGwDel, LGwUpd, LGwAdd)
  | LGatewayClassA2 => Some (LGwcDel, LGwcUpd, LGwcAdd)
  | LHTTPRouteA2 => Some (LHrDel, LHrUpd, LHrAdd)
  | LService => Some (LSvcDel, LSvcUpd, LSvcAdd)
  | LSecret => Some (LSecDel, LSecUpd, LSecAdd)
  | LConfigMap => Some (LCmDel, LCmUpd, LCmAdd)
  | _ => None
  end.

(* what one Notify appends: `if old != nil { switch ... if cur == nil { Del } }`, then
   `if cur != nil { switch ... Add or Upd / EndpointsNew / EndpointSlicesUpd / PodsNew }` *)
Definition ldescr (e : levent) : list (llist * lobj) :=
  (match l_old e, l_cur e, dua (l_kind e) with
   | Some o, None, Some (d, _, _) => [(d, o)]
   | _, _, _ => []
   end) ++
  (match l_cur e with
   | None => []
   | Some c =>
       match dua (l_kind e), l_kind e with
       | Some (_, u, a), _ => [(match l_old e with None => a | Some _ => u end, c)]
       | None, LEndpoints => [(LEpNew, c)]
       | None, LEndpointSlice => [(LEpsUpd, c)]
       | None, LPod => [(LPodNew, c)]
       | None, _ => []
       end
   end).

Definition is_gw (k : lkind) : bool :=
  match k with LGatewayA2 | LGatewayClassA2 | LHTTPRouteA2 => true | _ => false end.

(* NeedFullSync: gateway kinds (a delete, or any current object), a DeletedFinalStateUnknown
   on either side, or Notify(nil, nil) *)
Definition lfull (e : levent) : bool :=
  match l_old e, l_cur e with
  | None, None => true
  | Some _, None => is_gw (l_kind e) || match l_kind e with LUnknown => true | _ => false end
  | _, Some _ => is_gw (l_kind e) || match l_kind e with LUnknown => true | _ => false end
  end.

Record lcfg := { lg_key : string; lt_key : string }.  (* globalConfigMapKey, tcpConfigMapKey *)

Definition lkey (o : lobj) : string := lo_ns o ++ "/" ++ lo_name o.

(* c.changed and the flag `clear` *)
Record lchg := {
  lc_gcur : option N; lc_gnew : option N; lc_tcur : option N; lc_tnew : option N;
  lc_desc : list (llist * lobj);   (* chronological; the slice named ln is llist_of ln *)
  lc_full : bool
}.

Definition llist_of (ln : llist) (d : list (llist * lobj)) : list lobj :=
  map snd (filter (fun p => llist_eqb ln (fst p)) d).

Definition linit (g t : option N) : lchg :=
  {| lc_gcur := g; lc_gnew := None; lc_tcur := t; lc_tnew := None; lc_desc := []; lc_full := false |}.

(* func (c *k8scache) Notify(old, cur interface{}) *)
Definition lnotify (cfg : lcfg) (ch : lchg) (e : levent) : lchg :=
  let cm := match l_kind e, l_cur e with LConfigMap, Some c => Some c | _, _ => None end in
  let isg := match cm with Some c => String.eqb (lkey c) (lg_key cfg) | None => false end in
  let ist := match cm with Some c => negb (String.eqb (lkey c) (lg_key cfg)) && String.eqb (lkey c) (lt_key cfg)
                         | None => false end in
  let data := match cm with Some c => lo_data c | None => None end in
  {| lc_gcur := lc_gcur ch; lc_gnew := if isg then data else lc_gnew ch;
     lc_tcur := lc_tcur ch; lc_tnew := if ist then data else lc_tnew ch;
     lc_desc := lc_desc ch ++ ldescr e; lc_full := lc_full ch || lfull e |}.

(* ---------- SwapChangedObjects: the description of a batch ---------- *)

Definition lres (l : llist) : string :=
  match l with
  | LIngDel | LIngUpd | LIngAdd => "Ingress"
  | LClsDel | LClsUpd | LClsAdd => "IngressClass"
  | LGwDel | LGwUpd | LGwAdd => "Gateway"
  | LGwcDel | LGwcUpd | LGwcAdd => "GatewayClass"
  | LHrDel | LHrUpd | LHrAdd => "HTTPRoute"
  | LEpNew | LEpsUpd => "Endpoints"
  | LSvcDel | LSvcUpd | LSvcAdd => "Service"
  | LSecDel | LSecUpd | LSecAdd => "Secret"
  | LCmDel | LCmUpd | LCmAdd => "ConfigMap"
  | LPodNew => "Pod"
  end.

Definition lev (l : llist) : string :=
  match l with
  | LIngDel | LClsDel | LGwDel | LGwcDel | LHrDel | LSvcDel | LSecDel | LCmDel => "del"
  | LIngAdd | LClsAdd | LGwAdd | LGwcAdd | LHrAdd | LSvcAdd | LSecAdd | LCmAdd => "add"
  | _ => "update"
  end.

(* addChanges(ctx, ev, ns, n): IngressClass and GatewayClass are described without a
   namespace, an EndpointSlice by its service-name label *)
Definition lfullname (l : llist) (o : lobj) : string :=
  let ns := match l with
            | LClsDel | LClsUpd | LClsAdd | LGwcDel | LGwcUpd | LGwcAdd => ""
            | _ => lo_ns o
            end in
  let n := match l with LEpsUpd => lo_svc o | _ => lo_name o end in
  if String.eqb ns "" then n else ns ++ "/" ++ n.

Definition lentry (l : llist) (o : lobj) : string := lev l ++ "/" ++ lres l ++ ":" ++ lfullname l o.

Definition optN_eq (a b : option N) : bool :=
  match a, b with
  | None, None => true
  | Some x, Some y => N.eqb x y
  | _, _ => false
  end.

(* ch.Objects *)
Definition lobjects (ch : lchg) : list string :=
  (match lc_gnew ch with
   | Some _ => if optN_eq (lc_gcur ch) (lc_gnew ch) then [] else ["update/global"]
   | None => []
   end) ++
  (match lc_tnew ch with
   | Some _ => if optN_eq (lc_tcur ch) (lc_tnew ch) then [] else ["update/tcp-services"]
   | None => []
   end) ++
  flat_map (fun l => map (lentry l) (llist_of l (lc_desc ch))) all_llists.

(* ch.Links[res]: appended in the same traversal, no de-duplication *)
Definition llinks (r : string) (ch : lchg) : list string :=
  flat_map (fun l => if String.eqb (lres l) r then map (lfullname l) (llist_of l (lc_desc ch)) else [])
           all_llists.

Definition lcarry (cur new : option N) : option N :=
  match new with Some d => Some d | None => cur end.

(* the batch handed over is the accumulator itself (with its description); the new one
   carries the ConfigMap data *)
Definition lswap (ch : lchg) : lchg * lchg :=
  (ch, linit (lcarry (lc_gcur ch) (lc_gnew ch)) (lcarry (lc_tcur ch) (lc_tnew ch))).

Inductive lstep := LEv (e : levent) | LSwap.

(* l_clear: nothing arrived since the last swap; l_notifs: update queue notifications
   scheduled (by the first Notify after a swap) *)
Record lstate := { l_ch : lchg; l_batches : list lchg; l_clear : bool; l_notifs : nat }.

Definition l_init : lstate := {| l_ch := linit None None; l_batches := []; l_clear := true; l_notifs := 0 |}.

Definition lstepf (cfg : lcfg) (st : lstate) (s : lstep) : lstate :=
  match s with
  | LEv e => {| l_ch := lnotify cfg (l_ch st) e; l_batches := l_batches st; l_clear := false;
                l_notifs := if l_clear st then S (l_notifs st) else l_notifs st |}
  | LSwap => let p := lswap (l_ch st) in
             {| l_ch := snd p; l_batches := l_batches st ++ [fst p]; l_clear := true;
                l_notifs := l_notifs st |}
  end.

Definition lrun (cfg : lcfg) (steps : list lstep) : lstate := fold_left (lstepf cfg) steps l_init.

Fixpoint lsegments_from (cur : list levent) (steps : list lstep) : list (list levent) * list levent :=
  match steps with
  | [] => ([], cur)
  | LEv e :: rest => lsegments_from (cur ++ [e]) rest
  | LSwap :: rest => let p := lsegments_from [] rest in (cur :: fst p, snd p)
  end.
Definition lsegments (steps : list lstep) : list (list levent) := fst (lsegments_from [] steps).
Definition lopen_segment (steps : list lstep) : list levent := snd (lsegments_from [] steps).

Definition lsummary (cfg : lcfg) (g t : option N) (evs : list levent) : lchg :=
  fold_left (lnotify cfg) evs (linit g t).

Fixpoint levents_of (steps : list lstep) : list levent :=
  match steps with
  | [] => []
  | LEv e :: r => e :: levents_of r
  | LSwap :: r => levents_of r
  end.
