(* C03 end to end: the request is routed THROUGH THE RENDERED MAP FILES.

   Model/Route.v chooses the rule inside a host with the specification-level matcher
   (`Route.best`: exact, longest, prefix before begin, first declared).  Here the rules that
   `sync_full c` produced are handed to the model of the map generator (Model/Maps.v:
   `rebuild_current` = types.rebuildMatchFiles as /repo runs it) exactly as
   config.WriteFrontendMaps does, and the request is answered by HAProxy's lookup chain over
   those files (Model/HAMatch.v: `lookup`), as the frontends of haproxy.tmpl do:
     _front_http :  req.backend      <- map chain of _front_http_host  on  host#path
     _front_https:  req.hostbackend  <- map chain of _front_https_host (hosts with TLS only)
     both:          req.defaultbackend <- map chain of _front_defaulthost on <default>#path,
                    only when the first lookup found nothing
     use_backend first var / use_backend default-host var / default_backend <--default-backend-service> / _error404
   `route_files` evaluates that chain over ANY rendered files (the harness feeds it the files
   the real code wrote); `route_maps` over the files the models generate.
   Definitions only; proofs are in Proofs/RouteMaps.v.

   Route.v has three path types (no regex: it needs an annotation) and no wildcard hosts,
   so neither appears here. *)
From Coq Require Import List Bool String ZArith NArith Ascii.
From HI Require Import Model.Maps Model.Route.
Import ListNotations.
Open Scope list_scope.

(* ------------------------------------------------------------------ from Route.v to Maps.v *)

Definition mt (t : Route.ptype) : HAMatch.mtype :=
  match t with
  | Route.Exact => HAMatch.Exact
  | Route.Prefix => HAMatch.Prefix
  | Route.Begin => HAMatch.Begin
  end.

(* hatypes.DefaultHost *)
Definition default_host : str := s2l "<default>".
Definition host_str (h : option string) : str :=
  match h with Some x => s2l x | None => default_host end.

(* one AddHostnamePathMapping(hostname, path, backend id) call; `enc` renders the backend id *)
Definition fed_of (enc : bkey -> str) (x : N * (decl * bkey)) : fed :=
  let d := fst (snd x) in
  {| fhost := host_str (d_host d); fpath := s2l (d_path d); ftyp := mt (d_type d);
     forder := fst x; ftarget := enc (snd (snd x)) |}.

Fixpoint number {A} (n : N) (l : list A) : list (N * A) :=
  match l with
  | [] => []
  | x :: l' => (n, x) :: number (N.succ n) l'
  end.

Definition feds_of (enc : bkey -> str) (l : list (decl * bkey)) : list fed :=
  map (fed_of enc) (number 0 l).

(* which paths go to which map (config.WriteFrontendMaps) *)
Definition is_named_host (x : decl * bkey) : bool :=
  match d_host (fst x) with Some _ => true | None => false end.
Definition is_tls_host (tls : list string) (x : decl * bkey) : bool :=
  match d_host (fst x) with Some h => existsb (String.eqb h) tls | None => false end.
Definition is_default_host (x : decl * bkey) : bool := negb (is_named_host x).

Record rendered := {
  rd_http : list matchfile;       (* lookup chain of _front_http_host *)
  rd_https : list matchfile;      (* lookup chain of _front_https_host *)
  rd_default : list matchfile;    (* lookup chain of _front_defaulthost *)
  rd_defback : option str         (* default_backend, None = _error404 *)
}.

Definition render (mo : list mtype) (enc : bkey -> str) (st : state) : rendered :=
  {| rd_http := rebuild_current mo (map add (feds_of enc (filter is_named_host (st_paths st))));
     rd_https := rebuild_current mo (map add (feds_of enc (filter (is_tls_host (st_tls st)) (st_paths st))));
     rd_default := rebuild_current mo (map add (feds_of enc (filter is_default_host (st_paths st))));
     rd_defback := option_map enc (st_default st) |}.

(* ------------------------------------------------------------------ the frontends over rendered files *)

Definition chain_lookup (tree : bool) (host_files default_files : list matchfile) (host path : str)
  : option str :=
  match lookup tree host_files (sample host path) with
  | Some v => Some v
  | None => lookup tree default_files (sample default_host path)
  end.

(* the backend id a request ends in; None = _error404 *)
Definition route_files (tree : bool) (rd : rendered) (r : request) : option str :=
  match chain_lookup tree (if rq_https r then rd_https rd else rd_http rd) (rd_default rd)
                     (s2l (req_host r)) (s2l (rq_path r)) with
  | Some v => Some v
  | None => rd_defback rd
  end.

(* the servers of the backend section with that id *)
Definition serve_id (enc : bkey -> str) (st : state) (v : option str) : outcome :=
  match v with
  | None => NotFound
  | Some id => match find (fun b => str_eqb (enc (fst b)) id) (st_backs st) with
               | Some b => Serve (snd b)
               | None => NotFound
               end
  end.

(* converter, then map generator, then HAProxy's lookups *)
Definition route_maps (tree : bool) (mo : list mtype) (enc : bkey -> str) (c : cluster) (r : request) : outcome :=
  let st := sync_full c in serve_id enc st (route_files tree (render mo enc st) r).

(* Backends.buildID *)
Definition bid (k : bkey) : str := s2l (fst (fst k) ++ "_" ++ snd (fst k) ++ "_" ++ snd k)%string.

(* ------------------------------------------------------------------ hypotheses of the composition *)

(* C04's guard on what is fed to the maps: host and path alphabet, at most one trailing slash
   of a Prefix path, ASCII, no "*." host *)
Definition wf_decl (d : decl) : bool :=
  wf_fed {| fhost := host_str (d_host d); fpath := s2l (d_path d); ftyp := mt (d_type d);
            forder := 0; ftarget := [] |}.
Definition decls_in_guard (c : cluster) : Prop := forall d, In d (effective_decls c) -> wf_decl d = true.

(* C04's guard on the request: host without '/', '?', '#'; path without '#', '?' *)
Definition request_in_guard (r : request) : Prop :=
  wf_request (s2l (req_host r)) (s2l (rq_path r)).

(* backend ids name backends: no two backend sections share the id *)
Definition ids_distinct (enc : bkey -> str) (c : cluster) : Prop :=
  forall k k', In k (map fst (st_backs (sync_full c))) -> In k' (map fst (st_backs (sync_full c))) ->
    enc k = enc k' -> k = k'.

(* C04 leaves the answer open between matching rules of one host that are all exact or have
   the same declared length (e.g. /app Prefix and /app ImplementationSpecific): the request is
   unambiguous when such rules lead to the same backend *)
Definition rank2 (d : decl) : bool * nat :=
  if is_exact d then (true, 0) else (false, String.length (d_path d)).
Definition tie_free (l : list (decl * bkey)) : Prop :=
  forall x y, In x l -> In y l -> rank2 (fst x) = rank2 (fst y) -> snd x = snd y.
Definition candidates (f : decl -> bool) (c : cluster) (r : request) : list (decl * bkey) :=
  filter (fun x => f (fst x) && Route.path_matches (d_type (fst x)) (d_path (fst x)) (rq_path r))
         (st_paths (sync_full c)).
Definition unambiguous (c : cluster) (r : request) : Prop :=
  tie_free (candidates (host_visible (tls_hosts c) r) c r) /\ tie_free (candidates default_visible c r).

(* the composition, for one request: the lookups over the generated maps end in the servers
   route_impl (the specification-level matcher) answers *)
Definition maps_agree_at (tree : bool) (mo : list mtype) (enc : bkey -> str) (c : cluster) (r : request) : Prop :=
  route_maps tree mo enc c r = route_impl c r.

(* C03 for an arbitrary answer `o` (route_full_spec_at is full_spec_for (route_impl c r)) *)
Definition full_spec_for (o : outcome) (c : cluster) (r : request) : Prop :=
  match spec_target c r with
  | TDecl d => exists svc sp, resolve c d = Some (svc, sp) /\
                 exists srv, o = Serve srv /\ forall s, In s srv <-> designated c svc sp s
  | TDefaultBackend => exists svc sp, default_backend_port c = Some (svc, sp) /\
                 exists srv, o = Serve srv /\ forall s, In s srv <-> designated c svc sp s
  | TNotFound => o = NotFound
  end.

(* ------------------------------------------------------------------ the hypotheses, decidable *)

Definition decls_in_guardb (c : cluster) : bool := forallb wf_decl (effective_decls c).

Definition request_in_guardb (r : request) : bool :=
  host_chars_ok (s2l (req_host r)) && path_chars_ok (s2l (rq_path r)).

Definition ids_distinctb (enc : bkey -> str) (c : cluster) : bool :=
  let ks := map fst (st_backs (sync_full c)) in
  forallb (fun k => forallb (fun k' => negb (str_eqb (enc k) (enc k')) || bkey_eqb k k') ks) ks.

Definition rank2_eqb (a b : decl) : bool :=
  if is_exact a then is_exact b
  else negb (is_exact b) && Nat.eqb (String.length (d_path a)) (String.length (d_path b)).
Definition tie_freeb (l : list (decl * bkey)) : bool :=
  forallb (fun x => forallb (fun y => negb (rank2_eqb (fst x) (fst y)) || bkey_eqb (snd x) (snd y)) l) l.
Definition unambiguousb (c : cluster) (r : request) : bool :=
  tie_freeb (candidates (host_visible (tls_hosts c) r) c r) && tie_freeb (candidates default_visible c r).

(* the default path-type-order *)
Definition default_order : list mtype := [HAMatch.Exact; HAMatch.Prefix; HAMatch.Begin; HAMatch.Regex].
