(* C07 — every generated configuration is loadable.

   Part A: the reference structure `cfg` of one WRITTEN configuration (what the
   harness scans out of haproxy.cfg + backend shards + map / list / crt-list files +
   the files on disk, see harness/lib/c07/scan.go), the boolean checker `wellformed`
   and the declarative statement of the property over that structure.
   Directives read (rootfs/etc/templates/haproxy/haproxy.tmpl):
     use_backend <name> | use_backend %[var(v)] (values = values of the maps that feed
     v in the same section + their literal defaults) | default_backend | the helper
     backend argument of `http-request lua.auth-intercept` | http_auth(<userlist>) |
     map_xxx(<file>) / -f <file> | crt-list <file> and the files it lists |
     crt / ca-file / crl-file / `filter ... config <file>` | server <name> ... id <n> |
     use-server <name> | set-var(txn.pathID) ...map_xxx(<idmap>) and
     `var(txn.pathID) -m str <ids>` | the auth proxy: `bind 127.0.0.1:<port> [id <n>]`
     of its frontend and `server _auth_<n> 127.0.0.1:<port>` of its helper backends.
   TCP services are sections like the others (frontend _front_tcp_<port> with
   use_backend %[var(req.tcpback)] + default_backend; listen _tcp_<svc>_<port> with servers).

   Part B: models of the three generators of names / ids / ports
     pkg/haproxy/types/backend.go   AddEndpoint, AddEmptyEndpoint, sanitizeName
     pkg/haproxy/types/backend.go   AddBackendPath
     pkg/haproxy/types/frontend.go  AcquireAuthBackendName, RemoveAuthBackendExcept,
                                    RemoveAuthBackendByTarget
   Definitions only; proofs are in Proofs/CfgRefs.v. *)
From Coq Require Import String Ascii List NArith ZArith Bool Arith DecimalString DecimalNat DecimalN.
Import ListNotations.
Open Scope string_scope.

(* ------------------------------------------------------------------ Part A *)

Inductive skind := KFront | KBack | KListen | KOther.

(* one `use_backend %[var(v)]`: the map files feeding v and the literal defaults *)
Record dynref := { d_maps : list string; d_defaults : list string }.

Record section := {
  s_kind : skind;
  s_name : string;
  s_servers : list (string * N);     (* server name, id (0 = no `id`) *)
  s_use : list string;               (* literal use_backend targets *)
  s_usedyn : list dynref;            (* dynamic use_backend targets *)
  s_default : list string;           (* default_backend *)
  s_authback : list string;          (* lua.auth-intercept <backend> *)
  s_userlists : list string;         (* http_auth(<userlist>) *)
  s_maps : list string;              (* every map / list file referenced *)
  s_crtlists : list string;          (* crt-list <file> *)
  s_files : list string;             (* crt / ca-file / crl-file / config <file> *)
  s_idmaps : list string;            (* maps feeding txn.pathID *)
  s_idsused : list string;           (* path ids used in ACLs *)
  s_useserver : list string          (* use-server <name> *)
}.

Record cfg := {
  c_sections : list section;
  c_userlists : list string;                             (* userlist sections *)
  c_maps : list (string * list (string * string));       (* map files read: (key, value) *)
  c_crtlists : list (string * list string);              (* crt-list read: files it names *)
  c_files : list string;                                 (* files on disk *)
  c_authbinds : list N;                                  (* ports bound by the auth proxy *)
  c_authids : list N;                                    (* socket ids of those binds, 0 = none *)
  c_authservers : list (string * N)                      (* helper backend, port of its server *)
}.

Definition is_backlike (s : section) : bool :=
  match s_kind s with KBack | KListen => true | _ => false end.

Definition backend_names (c : cfg) : list string := map s_name (filter is_backlike (c_sections c)).

Fixpoint lookup {A} (k : string) (l : list (string * A)) : option A :=
  match l with
  | [] => None
  | (k', v) :: r => if String.eqb k k' then Some v else lookup k r
  end.

Definition map_values (c : cfg) (f : string) : list string :=
  match lookup f (c_maps c) with Some es => map snd es | None => [] end.

(* possible values of one dynamic use_backend *)
Definition dyn_targets (c : cfg) (d : dynref) : list string :=
  d_defaults d ++ flat_map (map_values c) (d_maps d).

(* every backend name a section refers to *)
Definition backend_refs (c : cfg) (s : section) : list string :=
  s_use s ++ s_default s ++ s_authback s ++ flat_map (dyn_targets c) (s_usedyn s).

Definition id_values (c : cfg) (s : section) : list string := flat_map (map_values c) (s_idmaps s).

Definition nonzero (n : N) : bool := negb (N.eqb n 0).

(* ---- the property, as Props over the structure ---- *)

Definition exactly_one (c : cfg) (n : string) : Prop :=
  count_occ string_dec (backend_names c) n = 1%nat.

(* each backend named by use_backend / default_backend / auth-intercept / a value of a
   map feeding a dynamic use_backend (this covers the TCP service frontends) is exactly
   one backend (or listen) section *)
Definition backends_resolve (c : cfg) : Prop :=
  forall s n, In s (c_sections c) -> In n (backend_refs c s) -> exactly_one c n.

(* userlists defined (once), map / list files, crt-lists and certificate files present *)
Definition files_present (c : cfg) : Prop :=
  forall s, In s (c_sections c) ->
    (forall u, In u (s_userlists s) -> count_occ string_dec (c_userlists c) u = 1%nat) /\
    (forall f, In f (s_maps s) -> In f (c_files c)) /\
    (forall d f, In d (s_usedyn s) -> In f (d_maps d) -> exists es, lookup f (c_maps c) = Some es) /\
    (forall f, In f (s_crtlists s) ->
       In f (c_files c) /\ exists fs, lookup f (c_crtlists c) = Some fs /\ forall x, In x fs -> In x (c_files c)) /\
    (forall f, In f (s_files s) -> In f (c_files c)).

(* server names unique, non-zero ids unique, use-server names a server of the section *)
Definition servers_unique (c : cfg) : Prop :=
  forall s, In s (c_sections c) ->
    NoDup (map fst (s_servers s)) /\
    NoDup (filter nonzero (map snd (s_servers s))) /\
    (forall u, In u (s_useserver s) -> In u (map fst (s_servers s))).

(* every path id used in an ACL is a value of one of that backend's id maps *)
Definition path_ids_defined (c : cfg) : Prop :=
  forall s id, In s (c_sections c) -> In id (s_idsused s) ->
    exists f es k, In f (s_idmaps s) /\ lookup f (c_maps c) = Some es /\ In (k, id) es.

(* auth-proxy ports (and socket ids) bound once; every helper backend points to a bound port *)
Definition auth_ports_unique (c : cfg) : Prop :=
  NoDup (c_authbinds c) /\ NoDup (filter nonzero (c_authids c)) /\
  (forall b p, In (b, p) (c_authservers c) -> In p (c_authbinds c)).

Definition loadable (c : cfg) : Prop :=
  backends_resolve c /\ files_present c /\ servers_unique c /\ path_ids_defined c /\ auth_ports_unique c.

(* ---- the checker ---- *)

Definition mem (x : string) (l : list string) : bool := existsb (String.eqb x) l.
Definition memN (x : N) (l : list N) : bool := existsb (N.eqb x) l.
Definition count (x : string) (l : list string) : nat := length (filter (String.eqb x) l).

Fixpoint nodupb (l : list string) : bool :=
  match l with [] => true | x :: r => negb (mem x r) && nodupb r end.
Fixpoint nodupbN (l : list N) : bool :=
  match l with [] => true | x :: r => negb (memN x r) && nodupbN r end.

Definition one (backs : list string) (n : string) : bool := Nat.eqb (count n backs) 1.

Definition dyn_ok (c : cfg) (backs : list string) (d : dynref) : bool :=
  forallb (one backs) (d_defaults d) &&
  forallb (fun f => match lookup f (c_maps c) with
                    | Some es => forallb (fun e : string * string => one backs (snd e)) es
                    | None => false end) (d_maps d).

Definition crtlist_ok (c : cfg) (f : string) : bool :=
  mem f (c_files c) &&
  match lookup f (c_crtlists c) with
  | Some fs => forallb (fun x => mem x (c_files c)) fs
  | None => false
  end.

Definition section_ok (c : cfg) (backs : list string) (s : section) : bool :=
  forallb (one backs) (s_use s ++ s_default s ++ s_authback s) &&
  forallb (dyn_ok c backs) (s_usedyn s) &&
  forallb (fun u => Nat.eqb (count u (c_userlists c)) 1) (s_userlists s) &&
  forallb (fun f => mem f (c_files c)) (s_maps s) &&
  forallb (crtlist_ok c) (s_crtlists s) &&
  forallb (fun f => mem f (c_files c)) (s_files s) &&
  nodupb (map fst (s_servers s)) &&
  nodupbN (filter nonzero (map snd (s_servers s))) &&
  forallb (fun u => mem u (map fst (s_servers s))) (s_useserver s) &&
  forallb (fun id => mem id (id_values c s)) (s_idsused s).

Definition wellformed (c : cfg) : bool :=
  forallb (section_ok c (backend_names c)) (c_sections c) &&
  nodupbN (c_authbinds c) &&
  nodupbN (filter nonzero (c_authids c)) &&
  forallb (fun bp : string * N => memN (snd bp) (c_authbinds c)) (c_authservers c).

(* ------------------------------------------------------------------ Part B *)

(* decimal printing (strconv / %d) *)
Definition dec (n : nat) : string := NilEmpty.string_of_uint (Nat.to_uint n).
Definition decN (n : N) : string := NilEmpty.string_of_uint (N.to_uint n).

(* %03d and %02d *)
Definition pad3 (n : nat) : string :=
  if Nat.ltb n 10 then "00" ++ dec n else if Nat.ltb n 100 then "0" ++ dec n else dec n.
Definition pad2 (n : nat) : string := if Nat.ltb n 10 then "0" ++ dec n else dec n.

(* ---- B1: server names (backend.go AddEndpoint / AddEmptyEndpoint / sanitizeName) ---- *)

Inductive naming := NSeq | NIp | NPod.   (* EpSequence | EpIPPort | EpTargetRef *)

(* names[len(names)-1] of strings.Split(targetRef, "/") *)
Fixpoint last_seg_from (s acc : string) : string :=
  match s with
  | EmptyString => acc
  | String c r => if Ascii.eqb c "/"%char then last_seg_from r "" else last_seg_from r (acc ++ String c "")
  end.
Definition last_seg (s : string) : string := last_seg_from s "".

Definition raw_name (m : naming) (ip : string) (port : N) (tref : string) : string :=
  match m with
  | NPod => last_seg tref
  | NIp => if String.eqb ip "127.0.0.1" then "" else ip ++ ":" ++ decN port
  | NSeq => ""
  end.

Definition slot_name (n : nat) : string := "srv" ++ pad3 n.

Definition is_empty (s : string) : bool := match s with EmptyString => true | _ => false end.

(* sname of sanitizeName(name, idx) *)
Definition cand (name : string) (idx : nat) : string :=
  if Nat.leb idx 1 then name else name ++ "__" ++ dec idx.

(* the recursion sanitizeName(name, idx) -> sanitizeName(name, idx+1); the Go recursion
   is unbounded, here `fuel` = number of names: Proofs/CfgRefs.v (sanitize_from_fresh)
   shows the candidate returned when the fuel runs out is never a used name, so the
   function equals the Go one on every input *)
Fixpoint sanitize_from (fuel : nat) (names : list string) (name : string) (idx : nat) : string :=
  let sname := cand name idx in
  match fuel with
  | O => sname
  | S f => if mem sname names then sanitize_from f names name (S idx) else sname
  end.

(* sanitizeName(name, 1) as repaired: an empty name becomes the slot name srvNNN of the
   position and is then made unique like any other name *)
Definition sanitize (names : list string) (name : string) : string :=
  let name' := if is_empty name then slot_name (S (length names)) else name in
  sanitize_from (length names) names name' 1.

(* before the repair (kept for the witness in Proofs): srvNNN was returned unchecked *)
Definition sanitize_before_fix (names : list string) (name : string) : string :=
  if is_empty name then slot_name (S (length names))
  else sanitize_from (length names) names name 1.

Inductive ep_op :=
| AddEndpoint (ip : string) (port : N) (tref : string)
| AddEmptyEndpoint.

Definition op_name (m : naming) (op : ep_op) : string :=
  match op with
  | AddEndpoint ip port tref => raw_name m ip port tref
  | AddEmptyEndpoint => raw_name m "127.0.0.1" 1023 ""
  end.

(* the names of b.Endpoints, in order *)
Definition add_name (m : naming) (names : list string) (op : ep_op) : list string :=
  names ++ [sanitize names (op_name m op)].
Definition run_names (m : naming) (ops : list ep_op) : list string := fold_left (add_name m) ops [].

Definition add_name_before_fix (m : naming) (names : list string) (op : ep_op) : list string :=
  names ++ [sanitize_before_fix names (op_name m op)].
Definition run_names_before_fix (m : naming) (ops : list ep_op) : list string :=
  fold_left (add_name_before_fix m) ops [].

(* ---- B2: path ids (backend.go AddBackendPath) ---- *)

(* a path link is compared with Link.Equals; here: any type with a boolean equality *)
Definition path_id (n : nat) : string := "path" ++ pad2 n.

Section Paths.
  Context {L : Type} (leqb : L -> L -> bool).
  (* sortPaths: the order of b.Paths after sort.Slice is a parameter (sort.Slice is not
     stable and the comparator ignores part of the link) *)
  Context (sortp : list (L * string) -> list (L * string)).

  Fixpoint find_path (l : L) (ps : list (L * string)) : option string :=
    match ps with
    | [] => None
    | (l', id) :: r => if leqb l l' then Some id else find_path l r
    end.

  Definition add_path (ps : list (L * string)) (l : L) : list (L * string) :=
    match find_path l ps with
    | Some _ => ps
    | None => sortp (ps ++ [(l, path_id (S (length ps)))])
    end.

  Definition run_paths (ops : list L) : list (L * string) := fold_left add_path ops [].
End Paths.

(* ---- B3: auth-proxy ports (frontend.go) ---- *)

Record bind := { b_backend : string; b_port : Z }.

Inductive auth_op :=
| Acquire (range_start range_end : Z) (backend : string)
| RemoveExcept (used_ports : list Z)       (* used[bind.AuthBackendName]; the name is _auth_<port> *)
| RemoveByTarget (backends : list string).

(* the free port scan *)
Definition scan_step (free : Z) (b : bind) : Z := if Z.eqb free (b_port b) then (free + 1)%Z else free.
Definition free_port (start : Z) (l : list bind) : Z := fold_left scan_step l start.

(* sort.Slice by LocalPort (ports are distinct, so the result is determined) *)
Fixpoint insert_bind (b : bind) (l : list bind) : list bind :=
  match l with
  | [] => [b]
  | x :: r => if Z.leb (b_port b) (b_port x) then b :: l else x :: insert_bind b r
  end.
Fixpoint sort_binds (l : list bind) : list bind :=
  match l with [] => [] | x :: r => insert_bind x (sort_binds r) end.

Definition find_bind (backend : string) (l : list bind) : option bind :=
  find (fun b => String.eqb (b_backend b) backend) l.

(* result of one call: the port handed out (its name is _auth_<port>), or the error *)
Definition acquire (rs re : Z) (backend : string) (l : list bind) : list bind * option Z :=
  match find_bind backend l with
  | Some b => (l, Some (b_port b))
  | None =>
      let p := free_port rs l in
      if Z.ltb re p then (l, None)
      else (sort_binds (l ++ [{| b_backend := backend; b_port := p |}]), Some p)
  end.

Definition memZ (x : Z) (l : list Z) : bool := existsb (Z.eqb x) l.

Definition auth_step (l : list bind) (op : auth_op) : list bind * option Z :=
  match op with
  | Acquire rs re backend => acquire rs re backend l
  | RemoveExcept used => (filter (fun b => memZ (b_port b) used) l, None)
  | RemoveByTarget backs => (filter (fun b => negb (mem (b_backend b) backs)) l, None)
  end.

Definition run_auth (ops : list auth_op) : list bind := fold_left (fun l op => fst (auth_step l op)) ops [].

(* the trace: after each op, what was returned and the bind list *)
Fixpoint trace_auth (l : list bind) (ops : list auth_op) : list (option Z * list (string * Z)) :=
  match ops with
  | [] => []
  | op :: r =>
      let '(l', res) := auth_step l op in
      (res, map (fun b => (b_backend b, b_port b)) l') :: trace_auth l' r
  end.
