(* Model/Order.v -- C06: every place of the ingress converter where the order of processing
   (API list order, event order inside a batch, Go map iteration) could reach the output,
   with that order as an explicit parameter.  Definitions only; proofs in Proofs/Order.v.

   Iteration points of pkg/converters/ingress and what this file does with them (the list is
   by reading the code; `range` over a slice that the code sorted or received in spec order
   is not an iteration point):
     ingress.go  syncFull: GetIngressList()          -> sort_ings (Model/Conv.v), here sort_aings
                 syncPartial: ingMap                 -> sort_ings after the merge (Model/Conv.v)
                 readConfigKeys: `range ann` inside `range AnnotationPrefix`   -> read_config_keys
                 readAnnotations: `range keys`       -> a partition of a map, no interaction
                 NewIngressConverter: `range globalConfig` -> copy of a map, no interaction
                 fullSyncAnnotations / partialSyncAnnotations: hosts, backends
                                                      -> sync order = declaration order
                                                         (decl_order); before the fix: a Go map,
                                                         any order (apply_redirects, alloc_auth)
                 syncEndpoints: backends             -> each backend only touches itself
                 fullSyncTCP: tcp ports              -> each port only touches itself
     mapper.go   AddAnnotations: `range ann`         -> add_annotations
     host.go     buildHostRedirect / Hosts.FindTargetRedirect -> build_host_redirect
     backend.go  setAuthExternal / Frontend.AcquireAuthBackendName -> alloc_auth
                 buildBackendOAuth / findBackend     -> find_oauth (own host, then hostname
                                                         order); before the fix: first match
                                                         in map order (find_oauth_old)
                 buildBackendAuthHTTP / Userlists    -> the userlist is named after the secret
                                                         and holds the users of that secret:
                                                         whoever builds it first builds the
                                                         same thing (userlist_of)
     pkg/haproxy/types maps.go rawhosts              -> Model/Maps.v (C04), sorted hostnames now
     pkg/haproxy config.go WriteFrontendMaps         -> hosts in hostname order; alias_owner
                 SyncConfig (strict-host): hosts.ItemsAdd() -> adds the root path of each host
                                                         to one backend: only the numbers of
                                                         the paths inside the backend (pathNN)
                                                         follow the map order, the rules are
                                                         per path id (erased by the harness)
*)
From Coq Require Import List Bool String ZArith Ascii Permutation.
From HI Require Import Model.Tracker Model.Conv.
Import ListNotations.
Open Scope string_scope.
Open Scope list_scope.

(* ================================================================== *)
(* 0. sort.Slice with a comparator: insertion sort                      *)
(* ================================================================== *)
Section ISort.
  Context {A : Type} (ltb : A -> A -> bool).
  Fixpoint insert_by (x : A) (l : list A) : list A :=
    match l with
    | [] => [x]
    | y :: r => if ltb y x then y :: insert_by x r else x :: l
    end.
  Definition isort (l : list A) : list A := fold_right insert_by [] l.
End ISort.

(* ================================================================== *)
(* 1. readConfigKeys                                                    *)
(* ================================================================== *)
(* A Go map[string]string; the order of the list is the order in which ONE `range`
   statement visits it (Go picks another order for every statement). *)
Definition annots := list (string * string).

(* strings.HasPrefix + strings.TrimPrefix *)
Fixpoint trim_prefix (p s : string) : option string :=
  match p, s with
  | EmptyString, _ => Some s
  | String a p', String b s' => if Ascii.eqb a b then trim_prefix p' s' else None
  | String _ _, EmptyString => None
  end.

(* body of the inner loop: `if !found { keys[key] = annValue }` (else: a warning) *)
Definition rck_step (prefix : string) (keys : annots) (e : string * string) : annots :=
  match trim_prefix prefix (fst e) with
  | Some key => match assoc key keys with
                | None => keys ++ [(key, snd e)]
                | Some _ => keys
                end
  | None => keys
  end.

(* readConfigKeys: one pass per annotation prefix, in the order of the command line option;
   each pass visits the annotations in its own order: passes = [(prefix, visit order)] *)
Definition read_config_keys (passes : list (string * annots)) : annots :=
  fold_left (fun keys pass => fold_left (rck_step (fst pass ++ "/")%string) (snd pass) keys) passes [].

(* what the code would be with the loops the other way round (annotations outside, prefixes
   inside): only here to show that the model can tell the difference *)
Definition read_config_keys_swapped (prefixes : list string) (visit : annots) : annots :=
  fold_left (fun keys e => fold_left (fun keys p => rck_step (p ++ "/")%string keys e) prefixes keys) visit [].

(* readAnnotations: the host scoped keys (ingtypes.AnnHost + AnnDuo) *)
Definition host_keys : list string :=
  ["acme-preferred-chain"; "app-root"; "auth-tls-error-page"; "auth-tls-secret"; "auth-tls-strict";
   "auth-tls-verify-client"; "cert-signer"; "server-alias"; "redirect-from"; "redirect-from-regex";
   "server-alias-regex"; "ssl-always-add-https"; "ssl-ciphers"; "ssl-cipher-suites"; "ssl-options-host";
   "ssl-passthrough"; "ssl-passthrough-http-port"; "tls-alpn"; "var-namespace";
   "auth-external-placement"; "auth-headers-fail"; "auth-headers-request"; "auth-headers-succeed";
   "auth-method"; "auth-signin"; "auth-url"].
Definition tcp_keys : list string :=
  ["config-tcp-service"; "tcp-service-log-format"; "tcp-service-port"; "tcp-service-proxy-protocol"].
Definition is_host_key (k : string) : bool :=
  existsb (String.eqb k) host_keys && negb (existsb (String.eqb k) tcp_keys).
Definition ann_host (keys : annots) : annots := filter (fun kv => is_host_key (fst kv)) keys.

(* ================================================================== *)
(* 2. annotations.Mapper                                                *)
(* ================================================================== *)
(* configByPath and configByKey hold the same ConfigValue objects; an append-only log of
   the accepted (path, key, source, value) in the order they were accepted gives both:
   config.keys[key] of a path = the entry of that (path, key); configByKey[key] = the
   entries of that key, in order. *)
Record entry := { e_path : string; e_key : string; e_src : string; e_val : string }.
Definition mlog := list entry.

Definition path_get (m : mlog) (p k : string) : option entry :=
  find (fun e => String.eqb (e_path e) p && String.eqb (e_key e) k) m.
Definition key_configs (m : mlog) (k : string) : list entry :=
  filter (fun e => String.eqb (e_key e) k) m.

Section Mapper.
  (* validators[key]: None = rejected (a warning), Some v' = the normalised value *)
  Variable vld : string -> string -> option string.

  (* addAnnotation: (new mapper, conflict?) *)
  Definition add_annotation (m : mlog) (src p k v : string) : mlog * bool :=
    match path_get m p k with
    | Some e => (m, negb (String.eqb (e_val e) v))
    | None =>
        match vld k v with
        | None => (m, false)
        | Some rv => (m ++ [{| e_path := p; e_key := k; e_src := src; e_val := rv |}], false)
        end
    end.

  (* AddAnnotations: `for key, value := range ann` in the order given by the list *)
  Definition add_annotations (m : mlog) (src p : string) (ann : annots) : mlog * list string :=
    fold_left (fun acc kv =>
      let r := add_annotation (fst acc) src p (fst kv) (snd kv) in
      (fst r, if snd r then snd acc ++ [fst kv] else snd acc)) ann (m, []).

  (* Mapper.Get: (source, value); no source = default or missing *)
  Definition mget (defaults : annots) (m : mlog) (k : string) : option string * string :=
    match key_configs m k with
    | e :: _ => (Some (e_src e), e_val e)
    | [] => match assoc k defaults with Some v => (None, v) | None => (None, "") end
    end.
  (* KeyConfig.Get of GetConfig(path) *)
  Definition cget (defaults : annots) (m : mlog) (p k : string) : option string * string :=
    match path_get m p k with
    | Some e => (Some (e_src e), e_val e)
    | None => match assoc k defaults with Some v => (None, v) | None => (None, "") end
    end.

  (* one AddAnnotations call *)
  Record call := { c_src : string; c_path : string; c_ann : annots }.
  Definition run_call (m : mlog) (c : call) : mlog := fst (add_annotations m (c_src c) (c_path c) (c_ann c)).
  Definition run_calls (m : mlog) (cs : list call) : mlog := fold_left run_call cs m.

  (* "first writer of a key wins", declaratively: the first call, in call order, that
     carries the key for that path with a value the validator accepts *)
  Definition call_offer (c : call) (p k : string) : option entry :=
    if String.eqb (c_path c) p then
      match assoc k (c_ann c) with
      | Some v => match vld k v with
                  | Some rv => Some {| e_path := p; e_key := k; e_src := c_src c; e_val := rv |}
                  | None => None
                  end
      | None => None
      end
    else None.
  Fixpoint first_offer (cs : list call) (p k : string) : option entry :=
    match cs with
    | [] => None
    | c :: r => match call_offer c p k with Some e => Some e | None => first_offer r p k end
    end.
End Mapper.

(* the same calls, each Go map visited in another order *)
Definition call_perm (a b : call) : Prop :=
  c_src a = c_src b /\ c_path a = c_path b /\ Permutation (c_ann a) (c_ann b).
Definition call_wf (c : call) : Prop := NoDup (map fst (c_ann c)).

(* ---- the canonical feeding of a backend mapper (addBackendWithClass) ----
   an ingress with its backend scoped annotations and the paths it declares on the backend
   of the mapper: per path, the annotations of the service first, then the ingress' *)
Record apath := { ap_link : string; ap_svc : string; ap_svc_ann : annots }.
Record aing := { a_ing : ingress; a_ann : annots; a_paths : list apath }.
Definition a_name (a : aing) : string := i_full (a_ing a).
Definition aing_ltb (a b : aing) : bool := ing_ltb (a_ing a) (a_ing b).
Definition sort_aings (l : list aing) : list aing := isort aing_ltb l.

Definition calls_of_path (a : aing) (p : apath) : list call :=
  [ {| c_src := ("Service " ++ ap_svc p)%string; c_path := ap_link p; c_ann := ap_svc_ann p |};
    {| c_src := ("Ingress " ++ a_name a)%string; c_path := ap_link p; c_ann := a_ann a |} ].
Definition calls_of (a : aing) : list call := flat_map (calls_of_path a) (a_paths a).
(* syncFull: sortIngress, then ingress by ingress *)
Definition feed (l : list aing) : list call := flat_map calls_of (sort_aings l).

(* ================================================================== *)
(* 3. hosts: declaration order, host mapper, redirect-from              *)
(* ================================================================== *)
(* an ingress as the host side sees it: the hosts of its rules (with the number of paths
   that got a backend) and of its tls blocks, in spec order; its raw annotations *)
Record hing := {
  hi_ing : ingress;                       (* name, stamp (rules of the record are not used here) *)
  hi_rules : list (string * nat);         (* rule host ("" = default host), paths added *)
  hi_tls : list string;                   (* hosts of the tls blocks *)
  hi_raw : annots                         (* metadata.annotations *)
}.
Definition hing_ltb (a b : hing) : bool := ing_ltb (hi_ing a) (hi_ing b).
Definition sort_hings (l : list hing) : list hing := isort hing_ltb l.

(* the addHost calls of one ingress: rules first, then tls blocks *)
Definition host_decls (i : hing) : list string := map (fun r => norm_host (fst r)) (hi_rules i) ++ hi_tls i.

(* first occurrences, in order *)
Fixpoint first_occ (seen l : list string) : list string :=
  match l with
  | [] => []
  | x :: r => if existsb (String.eqb x) seen then first_occ seen r else x :: first_occ (x :: seen) r
  end.
(* converter.hostOrder: hosts in the order addHost met them first *)
Definition decl_order (sorted : list hing) : list string := first_occ [] (flat_map host_decls sorted).

(* the AddAnnotations calls received by the mapper of host h; `keys i` = what readConfigKeys
   + readAnnotations made of the annotations of ingress i *)
Definition host_calls (keys : hing -> annots) (sorted : list hing) (h : string) : list call :=
  flat_map (fun i =>
    map (fun _ => {| c_src := ("Ingress " ++ i_full (hi_ing i))%string; c_path := h; c_ann := ann_host (keys i) |})
        (filter (String.eqb h) (host_decls i))) sorted.

Definition host_has_paths (sorted : list hing) (h : string) : bool :=
  existsb (fun i => existsb (fun r => String.eqb (norm_host (fst r)) h && negb (Nat.eqb (snd r) 0)) (hi_rules i)) sorted.

(* what buildHostRedirect reads for one host *)
Record hostclaim := { hc_name : string; hc_paths : bool; hc_redir : string; hc_redir_re : string }.

(* Hosts' Redirect fields: hostname -> (RedirectHost, RedirectHostRegex) *)
Definition rstate := list (string * (string * string)).

(* Hosts.FindTargetRedirect *)
Definition find_target (st : rstate) (r : string) (regex : bool) : option string :=
  if String.eqb r "" then None
  else option_map fst (find (fun e => String.eqb (if regex then snd (snd e) else fst (snd e)) r) st).

(* buildHostRedirect; hosts not visited yet have empty fields, they are not in the state *)
Definition build_host_redirect (st : rstate) (h : hostclaim) : rstate :=
  let r1 := match find_target st (hc_redir h) false with
            | Some _ => ""
            | None => if hc_paths h then hc_redir h else ""
            end in
  let r2 := match find_target st (hc_redir_re h) true with
            | Some _ => ""
            | None => if hc_paths h then hc_redir_re h else ""
            end in
  st ++ [(hc_name h, (r1, r2))].

(* the hosts loop of fullSyncAnnotations, in the order given *)
Definition apply_redirects (order : list hostclaim) : rstate := fold_left build_host_redirect order [].

(* which host the requests for r are redirected to *)
Definition redirect_of (st : rstate) (r : string) : option string := find_target st r false.
Definition redirect_re_of (st : rstate) (r : string) : option string := find_target st r true.

(* the whole chain for the hosts of a full sync: sortIngress, addHost per declaration,
   host mappers, UpdateHostConfig in declaration order *)
Section HostChain.
  Variable vld : string -> string -> option string.
  Variable defaults : annots.
  Variable prefixes : list string.

  (* readConfigKeys of an ingress, every pass visiting the map in the order of hi_raw *)
  Definition keys_of (i : hing) : annots := read_config_keys (map (fun p => (p, hi_raw i)) prefixes).

  Definition claim_of (sorted : list hing) (h : string) : hostclaim :=
    let m := run_calls vld [] (host_calls keys_of sorted h) in
    {| hc_name := h; hc_paths := host_has_paths sorted h;
       hc_redir := snd (mget defaults m "redirect-from");
       hc_redir_re := snd (mget defaults m "redirect-from-regex") |}.

  Definition host_redirects (ings : list hing) : rstate :=
    let sorted := sort_hings ings in
    apply_redirects (map (claim_of sorted) (decl_order sorted)).

  (* app-root of a host (a host wide key with no interaction between hosts) *)
  Definition host_app_root (ings : list hing) (h : string) : string :=
    snd (mget defaults (run_calls vld [] (host_calls keys_of (sort_hings ings) h)) "app-root").
End HostChain.

(* ================================================================== *)
(* 4. backends: auth proxy ports, oauth lookup, userlists               *)
(* ================================================================== *)
(* Frontend.AcquireAuthBackendName for a fresh frontend: a target already bound is reused,
   a new one takes the next port while there is one (RangeStart..RangeEnd = cap ports).
   requests = the targets (auth backend ids) in the order setAuthExternal is reached:
   hosts (frontend placement) then backend paths, in sync order. *)
Definition alloc_step (cap : nat) (st : list string * list (string * bool)) (target : string)
  : list string * list (string * bool) :=
  let '(bound, res) := st in
  if existsb (String.eqb target) bound then (bound, res ++ [(target, true)])
  else if Nat.ltb (List.length bound) cap then (bound ++ [target], res ++ [(target, true)])
  else (bound, res ++ [(target, false)]).
Definition alloc_auth (cap : nat) (requests : list string) : list (string * bool) :=
  snd (fold_left (alloc_step cap) requests ([], [])).
(* is target served (true) or denied (false) *)
Definition auth_granted (cap : nat) (requests : list string) (target : string) : option bool :=
  assoc target (alloc_auth cap requests).

(* updater.findBackend of buildBackendOAuth.
   ohost = (hostname, [(path, namespace of the backend, backend id)]) *)
Definition ohost := (string * list (string * string * string))%type.

(* strings.TrimRight(path, "/") *)
Fixpoint trim_right_slash (s : string) : string :=
  match s with
  | EmptyString => EmptyString
  | String c r => match trim_right_slash r with
                  | EmptyString => if Ascii.eqb c "/" then EmptyString else String c EmptyString
                  | r' => String c r'
                  end
  end.

Definition host_oauth (ns prefix : string) (h : ohost) : option string :=
  option_map (fun p => snd p)
    (find (fun p => String.eqb (trim_right_slash (fst (fst p))) prefix && String.eqb (snd (fst p)) ns) (snd h)).

Fixpoint first_some {A B} (f : A -> option B) (l : list A) : option B :=
  match l with
  | [] => None
  | x :: r => match f x with Some b => Some b | None => first_some f r end
  end.

(* before the fix: the first host, in the iteration order of the hosts map, that has the path *)
Definition find_oauth_old (visit : list ohost) (ns prefix : string) : option string :=
  first_some (host_oauth ns prefix) visit.

Definition ohost_ltb (a b : ohost) : bool := str_ltb (fst a) (fst b).
(* after the fix: the host of the protected path itself, then the other hosts in hostname
   order (Hosts.BuildSortedItems), the default host last.  `visit` is the hosts map. *)
Definition find_oauth (visit : list ohost) (own ns prefix : string) : option string :=
  let named := filter (fun h => negb (String.eqb (fst h) default_host)) visit in
  let dflt := filter (fun h => String.eqb (fst h) default_host) visit in
  match first_some (host_oauth ns prefix) (filter (fun h => String.eqb (fst h) own) visit) with
  | Some b => Some b
  | None => first_some (host_oauth ns prefix) (isort ohost_ltb named ++ dflt)
  end.

(* buildBackendAuthHTTP: the userlist of a path is named after the secret and built from the
   content of that secret (secrets : ns/name -> users), by whoever needs it first.
   requests = (backend, secret) in processing order; result = userlists built *)
Definition userlist_step (secrets : list (string * list string)) (built : list (string * list string))
  (req : string * string) : list (string * list string) :=
  match assoc (snd req) secrets with
  | None => built                                   (* secret cannot be read: skipped *)
  | Some users => match assoc (snd req) built with
                  | Some _ => built                 (* Userlists().Find: reused *)
                  | None => built ++ [(snd req, users)]
                  end
  end.
Definition userlists_of (secrets : list (string * list string)) (requests : list (string * string))
  : list (string * list string) :=
  fold_left (userlist_step secrets) requests [].

(* WriteFrontendMaps: which host answers for a server alias.  visit = the hosts map as
   (hostname, alias name); a declared hostname keeps its name, otherwise the first
   requesting host in hostname order (Hosts.BuildSortedItems: the default host is not visited) *)
Definition alias_ltb (a b : string * string) : bool := str_ltb (fst a) (fst b).
Definition alias_owner (visit : list (string * string)) (alias : string) : option string :=
  if String.eqb alias "" then None
  else if existsb (fun h => String.eqb (fst h) alias) visit then None
  else option_map fst (find (fun h => String.eqb (snd h) alias)
                            (isort alias_ltb (filter (fun h => negb (String.eqb (fst h) default_host)) visit))).

(* configmap/tcpservices.go: the keys of the tcp-services ConfigMap are port numbers as text
   ("9000", "09000" and "+9000" are one port).  visit = the map as (key, value); valid = the
   declaration names a service and port that exist.  The keys are visited in sorted order
   and a port is configured by its first valid declaration (/repo c870730); before, every
   declaration of the port wrote the name and the options of one shared backend, in the
   visiting order of the map (tcp_name_old: the last one visited names it). *)
Definition tcp_declares (valid : string -> bool) (port : Z) (kv : string * string) : bool :=
  valid (snd kv) && match parse_int (fst kv) with Some p => Z.eqb p port | None => false end.
Definition tcp_owner (valid : string -> bool) (visit : list (string * string)) (port : Z) : option (string * string) :=
  find (tcp_declares valid port) (isort alias_ltb visit).
Definition tcp_name_old (valid : string -> bool) (visit : list (string * string)) (port : Z) : option (string * string) :=
  find (tcp_declares valid port) (rev visit).

(* ================================================================== *)
(* 5. Gateway API: sortHTTPRoutes / sortTCPRoutes (gateway.go)          *)
(* ================================================================== *)
(* the same key as sortIngress: creation stamp, then the text namespace ++ "/" ++ name.
   gr_ing carries namespace, name and stamp of the route (its other fields are unused);
   gr_claims = what the route asks for, as (claim, backend): claim = listener + hostname +
   path + match of an HTTPRoute rule, or the listener port of a TCPRoute. *)
Record groute := { gr_ing : ingress; gr_claims : list (string * string) }.
Definition gr_full (r : groute) : string := i_full (gr_ing r).
Definition groute_ltb (a b : groute) : bool := ing_ltb (gr_ing a) (gr_ing b).
Definition sort_routes (l : list groute) : list groute := isort groute_ltb l.

(* syncHTTPRoutes / syncTCPRoutes: routes in sorted order, a claim already taken is skipped
   (redeclared path / port already assigned): first come, first served *)
Definition claim_step (taken : list (string * string)) (c : string * string) : list (string * string) :=
  match assoc (fst c) taken with Some _ => taken | None => taken ++ [c] end.
Definition route_conversion (l : list groute) : list (string * string) :=
  fold_left claim_step (flat_map gr_claims (sort_routes l)) [].

(* ================================================================== *)
(* 6. EndpointSlices (convutils.createEndpointSlices, ingress addEndpoints) *)
(* ================================================================== *)
(* a slice: its TCP ports (name, number) and endpoints (first address, conditions.ready:
   None = unknown = ready).  The slices come in the order the lister returns them. *)
Record slice := { sl_ports : list (string * Z); sl_eps : list (string * option bool) }.

Definition ep_ready (e : string * option bool) : bool := match snd e with Some false => false | _ => true end.

(* createEndpointSlices for the service port named pname ("" matches every port): the
   (target, ready?) entries in the order of the code: slice, port, endpoint *)
Definition slice_entries (pname : string) (s : slice) : list ((string * Z) * bool) :=
  flat_map (fun p => if String.eqb pname "" || String.eqb pname (fst p)
                     then map (fun e => ((fst e, snd p), ep_ready e)) (sl_eps s) else [])
           (sl_ports s).
Definition slices_entries (pname : string) (l : list slice) : list ((string * Z) * bool) :=
  flat_map (slice_entries pname) l.

Definition target_eqb (a b : string * Z) : bool := String.eqb (fst a) (fst b) && Z.eqb (snd a) (snd b).
Definition ready_targets (es : list ((string * Z) * bool)) : list (string * Z) := map fst (filter snd es).
Definition notready_targets (es : list ((string * Z) * bool)) : list (string * Z) :=
  map fst (filter (fun e => negb (snd e)) es).

(* addEndpoints: AcquireEndpoint for every ready target, then with drain-support every not
   ready target is acquired as well and gets weight 0.  The server of a target: None = no
   server, Some true = serving, Some false = weight 0 *)
Definition slice_server (drain : bool) (pname : string) (l : list slice) (t : string * Z) : option bool :=
  let es := slices_entries pname l in
  if drain && existsb (target_eqb t) (notready_targets es) then Some false
  else if existsb (target_eqb t) (ready_targets es) then Some true
  else None.

(* a de-duplication that keeps the first entry of a target, whatever its readiness (not the
   code: what a `seen` set keyed by ip:port in createEndpointSlices would do) *)
Fixpoint dedup_first (seen : list (string * Z)) (es : list ((string * Z) * bool)) : list ((string * Z) * bool) :=
  match es with
  | [] => []
  | e :: r => if existsb (target_eqb (fst e)) seen then dedup_first seen r
              else e :: dedup_first (fst e :: seen) r
  end.
Definition slice_server_dedup_first (drain : bool) (pname : string) (l : list slice) (t : string * Z) : option bool :=
  let es := dedup_first [] (slices_entries pname l) in
  if drain && existsb (target_eqb t) (notready_targets es) then Some false
  else if existsb (target_eqb t) (ready_targets es) then Some true
  else None.
