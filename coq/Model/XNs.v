(* Model of the cross-namespace rules (property C09):
   pkg/controller/services/cache.go buildResourceName, getContentProtocol and the
   getters GetTLSSecretPath, GetCASecretPath, GetDHSecretPath, GetPasswdSecretContent,
   GetService (pkg/controller/legacy/cache.go has the same buildResourceName);
   pkg/converters/ingress/annotations/global.go buildGlobalDynamic + updater.go
   validateAllowDeny; and the reference sites of the ingress converter (ingress.go
   addTLS, host.go setAuthTLSConfig, backend.go buildBackendProtocol,
   buildBackendAuthHTTP incl. the userlist cache, setAuthExternal svc://), as they are
   after the fix: commits of /repo. Definitions only; proofs in Proofs/XNs.v. *)
From Coq Require Import String Ascii List Bool NArith.
From HI Require Import Lib.XNs_Strs.
Import ListNotations.
Open Scope string_scope.
Open Scope list_scope.

(* ---------- DynamicConfig ---------- *)

Record dyn := {
  d_crt : bool;      (* CrossNamespaceSecretCertificate *)
  d_ca : bool;       (* CrossNamespaceSecretCA *)
  d_passwd : bool;   (* CrossNamespaceSecretPasswd *)
  d_svc : bool }.    (* CrossNamespaceServices *)

(* strings.ToLower restricted to what deciding equality with "allow" needs: no
   non-ASCII code point lower-cases to one of the letters a, l, o, w *)
Definition lower_ascii (a : ascii) : ascii :=
  let n := nat_of_ascii a in
  if (Nat.leb 65 n && Nat.leb n 90)%bool then ascii_of_nat (n + 32) else a.

Fixpoint to_lower (s : string) : string :=
  match s with
  | EmptyString => EmptyString
  | String a r => String (lower_ascii a) (to_lower r)
  end.

(* validateAllowDeny: anything that is not "allow" (any case) is deny *)
Definition is_allow (v : string) : bool := String.eqb (to_lower v) "allow".

(* buildGlobalDynamic: the four values of the cross-namespace-secrets-crt, -ca,
   -passwd and cross-namespace-services keys; static = --allow-cross-namespace *)
Definition build_global_dynamic (static : bool) (vcrt vca vpasswd vsvc : string) : dyn :=
  {| d_crt := static || is_allow vcrt;
     d_ca := static || is_allow vca;
     d_passwd := static || is_allow vpasswd;
     d_svc := is_allow vsvc |}.

(* ---------- results ---------- *)

Inductive err :=
| EKey        (* malformed namespace/name *)
| ECross      (* cross-namespace reading is disabled *)
| EProto      (* unsupported protocol *)
| ENotFound   (* the object does not exist *)
| EContent    (* the object lacks the expected keys *)
| ENoFile     (* file:// names a missing file *)
| EFileSpec.  (* malformed file list *)

Inductive res :=
| ROk (ns name : string)      (* a Secret or Service ns/name was read *)
| RFile (files : list string) (* local files were used *)
| RErr (e : err).

(* buildResourceName *)
Definition build_resource_name (defns name : string) (allow : bool) : (string * string) + err :=
  match split_key name with
  | None => inr EKey
  | Some (ns, n) =>
      if String.eqb defns "" then inl (ns, n)
      else if String.eqb ns "" then inl (defns, n)
      else if allow || String.eqb ns defns then inl (ns, n)
      else inr ECross
  end.

(* getContentProtocol: the regexp is: start, one or more of a-z (captured), "://",
   any characters except newline (captured), end of text *)
Definition is_lower (a : ascii) : bool :=
  let n := nat_of_ascii a in (Nat.leb 97 n && Nat.leb n 122)%bool.

Fixpoint lower_prefix (s : string) : string * string :=
  match s with
  | EmptyString => (EmptyString, EmptyString)
  | String a r =>
      if is_lower a then let (p, q) := lower_prefix r in (String a p, q)
      else (EmptyString, s)
  end.

Definition newline : ascii := ascii_of_nat 10.

(* strings.HasPrefix + the rest *)
Fixpoint strip_prefix (p s : string) : option string :=
  match p with
  | EmptyString => Some s
  | String a p' =>
      match s with
      | String b s' => if Ascii.eqb a b then strip_prefix p' s' else None
      | EmptyString => None
      end
  end.

Definition content_protocol (s : string) : string * string :=
  let (p, r) := lower_prefix s in
  match p, strip_prefix "://" r with
  | String _ _, Some content =>
      if contains_char newline content then ("secret", s) else (p, content)
  | _, _ => ("secret", s)
  end.

(* ---------- the cluster ---------- *)

Inductive skind := KTLS | KCA | KCACRL | KAuth | KDH | KEmpty.

Record world := {
  w_secrets : list (string * string * skind);  (* namespace, name, what it holds *)
  w_services : list (string * string);
  w_backends : list (string * string * string); (* haproxy backends: namespace, service, port *)
  w_files : list string }.                       (* existing local files *)

Fixpoint find_secret (l : list (string * string * skind)) (ns n : string) : option skind :=
  match l with
  | [] => None
  | (a, b, k) :: r => if String.eqb a ns && String.eqb b n then Some k else find_secret r ns n
  end.

Definition has_service (w : world) (ns n : string) : bool :=
  existsb (fun p => String.eqb (fst p) ns && String.eqb (snd p) n) (w_services w).

Definition has_backend (w : world) (ns n port : string) : bool :=
  existsb (fun p => String.eqb (fst (fst p)) ns && String.eqb (snd (fst p)) n && String.eqb (snd p) port) (w_backends w).

Definition file_exists (w : world) (f : string) : bool := existsb (String.eqb f) (w_files w).

(* ---------- the getters; each one reads its own bit ---------- *)

Definition secret_lookup (w : world) (good : skind -> bool) (r : (string * string) + err) : res :=
  match r with
  | inr e => RErr e
  | inl (ns, n) =>
      match find_secret (w_secrets w) ns n with
      | None => RErr ENotFound
      | Some k => if good k then ROk ns n else RErr EContent
      end
  end.

Definition is_tls (k : skind) := match k with KTLS => true | _ => false end.
Definition is_ca (k : skind) := match k with KCA | KCACRL => true | _ => false end.
Definition is_auth (k : skind) := match k with KAuth => true | _ => false end.
Definition is_dh (k : skind) := match k with KDH => true | _ => false end.

Definition get_tls (d : dyn) (w : world) (defns ref : string) : res :=
  let (proto, content) := content_protocol ref in
  if String.eqb proto "file" then
    if file_exists w content then RFile [content] else RErr ENoFile
  else if negb (String.eqb proto "secret") then RErr EProto
  else secret_lookup w is_tls (build_resource_name defns content (d_crt d)).

Definition comma : ascii := ","%char.

Definition get_ca (d : dyn) (w : world) (defns ref : string) : res :=
  let (proto, content) := content_protocol ref in
  if String.eqb proto "file" then
    if String.eqb content "" then RErr EFileSpec
    else match split_on comma content with
         | [f1] => if file_exists w f1 then RFile [f1] else RErr ENoFile
         | [f1; f2] => if file_exists w f1 then
                         if file_exists w f2 then RFile [f1; f2] else RErr ENoFile
                       else RErr ENoFile
         | _ => RErr EFileSpec
         end
  else if negb (String.eqb proto "secret") then RErr EProto
  else secret_lookup w is_ca (build_resource_name defns content (d_ca d)).

(* GetDHSecretPath always allows cross-namespace reads; its only caller passes an
   empty default namespace (global ssl-dh-param) *)
Definition get_dh (d : dyn) (w : world) (defns ref : string) : res :=
  let (proto, content) := content_protocol ref in
  if String.eqb proto "file" then
    if file_exists w content then RFile [content] else RErr ENoFile
  else if negb (String.eqb proto "secret") then RErr EProto
  else secret_lookup w is_dh (build_resource_name defns content true).

Definition get_passwd (d : dyn) (w : world) (defns ref : string) : res :=
  let (proto, content) := content_protocol ref in
  if String.eqb proto "file" then
    if file_exists w content then RFile [content] else RErr ENoFile
  else if negb (String.eqb proto "secret") then RErr EProto
  else secret_lookup w is_auth (build_resource_name defns content (d_passwd d)).

Definition get_service (d : dyn) (w : world) (defns ref : string) : res :=
  match build_resource_name defns ref (d_svc d) with
  | inr e => RErr e
  | inl (ns, n) => if has_service w ns n then ROk ns n else RErr ENotFound
  end.

(* ---------- reference sites of the ingress converter ---------- *)

Inductive site_key :=
| STls          (* spec.tls[].secretName *)
| SAuthTLS      (* auth-tls-secret *)
| SSecureCrt    (* secure-crt-secret *)
| SSecureCA     (* secure-verify-ca-secret *)
| SAuthSecret   (* auth-secret *)
| SAuthURL      (* auth-url with the svc:// form, already parsed: host and port *)
| SGwBackend    (* HTTPRoute / TCPRoute rules[].backendRefs[].name (Gateway API) *)
| SGwCert       (* Gateway listeners[].tls.certificateRefs[].name (Gateway API) *)
| SBackendSvc.  (* the Service lookup of ingress.go addBackendWithClass: every backend the ingress
                   converter builds, the auth-url svc:// pre-build (addAuthURLBackend) included *)

(* st_src = namespace of the Ingress or Service that carries the reference (Source);
   None = the value comes from the global ConfigMap. For SAuthURL st_val is the host
   part of the URL ("name" or "namespace/name") and st_port its port. For the two
   Gateway API sites st_src is the namespace of the route (SGwBackend) or of the Gateway
   (SGwCert), st_val the name member of the reference and st_port its namespace member,
   which gateway.go createBackend and readCertRef do not read ("TODO implement").
   For SBackendSvc st_src is source.Namespace (the namespace of the Ingress or Service
   that declares the backend; None for the --default-backend-service source) and st_val
   the full service name "namespace/name" handed to addBackendWithClass: the code calls
   c.cache.GetService(source.Namespace, fullSvcName). *)
Record site := {
  st_key : site_key;
  st_src : option string;
  st_val : string;
  st_port : string }.

Definition src_ns (s : site) : string := match st_src s with Some n => n | None => "" end.

(* ConfigValue.NamespacedName *)
Definition namespaced_name (s : site) : option (string * string) :=
  match split_on slash (st_val s) with
  | [n] => match st_src s with Some ns => Some (ns, n) | None => None end
  | [ns; n] => Some (ns, n)
  | _ => None
  end.

(* the name of the userlist of an auth-secret reference (after the fix): the
   reference without "secret://" and without a leading "/", qualified by the source
   namespace when it has no "/", first "/" replaced by "_" *)
Definition trim_prefix (p s : string) : string :=
  match strip_prefix p s with Some r => r | None => s end.

Fixpoint replace_first_slash (s : string) : string :=
  match s with
  | EmptyString => EmptyString
  | String a r => if Ascii.eqb a slash then String "_"%char r else String a (replace_first_slash r)
  end.

Definition userlist_name (s : site) : string :=
  let v := trim_prefix "/" (trim_prefix "secret://" (st_val s)) in
  let secret_name := if contains_char slash v then v else (src_ns s ++ "/" ++ v)%string in
  replace_first_slash secret_name.

(* the userlists already in the haproxy model: name -> where its users came from *)
Definition userlists := list (string * res).

Fixpoint find_userlist (u : userlists) (n : string) : option res :=
  match u with
  | [] => None
  | (m, r) :: t => if String.eqb m n then Some r else find_userlist t n
  end.

Definition is_some_str (o : option string) : bool := match o with Some _ => true | None => false end.

(* what one site makes the converter use, and the userlists afterwards *)
Definition resolve_site (d : dyn) (w : world) (u : userlists) (s : site) : res * userlists :=
  match st_key s with
  | STls => (get_tls d w (src_ns s) (st_val s), u)
  | SAuthTLS =>
      match st_src s with
      | None => (RErr EKey, u)       (* ignored without a source *)
      | Some ns => (get_ca d w ns (st_val s), u)
      end
  | SSecureCrt =>
      match namespaced_name s with
      | None => (RErr EKey, u)
      | Some (ns, n) => (get_tls d w (src_ns s) (ns ++ "/" ++ n)%string, u)
      end
  | SSecureCA =>
      match namespaced_name s with
      | None => (RErr EKey, u)
      | Some (ns, n) => (get_ca d w (src_ns s) (ns ++ "/" ++ n)%string, u)
      end
  | SAuthSecret =>
      (* the secret is always read first; an existing userlist of that name is reused *)
      match get_passwd d w (src_ns s) (st_val s) with
      | RErr e => (RErr e, u)
      | r =>
          match find_userlist u (userlist_name s) with
          | Some r0 => (r0, u)
          | None => (r, u ++ [(userlist_name s, r)])
          end
      end
  | SAuthURL =>
      if String.eqb (st_port s) "" then (RErr EKey, u)
      else
        let parts := split_on slash (st_val s) in
        let name := match parts with [ns; n] => n | h :: _ => h | [] => "" end in
        let ns := match parts with [ns; n] => ns | _ => src_ns s end in
        if String.eqb ns "" then (RErr EKey, u)
        else if is_some_str (st_src s) && negb (String.eqb ns (src_ns s)) && negb (d_svc d) then (RErr ECross, u)
        else if has_backend w ns name (st_port s) then (ROk ns name, u)
        else (RErr ENotFound, u)
  | SGwBackend =>
      (* svcName := routeSource.namespace + "/" + back.Name; c.cache.GetService("", svcName) *)
      (get_service d w "" (src_ns s ++ "/" ++ st_val s)%string, u)
  | SGwCert =>
      (* c.cache.GetTLSSecretPath(gateway namespace, certRef.Name) *)
      (get_tls d w (src_ns s) (st_val s), u)
  | SBackendSvc =>
      (* c.cache.GetService(source.Namespace, fullSvcName) *)
      (get_service d w (src_ns s) (st_val s), u)
  end.

(* all the sites, in the order the converter visits them (the order of the backends is
   Go map iteration: a parameter), starting from the userlists [u] *)
Fixpoint resolve_all (d : dyn) (w : world) (u : userlists) (sites : list site) : list res :=
  match sites with
  | [] => []
  | s :: r => let (x, u') := resolve_site d w u s in x :: resolve_all d w u' r
  end.
