(* C18, rendered rules.  A model of the rule language the authentication part of
   rootfs/etc/templates/haproxy/haproxy.tmpl emits, with HAProxy's evaluation order, and a
   transcription of what the CURRENT template text emits:
     - the Cors block of a backend (lines "$corsCfg := $backend.PathConfig "Cors"" ...):
       set-var(txn.hdr_originN), set-var(txn.cors_max_age) ... if METH_OPTIONS <ids>,
       use-service lua.send-cors-preflight if METH_OPTIONS <ids>
     - the AuthExternal block of a backend and {{ define "authExternal" }}:
       deny | lua.auth-intercept + (deny|redirect) unless successful + set-header copies
     - {{ define "authExternalFrontend" }}: the same under { var(req.base) -m str <m> '<key>' }
   Model/AuthExt.v decides the per path configuration; this file is about what is written
   and how HAProxy runs it.  Definitions only; proofs are in Proofs/AuthRules.v. *)
From Coq Require Import ZArith NArith List Bool.
From HI Require Import Model.AuthExt.
Import ListNotations.

(* ------------------------------------------------------------------ *)
(* the rule language *)

Inductive meth := MGet | MHead | MPost | MPut | MDelete | MOptions | MOther.

Definition meth_eqb (a b : meth) : bool :=
  match a, b with
  | MGet, MGet | MHead, MHead | MPost, MPost | MPut, MPut | MDelete, MDelete
  | MOptions, MOptions | MOther, MOther => true
  | _, _ => false
  end.

(* one term of an `if` clause; the terms of a clause are ANDed *)
Inductive term :=
  | TIds (ids : list N)                 (* { var(txn.pathID) -m str id ... } *)
  | TKey (k : N)                        (* { var(req.base) -m str <method> '<key>' }: exact *)
  | TMeth (neg : bool) (ms : list meth) (* METH_OPTIONS, !METH_OPTIONS, METH_GET = GET|HEAD, { method X } *)
  | TAuthFailed                         (* !{ var(txn.auth_response_successful) -m bool } *)
  | TNotUnder (p : N)                   (* !{ path_beg <AllowedPath> } *)
  | TVarFound.                          (* { var(<copied header>) -m found } *)

Inductive xact :=
  | XDeny                   (* http-request deny                      terminal *)
  | XRedirect               (* http-request redirect location ...     terminal *)
  | XUseService             (* http-request use-service lua....       terminal, answered by the proxy *)
  | XIntercept (n : name)   (* http-request lua.auth-intercept n ...  sets txn.auth_response_successful *)
  | XSetVar                 (* http-request set-var(...)              no effect on the verdict *)
  | XSetHeader.             (* http-request set-header ...            no effect on the verdict *)

Record xrule := { x_act : xact; x_if : list term }.

(* ------------------------------------------------------------------ *)
(* requests, authentication services, evaluation *)

Record xreq := {
  xq : req;            (* routing: path, path id, exact key, prefixes (Model/AuthExt.v) *)
  xmeth : meth;
  xfound : bool }.     (* what `-m found` answers on the copied variables *)

(* what the call to the authentication service behind a name ends with *)
Inductive outcome := OOk | ONon2xx | OUnreachable | OMissing.
Definition is_ok (o : outcome) : bool := match o with OOk => true | _ => false end.

Inductive verdict := Served | Denied | AnsweredByProxy.

(* st = txn.auth_response_successful (unset = false) *)
Definition term_holds (st : bool) (q : xreq) (t : term) : bool :=
  match t with
  | TIds ids => existsb (N.eqb (q_id (xq q))) ids
  | TKey k => q_exact (xq q) && N.eqb k (q_path (xq q))
  | TMeth neg ms => xorb neg (existsb (meth_eqb (xmeth q)) ms)
  | TAuthFailed => negb st
  | TNotUnder p => negb (existsb (N.eqb p) (q_under (xq q)))
  | TVarFound => xfound q
  end.

Definition xapplies (st : bool) (q : xreq) (r : xrule) : bool := forallb (term_holds st q) (x_if r).

Inductive flow := Stop (v : verdict) | Cont (st : bool).

(* HAProxy runs the http-request rules in order; the first terminal action that applies
   ends the evaluation, the others update the transaction *)
Definition xstep (out : name -> outcome) (q : xreq) (st : bool) (r : xrule) : flow :=
  if xapplies st q r then
    match x_act r with
    | XDeny | XRedirect => Stop Denied
    | XUseService => Stop AnsweredByProxy
    | XIntercept n => Cont (is_ok (out n))
    | XSetVar | XSetHeader => Cont st
    end
  else Cont st.

Fixpoint xexec (out : name -> outcome) (q : xreq) (st : bool) (rs : list xrule) : flow :=
  match rs with
  | [] => Cont st
  | r :: rest => match xstep out q st r with
                 | Stop v => Stop v
                 | Cont st' => xexec out q st' rest
                 end
  end.

Definition eval_rules (rs : list xrule) (q : xreq) (out : name -> outcome) (st : bool) : verdict :=
  match xexec out q st rs with Stop v => v | Cont _ => Served end.

(* ------------------------------------------------------------------ *)
(* what the template emits *)

Definition cond_terms (c : cond) : list term :=
  match c with CAll => [] | CIds ids => [TIds ids] | CKey k => [TKey k] end.

Definition skip_terms (o : option N) : list term :=
  match o with None => [] | Some p => [TNotUnder p] end.

(* the fields of hatypes.AuthExternal the `auth` record folds into its tag and that shape
   the rules: number of HeadersVars, RedirectOnFail set *)
Record extra := { e_vars : nat; e_redirect : bool }.
Definition extra0 : extra := {| e_vars := 0; e_redirect := false |}.

(* {{ define "authExternal" }} *)
Definition x_auth_rules (e : extra) (a : auth) (c : cond) : list xrule :=
  if a_deny a then [ {| x_act := XDeny; x_if := cond_terms c |} ]
  else match a_name a with
       | None => []
       | Some n =>
           let tail := skip_terms (a_allowed a) ++ cond_terms c in
           {| x_act := XIntercept n; x_if := tail |} ::
           {| x_act := if e_redirect e then XRedirect else XDeny; x_if := TAuthFailed :: tail |} ::
           repeat {| x_act := XSetHeader; x_if := TVarFound :: tail |} (e_vars e)
       end.

(* hatypes.Cors of a path, as far as the request rules go *)
Record cors := {
  c_on : bool;       (* Enabled and AllowOrigin not empty *)
  c_dyn : bool;      (* AllowOriginRegex, or more than one AllowOrigin *)
  c_tag : N }.       (* the whole struct, for DeepEqual *)

Definition cors_eqb (a b : cors) : bool :=
  Bool.eqb (c_on a) (c_on b) && Bool.eqb (c_dyn a) (c_dyn b) && N.eqb (c_tag a) (c_tag b).

(* createPathConfig for any attribute *)
Fixpoint add_group_g {A} (eqb : A -> A -> bool) (id : N) (a : A) (gs : list (A * list N))
  : list (A * list N) :=
  match gs with
  | [] => [(a, [id])]
  | (b, ids) :: r =>
      if eqb a b then (b, ids ++ [id]) :: r else (b, ids) :: add_group_g eqb id a r
  end.

Definition groups_g {A} (eqb : A -> A -> bool) (cfgs : list (N * A)) : list (A * list N) :=
  fold_left (fun gs p => add_group_g eqb (fst p) (snd p) gs) cfgs [].

Definition options_only : term := TMeth false [MOptions].

Definition x_cors_group (need_acl : bool) (g : cors * list N) : list xrule :=
  if c_on (fst g) then
    (if c_dyn (fst g) then [ {| x_act := XSetVar; x_if := [] |} ] else []) ++
    flat_map (fun c => [ {| x_act := XSetVar; x_if := options_only :: cond_terms c |};
                         {| x_act := XUseService; x_if := options_only :: cond_terms c |} ])
             (group_conds need_acl (snd g))
  else [].

(* what is known of a backend when its section is written *)
Record bcfg := {
  b_auth : list (N * auth);         (* per path id, b.Paths order (Model/AuthExt.v) *)
  b_cors : list (N * cors);         (* per path id, b.Paths order *)
  b_extra : list (N * extra) }.     (* by tag of the auth configuration *)

Fixpoint assoc_n {A} (d : A) (k : N) (l : list (N * A)) : A :=
  match l with
  | [] => d
  | (k', v) :: r => if N.eqb k k' then v else assoc_n d k r
  end.

Definition x_cors_rules (b : bcfg) : list xrule :=
  let gs := groups_g cors_eqb (b_cors b) in
  flat_map (x_cors_group (1 <? length gs)%nat) gs.

Definition x_auth_group (b : bcfg) (need_acl : bool) (g : auth * list N) : list xrule :=
  flat_map (x_auth_rules (assoc_n extra0 (a_tag (fst g)) (b_extra b)) (fst g))
           (group_conds need_acl (snd g)).

Definition x_auth_block (b : bcfg) : list xrule :=
  let gs := groups (b_auth b) in
  flat_map (x_auth_group b (1 <? length gs)%nat) gs.

(* the Cors block, then the AuthExternal block, as in the template *)
Definition gen_auth_rules (b : bcfg) : list xrule := x_cors_rules b ++ x_auth_block b.

(* {{ define "authExternalFrontend" }} *)
Definition gen_frontend_rules (extras : list (N * extra)) (hcfgs : list (N * option auth)) : list xrule :=
  flat_map (fun p => match snd p with
                     | Some a => x_auth_rules (assoc_n extra0 (a_tag a) extras) a (CKey (fst p))
                     | None => []
                     end) hcfgs.

(* ------------------------------------------------------------------ *)
(* vocabulary of the statements *)

(* the authentication service of the path's own configuration accepted the client *)
Definition authenticated (out : name -> outcome) (a : auth) : Prop :=
  a_deny a = false /\ exists n, a_name a = Some n /\ out n = OOk.

(* ------------------------------------------------------------------ *)
(* txn.pathID.  The backend section starts with
     http-request set-var(txn.pathID) var(req.base),map_<m>(_back_<id>_idpath__<m>.map)
   and every per path rule tests the variable.  `m` is the content of these maps as
   (key of the host path, path id); path ids start at 1, an unset variable is 0 here. *)

Definition derive_id (m : list (N * N)) (k : N) : N := assoc_n 0%N k m.

(* the maps have an entry for every path of the backend *)
Definition ids_cover (m : list (N * N)) (ds : list pdecl) : Prop :=
  forall d, In d ds -> In (d_key d, d_id d) m.

Definition ids_coverb (m : list (N * N)) (ds : list pdecl) : bool :=
  forallb (fun d => existsb (fun e => N.eqb (fst e) (d_key d) && N.eqb (snd e) (d_id d)) m) ds.
