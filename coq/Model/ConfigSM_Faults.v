(* What happens around a failed update (C12): the retry scheduled by the reconciler, the
   reload queue, and a restart of the controller.  The update with armed fault points
   ([update_f], [fpoint]) is defined in Model/ConfigSM.v together with its phases, so that
   the fault-free update of C05 is literally [update_f e []].

   - pkg/controller/reconciler/reconciler.go Reconcile: on error RequeueAfter(ReloadRetry) with
     the same rparam: the retry is one more reconciliation whose batch holds whatever the
     watchers collected meanwhile (nothing, for the scheduled retry) and the same full/partial flag.
   - pkg/controller/services/services.go reloadHAProxy: the reload queue calls
     instance.Reload(); on error it adds itself again (AddAfter) - files are not touched.
   - a restart creates a new instance (nothing committed, nothing remembered, shardsClean
     false) over whatever the configuration directory holds, and its first reconciliation is
     a full sync. *)
From Coq Require Import NArith List Bool.
From HI Require Import Model.ConfigSM.
Import ListNotations.
Open Scope N_scope.

(* one reconciliation with faults *)
Definition step_f (e : env) (fs : list fpoint) (s : inst) (l : list op) : inst * bool :=
  update_f e fs (sync e s l).

(* a history with faults: each step is the batch's calls and the faults armed in its update *)
Definition run_f (e : env) (s : inst) (h : list (list op * list fpoint)) : inst :=
  fold_left (fun s st => fst (step_f e (snd st) s (fst st))) h s.

(* the reload queue: one firing of services.reloadHAProxy whose Reload() succeeds or not.
   lastFailed ([i_failed]) has one writer, the deferred assignment of HAProxyUpdate ([finish]):
   Reload() / updateSuccessful() only touch failedSince and the metrics, so a queued reload that
   succeeds between a failed update and its retry leaves the flag set (the correspondence
   compares the flag after every step, hook haproxy.VerifLastFailed) *)
Definition reload_once (ok : bool) (s : inst) : inst :=
  if i_pending s then
    if ok then {| i_cfg := i_cfg s; i_disk := i_disk s; i_failed := i_failed s; i_clean := i_clean s;
                  i_running := Some (i_disk s); i_pending := false |}
    else s   (* added again: still pending *)
  else s.
Definition reload_attempts (results : list bool) (s : inst) : inst :=
  fold_left (fun s ok => reload_once ok s) results s.
Definition queue_reloads (nfail : N) (s : inst) : inst :=
  reload_attempts (repeat false (N.to_nat nfail) ++ [true]) s.

(* restart of the controller over the same directory; an external haproxy keeps running *)
Definition restart (s : inst) : inst :=
  {| i_cfg := config_empty; i_disk := i_disk s; i_failed := false; i_clean := false;
     i_running := i_running s; i_pending := false |}.
