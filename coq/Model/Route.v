(* Model for C03: which servers a request (scheme, host, path) reaches.

   Implementation side (route_impl): what the ingress converter builds on a full sync and
   what the frontends do with it --
     pkg/converters/ingress/ingress.go   syncFull, sortIngress, syncDefaultBackend, syncIngressHTTP
                                          (addDefaultHostBackend, FindPathWithLink "redeclared path",
                                          addBackendWithClass, tls hosts), addEndpoints
     pkg/converters/utils/services.go    FindServicePort (as repaired by the fix: commit
                                          "service port named by the Ingress rule"), createEndpoints,
                                          matchPort, FindContainerPort
     pkg/controller/services/cache.go     GetTerminatingPods / isTerminatingPod
     pkg/haproxy/types                    Hosts.AcquireHost / Host.AddLink (first declaration of a
                                          (host, path, type) wins), Backends.AcquireBackend (identity =
                                          namespace, service, TARGET port), Backend.AcquireEndpoint
     pkg/haproxy/config.go + haproxy.tmpl HTTP map = all hosts, HTTPS map = hosts with TLS,
                                          default-host map, use_backend / default_backend / _error404
   The lookup INSIDE one host is the spec-level matcher [best_match] (exact first, then the
   longest matching path, prefix before begin, first declared): that the map files and their
   order realise it is property C04's job, not C03's.

   Specification side (spec_target, designated): written over the flat list of declarations,
   without any converter state.

   Not modelled (see props/C03.json): annotations (path-type, ssl-redirect, ssl-passthrough,
   aliases, app-root ...), wildcard hosts, ExternalName services, endpoint slices, header matches,
   resource backends, TCP services, the sort of endpoints by target (only the SET of servers and
   their drain flag are observable).  Definitions only; proofs are in Proofs/Route.v. *)
From Coq Require Import List Bool String ZArith Ascii.
Import ListNotations.
Open Scope string_scope.

(* ------------------------------------------------------------------ strings *)

Definition lower_ascii (a : ascii) : ascii :=
  let n := nat_of_ascii a in
  if (Nat.leb 65 n && Nat.leb n 90)%bool then ascii_of_nat (n + 32) else a.

Fixpoint lower (s : string) : string :=
  match s with
  | EmptyString => EmptyString
  | String a s' => String (lower_ascii a) (lower s')
  end.

(* hdr(host),field(1,:) *)
Fixpoint field1 (s : string) : string :=
  match s with
  | EmptyString => EmptyString
  | String a s' => if Ascii.eqb a ":" then EmptyString else String a (field1 s')
  end.

(* match_word strips the trailing delimiters of the pattern *)
Fixpoint strip_trailing_slashes (s : string) : string :=
  match s with
  | EmptyString => EmptyString
  | String a s' =>
      match strip_trailing_slashes s' with
      | EmptyString => if Ascii.eqb a "/" then EmptyString else String a EmptyString
      | r => String a r
      end
  end.

(* ------------------------------------------------------------------ cluster *)

Inductive ptype := Exact | Prefix | Begin.
Definition ptype_eqb (a b : ptype) : bool :=
  match a, b with
  | Exact, Exact | Prefix, Prefix | Begin, Begin => true
  | _, _ => false
  end.

(* readServiceNamePort: the port as a string (name, or the decimal number) and, when that
   string is a number, its value (strconv.ParseInt + int32 conversion, done by the harness) *)
Record portref := { pr_str : string; pr_num : option Z }.

Record ipath := { ip_path : string; ip_type : ptype; ip_svc : string; ip_port : portref }.
Record irule := { ir_host : string; ir_paths : list ipath }.
Record ingress := {
  i_stamp : Z;                                  (* creationTimestamp, seconds *)
  i_ns : string; i_name : string;
  i_valid : bool;                               (* cache.IsValidIngress (property C08) *)
  i_default : option (string * portref);        (* spec.defaultBackend *)
  i_rules : list irule;                         (* rules with an http block, in order *)
  i_tls : list string                           (* every spec.tls[].hosts[], in order *)
}.

Record sport := {
  sp_name : string; sp_port : Z;
  sp_target : string;                           (* TargetPort.String() *)
  sp_target_int : Z;                            (* TargetPort.IntValue(), 0 for a name *)
  sp_proto : string }.
Record service := { s_ns : string; s_name : string; s_ports : list sport;
                    s_selector : list (string * string) }.

Record epport := { epp_name : string; epp_port : Z; epp_tcp : bool }.
Record subset := { ss_ports : list epport; ss_ready : list string; ss_notready : list string }.
Record endpoints := { e_ns : string; e_name : string; e_subsets : list subset }.

Record cport := { cp_name : string; cp_proto : string; cp_port : Z }.
Record pod := { pod_ns : string; pod_labels : list (string * string); pod_ip : string;
                pod_terminating : bool;          (* deletionTimestamp set, not NodeLost, has an IP *)
                pod_ports : list cport }.

Record cluster := {
  c_ingresses : list ingress;
  c_services : list service;
  c_endpoints : list endpoints;
  c_pods : list pod;
  c_default_backend : option (string * string);  (* --default-backend-service ns, name *)
  c_drain : bool                                  (* global drain-support *)
}.

Definition target := (string * Z)%type.           (* ip, port *)
Record server := { sv_ip : string; sv_port : Z; sv_drain : bool (* weight 0 *) }.

Definition target_eqb (a b : target) : bool := (fst a =? fst b) && (snd a =? snd b)%Z.
Definition sv_target (s : server) : target := (sv_ip s, sv_port s).

(* ------------------------------------------------------------------ services and endpoints *)

Definition find_service (c : cluster) (ns name : string) : option service :=
  find (fun s => (s_ns s =? ns) && (s_name s =? name)) (c_services c).

Definition find_endpoints (c : cluster) (ns name : string) : option endpoints :=
  find (fun e => (e_ns e =? ns) && (e_name e =? name)) (c_endpoints c).

(* convutils.FindServicePort after the fix: the Service port with that name; else the Service
   port with that number; else (legacy, documented for auth-url) the port whose targetPort
   reads like that. *)
Definition find_service_port (svc : service) (r : portref) : option sport :=
  match find (fun p => sp_name p =? pr_str r) (s_ports svc) with
  | Some p => Some p
  | None =>
      match match pr_num r with
            | Some n => find (fun p => (sp_port p =? n)%Z) (s_ports svc)
            | None => None
            end with
      | Some p => Some p
      | None => find (fun p => sp_target p =? pr_str r) (s_ports svc)
      end
  end.

(* matchPort *)
Definition match_port (sp : sport) (ep : epport) : bool :=
  epp_tcp ep && ((sp_name sp =? "") || (sp_name sp =? epp_name ep)).

(* createEndpoints: ready / notReady targets of a service port *)
Definition ep_targets (sel : subset -> list string) (e : endpoints) (sp : sport) : list target :=
  flat_map (fun ss =>
    flat_map (fun epp => if match_port sp epp then map (fun ip => (ip, epp_port epp)) (sel ss) else [])
             (ss_ports ss)) (e_subsets e).

(* isTerminatingPod's selector test (labels are a map: keys unique) *)
Definition selects (sel labels : list (string * string)) : bool :=
  forallb (fun kv => existsb (fun kv' => (fst kv =? fst kv') && (snd kv =? snd kv')) labels) sel.

(* convutils.FindContainerPort *)
Definition container_port (p : pod) (sp : sport) : Z :=
  if (0 <? sp_target_int sp)%Z then sp_target_int sp
  else match find (fun cp => (cp_proto cp =? sp_proto sp) && (cp_name cp =? sp_target sp)) (pod_ports p) with
       | Some cp => cp_port cp
       | None => 0%Z
       end.

(* GetTerminatingPods + the loop of addEndpoints over them *)
Definition term_targets (c : cluster) (svc : service) (sp : sport) : list target :=
  flat_map (fun p =>
    if (pod_ns p =? s_ns svc) && selects (s_selector svc) (pod_labels p) && pod_terminating p
    then let tp := container_port p sp in if (0 <? tp)%Z then [(pod_ip p, tp)] else []
    else []) (c_pods c).

(* Backend.AcquireEndpoint(ip, port): the endpoint with that target if there is one, else a new
   one at the end; `drain` = the caller then sets Weight = 0 on what it got *)
Fixpoint mark_drain (t : target) (l : list server) : list server :=
  match l with
  | [] => []
  | s :: l' => if target_eqb t (sv_target s)
               then {| sv_ip := sv_ip s; sv_port := sv_port s; sv_drain := true |} :: l'
               else s :: mark_drain t l'
  end.

Definition acquire (drain : bool) (l : list server) (t : target) : list server :=
  if existsb (fun s => target_eqb t (sv_target s)) l
  then (if drain then mark_drain t l else l)
  else l ++ [{| sv_ip := fst t; sv_port := snd t; sv_drain := drain |}].

(* addEndpoints: no Endpoints object = error = no server at all *)
Definition servers_of (c : cluster) (svc : service) (sp : sport) : list server :=
  match find_endpoints c (s_ns svc) (s_name svc) with
  | None => []
  | Some e =>
      let l := fold_left (acquire false) (ep_targets ss_ready e sp) [] in
      if c_drain c
      then fold_left (acquire true) (ep_targets ss_notready e sp ++ term_targets c svc sp) l
      else l
  end.

(* ------------------------------------------------------------------ declarations *)

(* one (host, path, type) -> service:port declaration of an ingress; host None = default host *)
Record decl := { d_host : option string; d_path : string; d_type : ptype;
                 d_ns : string; d_svc : string; d_port : portref }.

Definition norm_host (h : string) : option string := if h =? "" then None else Some h.
Definition norm_path (p : string) : string := if p =? "" then "/" else p.

(* syncIngressHTTP: spec.defaultBackend first (addDefaultHostBackend: default host, "/", begin),
   then the paths of the rules in order *)
Definition decls_of (i : ingress) : list decl :=
  (match i_default i with
   | Some (svc, pr) => [{| d_host := None; d_path := "/"; d_type := Begin;
                           d_ns := i_ns i; d_svc := svc; d_port := pr |}]
   | None => []
   end) ++
  flat_map (fun r => map (fun p => {| d_host := norm_host (ir_host r); d_path := norm_path (ip_path p);
                                      d_type := ip_type p; d_ns := i_ns i; d_svc := ip_svc p;
                                      d_port := ip_port p |}) (ir_paths r)) (i_rules i).

Definition ohost_eqb (a b : option string) : bool :=
  match a, b with
  | None, None => true
  | Some x, Some y => x =? y
  | _, _ => false
  end.

(* PathLink.Equals without header matches: hostname, path, match type *)
Definition key_eqb (a b : decl) : bool :=
  ohost_eqb (d_host a) (d_host b) && (d_path a =? d_path b) && ptype_eqb (d_type a) (d_type b).

(* GetService + FindServicePort of addBackendWithClass *)
Definition resolve (c : cluster) (d : decl) : option (service * sport) :=
  match find_service c (d_ns d) (d_svc d) with
  | None => None
  | Some svc => match find_service_port svc (d_port d) with
                | None => None
                | Some sp => Some (svc, sp)
                end
  end.
Definition resolves (c : cluster) (d : decl) : bool :=
  match resolve c d with Some _ => true | None => false end.

(* ------------------------------------------------------------------ ingress order *)

Definition full_name (i : ingress) : string := i_ns i ++ "/" ++ i_name i.

(* sortIngress's less, as "less or equal" *)
Definition ing_leb (a b : ingress) : bool :=
  (i_stamp a <? i_stamp b)%Z || ((i_stamp a =? i_stamp b)%Z && String.leb (full_name a) (full_name b)).

Fixpoint insert_ing (x : ingress) (l : list ingress) : list ingress :=
  match l with
  | [] => [x]
  | y :: l' => if ing_leb x y then x :: l else y :: insert_ing x l'
  end.
Definition sort_ings (l : list ingress) : list ingress := fold_right insert_ing [] l.

(* GetIngressList (valid ones) + sortIngress *)
Definition sorted_ingresses (c : cluster) : list ingress :=
  sort_ings (filter i_valid (c_ingresses c)).

(* ------------------------------------------------------------------ converter state *)

Definition bkey := (string * string * string)%type.      (* namespace, service, target port *)
Definition bkey_eqb (a b : bkey) : bool :=
  (fst (fst a) =? fst (fst b)) && (snd (fst a) =? snd (fst b)) && (snd a =? snd b).
Definition key_of (svc : service) (sp : sport) : bkey := (s_ns svc, s_name svc, sp_target sp).

Record state := {
  st_paths : list (decl * bkey);            (* every host's paths, in the order they were added *)
  st_backs : list (bkey * list server);     (* backends with the servers they were created with *)
  st_tls : list string;                     (* hosts that got a certificate *)
  st_default : option bkey                  (* Backends().DefaultBackend *)
}.

Definition lookup_back (k : bkey) (bs : list (bkey * list server)) : option (list server) :=
  match find (fun b => bkey_eqb k (fst b)) bs with
  | Some b => Some (snd b)
  | None => None
  end.

(* AcquireBackend + the `if !found` block of addBackendWithClass: servers are computed when the
   backend is created and never again *)
Definition acquire_backend (c : cluster) (bs : list (bkey * list server)) (svc : service) (sp : sport)
  : list (bkey * list server) :=
  match lookup_back (key_of svc sp) bs with
  | Some _ => bs
  | None => bs ++ [(key_of svc sp, servers_of c svc sp)]
  end.

(* one path of a rule (or the ingress default backend): skipped when that (host, path, type)
   is already there, skipped when the service or the port cannot be found *)
Definition add_decl (c : cluster) (st : state) (d : decl) : state :=
  if existsb (fun x => key_eqb d (fst x)) (st_paths st) then st
  else match resolve c d with
       | None => st
       | Some (svc, sp) =>
           {| st_paths := st_paths st ++ [(d, key_of svc sp)];
              st_backs := acquire_backend c (st_backs st) svc sp;
              st_tls := st_tls st;
              st_default := st_default st |}
       end.

Definition sync_ingress (c : cluster) (st : state) (i : ingress) : state :=
  let st' := fold_left (add_decl c) (decls_of i) st in
  {| st_paths := st_paths st'; st_backs := st_backs st';
     st_tls := st_tls st' ++ i_tls i;     (* a host named by a tls block always gets a certificate:
                                             the secret's, or the default one *)
     st_default := st_default st' |}.

(* syncDefaultBackend: the first port of the service *)
Definition init_state (c : cluster) : state :=
  let empty := {| st_paths := []; st_backs := []; st_tls := []; st_default := None |} in
  match c_default_backend c with
  | None => empty
  | Some (ns, name) =>
      match find_service c ns name with
      | None => empty
      | Some svc =>
          match s_ports svc with
          | [] => empty
          | sp :: _ => {| st_paths := []; st_backs := [(key_of svc sp, servers_of c svc sp)];
                          st_tls := []; st_default := Some (key_of svc sp) |}
          end
      end
  end.

Definition sync_full (c : cluster) : state :=
  fold_left (sync_ingress c) (sorted_ingresses c) (init_state c).

(* ------------------------------------------------------------------ matching inside a host *)

Definition path_matches (t : ptype) (declared requested : string) : bool :=
  match t with
  | Exact => declared =? requested
  | Prefix => let p := strip_trailing_slashes declared in
              (requested =? p) || prefix (p ++ "/") requested
  | Begin => prefix (lower declared) (lower requested)
  end.

(* strictly better candidate: exact; then the longer declared path; then prefix before begin *)
Definition is_exact (d : decl) : bool := ptype_eqb (d_type d) Exact.
Definition is_prefix (d : decl) : bool := ptype_eqb (d_type d) Prefix.
Definition better (a b : decl) : bool :=   (* a strictly better than b *)
  if is_exact a then negb (is_exact b)
  else if is_exact b then false
  else if Nat.ltb (String.length (d_path b)) (String.length (d_path a)) then true
  else if Nat.ltb (String.length (d_path a)) (String.length (d_path b)) then false
  else is_prefix a && negb (is_prefix b).

(* the best of a list, the earliest among equally good ones *)
Definition best_step {A} (proj : A -> decl) (acc : option A) (x : A) : option A :=
  match acc with
  | None => Some x
  | Some a => if better (proj x) (proj a) then Some x else Some a
  end.
Definition best {A} (proj : A -> decl) (l : list A) : option A := fold_left (best_step proj) l None.

(* ------------------------------------------------------------------ requests *)

Record request := { rq_https : bool; rq_host : string; rq_path : string }.
Definition req_host (r : request) : string := lower (field1 (rq_host r)).

Inductive outcome := Serve (srv : list server) | NotFound.

(* which declarations a frontend looks at for the request's own host: the HTTP map holds every
   host, the HTTPS map only the hosts with TLS *)
Definition host_visible (tls : list string) (r : request) (d : decl) : bool :=
  match d_host d with
  | Some h => (lower h =? req_host r) && (negb (rq_https r) || existsb (String.eqb h) tls)
  | None => false
  end.
Definition default_visible (d : decl) : bool :=
  match d_host d with None => true | Some _ => false end.

Definition serve_back (st : state) (k : bkey) : outcome :=
  match lookup_back k (st_backs st) with
  | Some srv => Serve srv
  | None => NotFound
  end.

(* frontends: host map; else default-host map; else default_backend; else _error404 *)
Definition route (st : state) (r : request) : outcome :=
  let sel f := filter (fun x => f (fst x) && path_matches (d_type (fst x)) (d_path (fst x)) (rq_path r))
                      (st_paths st) in
  match best fst (sel (host_visible (st_tls st) r)) with
  | Some x => serve_back st (snd x)
  | None =>
      match best fst (sel default_visible) with
      | Some x => serve_back st (snd x)
      | None =>
          match st_default st with
          | Some k => serve_back st k
          | None => NotFound
          end
      end
  end.

Definition route_impl (c : cluster) (r : request) : outcome := route (sync_full c) r.

(* ------------------------------------------------------------------ specification *)

(* all declarations of the valid ingresses, ingresses in (creation, namespace/name) order *)
Definition all_decls (c : cluster) : list decl := flat_map decls_of (sorted_ingresses c).

(* a declaration counts when its service port exists and no EARLIER declaration whose service
   port exists claims the same (host, path, type) *)
Definition effectiveb (c : cluster) (earlier : list decl) (d : decl) : bool :=
  resolves c d && negb (existsb (fun d' => resolves c d' && key_eqb d d') earlier).

Fixpoint winners (c : cluster) (earlier rest : list decl) : list decl :=
  match rest with
  | [] => []
  | d :: rest' => (if effectiveb c earlier d then [d] else []) ++ winners c (earlier ++ [d]) rest'
  end.
Definition effective_decls (c : cluster) : list decl := winners c [] (all_decls c).

(* hosts named by a tls block of a valid ingress *)
Definition tls_hosts (c : cluster) : list string := flat_map i_tls (sorted_ingresses c).

Inductive starget :=
| TDecl (d : decl)          (* the rule selected for the request *)
| TDefaultBackend           (* --default-backend-service *)
| TNotFound.

Definition default_backend_port (c : cluster) : option (service * sport) :=
  match c_default_backend c with
  | None => None
  | Some (ns, name) =>
      match find_service c ns name with
      | None => None
      | Some svc => match s_ports svc with [] => None | sp :: _ => Some (svc, sp) end
      end
  end.

Definition spec_target (c : cluster) (r : request) : starget :=
  let cands f := filter (fun d => f d && path_matches (d_type d) (d_path d) (rq_path r)) (effective_decls c) in
  match best (fun d => d) (cands (host_visible (tls_hosts c) r)) with
  | Some d => TDecl d
  | None =>
      match best (fun d => d) (cands default_visible) with
      | Some d => TDecl d
      | None => match default_backend_port c with Some _ => TDefaultBackend | None => TNotFound end
      end
  end.

(* the servers a service port designates: (ip, port, draining) *)
Definition ready_at (c : cluster) (svc : service) (sp : sport) (t : target) : Prop :=
  exists e, find_endpoints c (s_ns svc) (s_name svc) = Some e /\ In t (ep_targets ss_ready e sp).
Definition notready_at (c : cluster) (svc : service) (sp : sport) (t : target) : Prop :=
  exists e, find_endpoints c (s_ns svc) (s_name svc) = Some e /\ In t (ep_targets ss_notready e sp).
Definition terminating_at (c : cluster) (svc : service) (sp : sport) (t : target) : Prop :=
  (exists e, find_endpoints c (s_ns svc) (s_name svc) = Some e) /\ In t (term_targets c svc sp).

(* a ready endpoint is a normal server; with drain-support a not-ready or terminating one is a
   weight-0 server (also when it is listed as ready too); without drain-support they do not appear *)
Definition designated (c : cluster) (svc : service) (sp : sport) (s : server) : Prop :=
  let t := sv_target s in
  let draining := c_drain c = true /\ (notready_at c svc sp t \/ terminating_at c svc sp t) in
  (sv_drain s = false /\ ready_at c svc sp t /\ ~ draining) \/ (sv_drain s = true /\ draining).

(* two ports of one service that share the target port share the backend section *)
Definition ports_consistent (c : cluster) : Prop :=
  forall svc p q, In svc (c_services c) -> In p (s_ports svc) -> In q (s_ports svc) ->
    sp_target p = sp_target q -> servers_of c svc p = servers_of c svc q.

(* names used by the statements *)
Definition dkey (d : decl) := (d_host d, d_path d, d_type d).          (* what "the same path" means *)
Definition ing_le (a b : ingress) : Prop := ing_leb a b = true.         (* (creation, namespace/name) order *)

(* ------------------------------------------------------------------ the statement of C03 *)

(* the request is answered by exactly the servers that the service port designates *)
Definition reaches (c : cluster) (r : request) (svc : service) (sp : sport) : Prop :=
  exists srv, route_impl c r = Serve srv /\ forall s, In s srv <-> designated c svc sp s.

(* C03 for one request: the rule the documented matching selects decides the service port (the
   one the rule names); else the default host; else the default backend (first port); else 404 *)
Definition route_full_spec_at (c : cluster) (r : request) : Prop :=
  match spec_target c r with
  | TDecl d => exists svc sp, resolve c d = Some (svc, sp) /\ reaches c r svc sp
  | TDefaultBackend => exists svc sp, default_backend_port c = Some (svc, sp) /\ reaches c r svc sp
  | TNotFound => route_impl c r = NotFound
  end.
