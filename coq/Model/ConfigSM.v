(* Model of the changed-set bookkeeping that decides which files an update rewrites:
     pkg/haproxy/types/backends.go  Backends: items, itemsAdd, itemsDel, changedShards;
                                    Clear, RemoveAll, AcquireBackend, Shrink, Commit, ChangeAll
     pkg/haproxy/types/host.go      Hosts: items, itemsAdd, itemsDel; RemoveAll, AcquireHost, Shrink, Commit
     pkg/haproxy/types/tcpservices.go  TCPServices: items, changed
     pkg/haproxy/config.go          Clear, Shrink, Commit, changeAll, WriteTCPServicesMaps,
                                    WriteFrontendMaps (+ rootRedirectBackendChanged), WriteBackendMaps
     pkg/haproxy/dynupdate.go       update / checkConfigChange, reduced to "is this update a no-op"
     pkg/haproxy/instance.go        HAProxyUpdate (deferred Commit, lastFailed), writeCrtLists,
                                    writeConfig (main file always, shards only ChangedShards), Reload
   as they are after the fix commits c6e0f62, f296c05, 742b5de (C05), 348fb25, 7d37a3e (C12) and d8ef0ec (default backend moved to an existing backend).
   Backends.PathsChanged (eddac89: a path added in place by strict-host; d265498: a server alias
   that moved from one host to another) is left out: strict-host is off and no two hosts ask
   for the same alias in the histories the model is compared on.

   Go maps are finite partial functions [N -> option _]; the places where the code ranges
   over a map (Shrink, Clear, Changed ...) quantify over an explicit finite universe of
   names (UB, UH, UT), which every name used by a history must belong to.
   A backend's shard is a parameter [sh] (the code: md5 of the id, xor of both halves, mod
   the shard count); the harness recomputes it independently and the theorems hold for
   every assignment.
   Contents are abstract: [bver]/[hver] stand for everything reflect.DeepEqual looks at
   that is not listed besides it.  Definitions only; proofs are in Proofs/ConfigSM*.v. *)
From Coq Require Import NArith List Bool.
Import ListNotations.
Open Scope N_scope.

(* ---------------------------------------------------------------- finite maps *)

Definition fmap (A : Type) := N -> option A.
Definition fempty {A} : fmap A := fun _ => None.
Definition fset {A} (m : fmap A) (k : N) (v : A) : fmap A := fun x => if x =? k then Some v else m x.
Definition fdel {A} (m : fmap A) (k : N) : fmap A := fun x => if x =? k then None else m x.
Definition isSome {A} (o : option A) : bool := match o with Some _ => true | None => false end.
Definition flag (c : N -> bool) (j : N) : N -> bool := fun x => (x =? j) || c x.

(* ---------------------------------------------------------------- contents *)

(* a backend: [bpaths] = (host, path) keys of its paths (what its idpath maps hold);
   [bacl] = NeedACL (its paths carry more than one configuration, so it has maps);
   [brssl] = hosts whose root path, served here, has ssl-redirect *)
Record bcont := { bver : N; bacl : bool; bpaths : list (N * N); brssl : list N }.
(* a host: [hpaths] = (path, backend); path 0 is "/"; [halias] = the other names it answers to
   (server-alias, server-alias-regex): keys of the frontend maps and of the idpath maps of its
   backends, and part of no backend *)
Record hcont := { hver : N; htls : bool; hpaths : list (N * N); halias : list N }.
(* a tcp service (hostname:port); its name t encodes the port as t mod 10 *)
Record tcont := { tback : N; ttls : bool }.

Fixpoint list_eqb {A} (e : A -> A -> bool) (a b : list A) : bool :=
  match a, b with
  | [], [] => true
  | x :: a', y :: b' => e x y && list_eqb e a' b'
  | _, _ => false
  end.
Definition pair_eqb (p q : N * N) : bool := (fst p =? fst q) && (snd p =? snd q).
Definition bcont_eqb (a b : bcont) : bool :=
  (bver a =? bver b) && Bool.eqb (bacl a) (bacl b) && list_eqb pair_eqb (bpaths a) (bpaths b) && list_eqb N.eqb (brssl a) (brssl b).
Definition hcont_eqb (a b : hcont) : bool :=
  (hver a =? hver b) && Bool.eqb (htls a) (htls b) && list_eqb pair_eqb (hpaths a) (hpaths b) &&
  list_eqb N.eqb (halias a) (halias b).

Definition optN_eqb (a b : option N) : bool :=
  match a, b with Some x, Some y => x =? y | None, None => true | _, _ => false end.
Definition hroot (c : hcont) : option N :=
  match find (fun p : N * N => fst p =? 0) (hpaths c) with Some p => Some (snd p) | None => None end.
Definition tport (t : N) : N := t mod 10.

(* ---------------------------------------------------------------- environment *)

Record env := {
  nsh : N;            (* --backend-shards *)
  sh : N -> N;        (* shard of a backend name *)
  UB : list N;        (* universes of backend, host and tcp service names *)
  UH : list N;
  UT : list N;
  inline : bool       (* true: HAProxyUpdate reloads itself; false: through the reload queue *)
}.
Definition ports (e : env) : list N := map tport (UT e).

(* ---------------------------------------------------------------- Backends *)

Record backends := {
  b_items : fmap bcont; b_add : fmap bcont; b_del : fmap bcont;
  b_chg : N -> bool;          (* changedShards *)
  b_def : option N;           (* DefaultBackend *)
  b_defc : option N           (* defaultBackendCommitted: the default backend at the last Commit *)
}.
Definition backs_empty : backends :=
  {| b_items := fempty; b_add := fempty; b_del := fempty; b_chg := fun _ => false; b_def := None; b_defc := None |}.

(* Clear: a new struct whose itemsDel are the old items; the shards that held a backend are flagged *)
Definition backs_clear (e : env) (b : backends) : backends :=
  {| b_items := fempty; b_add := fempty; b_del := b_items b;
     b_chg := fun j => (j <? nsh e) && existsb (fun x => isSome (b_items b x) && (sh e x =? j)) (UB e);
     b_def := None; b_defc := None |}.

Definition backs_remove1 (e : env) (b : backends) (x : N) : backends :=
  match b_items b x with
  | Some c =>
    {| b_items := fdel (b_items b) x; b_add := b_add b; b_del := fset (b_del b) x c;
       b_chg := flag (b_chg b) (sh e x);
       b_def := match b_def b with Some d => if d =? x then None else Some d | None => None end;
       b_defc := b_defc b |}
  | None => b
  end.
Definition backs_remove (e : env) (b : backends) (l : list N) : backends := fold_left (backs_remove1 e) l b.

Definition backs_acquire (e : env) (b : backends) (x : N) (c : bcont) : backends :=
  match b_items b x with
  | Some _ => b
  | None =>
    {| b_items := fset (b_items b) x c; b_add := fset (b_add b) x c; b_del := b_del b;
       b_chg := flag (b_chg b) (sh e x); b_def := b_def b; b_defc := b_defc b |}
  end.

(* Shrink: len(add.Endpoints) <= len(del.Endpoints) && backendsMatch(add, del).  backendsMatch
   copies PathsMap, pathConfig and Endpoints but not PathsDefaultHostMap, which WriteBackendMaps
   sets on every backend that needs maps: such a backend never matches, stays in itemsAdd and
   has its maps written again - which the files rely on, since those maps also hold keys that
   come from the hosts (see [bmap_keys]) and a host may change while the backend does not. *)
Definition bmatch (b : backends) (x : N) : bool :=
  match b_del b x, b_add b x with
  | Some d, Some a => bcont_eqb a d && negb (bacl d)
  | _, _ => false
  end.
Definition backs_shrink (e : env) (b : backends) : backends :=
  let m := bmatch b in
  let add' := fun x => if m x then None else b_add b x in
  let del' := fun x => if m x then None else b_del b x in
  {| b_items := fun x => if m x then b_del b x else b_items b x;
     b_add := add'; b_del := del';
     b_chg := if existsb m (UB e)
              then fun j => existsb (fun x => (isSome (add' x) || isSome (del' x)) && (sh e x =? j)) (UB e)
              else b_chg b;
     b_def := b_def b; b_defc := b_defc b |}.
Definition backs_commit (b : backends) : backends :=
  {| b_items := b_items b; b_add := fempty; b_del := fempty; b_chg := fun _ => false; b_def := b_def b;
     b_defc := b_def b |}.
Definition backs_change_all (e : env) (b : backends) : backends :=
  {| b_items := b_items b;
     b_add := fun x => match b_items b x with Some c => Some c | None => b_add b x end;
     b_del := b_del b;
     b_chg := fun j => (j <? nsh e) || b_chg b j;
     b_def := b_def b; b_defc := b_defc b |}.
Definition backs_changed (e : env) (b : backends) : bool :=
  existsb (fun x => isSome (b_add b x) || isSome (b_del b x)) (UB e).

(* ---------------------------------------------------------------- Hosts *)

Record hosts := { h_items : fmap hcont; h_add : fmap hcont; h_del : fmap hcont }.
Definition hosts_empty : hosts := {| h_items := fempty; h_add := fempty; h_del := fempty |}.
Definition hosts_remove1 (h : hosts) (x : N) : hosts :=
  match h_items h x with
  | Some c => {| h_items := fdel (h_items h) x; h_add := h_add h; h_del := fset (h_del h) x c |}
  | None => h
  end.
Definition hosts_remove (h : hosts) (l : list N) : hosts := fold_left hosts_remove1 l h.
Definition hosts_acquire (h : hosts) (x : N) (c : hcont) : hosts :=
  match h_items h x with
  | Some _ => h
  | None => {| h_items := fset (h_items h) x c; h_add := fset (h_add h) x c; h_del := h_del h |}
  end.
Definition hmatch (h : hosts) (x : N) : bool :=
  match h_del h x, h_add h x with
  | Some d, Some a => hcont_eqb a d
  | _, _ => false
  end.
Definition hosts_shrink (h : hosts) : hosts :=
  let m := hmatch h in
  {| h_items := fun x => if m x then h_del h x else h_items h x;
     h_add := fun x => if m x then None else h_add h x;
     h_del := fun x => if m x then None else h_del h x |}.
Definition hosts_commit (h : hosts) : hosts := {| h_items := h_items h; h_add := fempty; h_del := fempty |}.
Definition hosts_changed (e : env) (h : hosts) : bool :=
  existsb (fun x => isSome (h_add h x) || isSome (h_del h x)) (UH e).

(* ---------------------------------------------------------------- TCPServices *)

Record tcps := { t_items : fmap tcont; t_chg : bool }.
Definition tcps_empty : tcps := {| t_items := fempty; t_chg := false |}.
Definition tcps_remove1 (t : tcps) (x : N) : tcps :=
  match t_items t x with
  | Some _ => {| t_items := fdel (t_items t) x; t_chg := true |}
  | None => t
  end.
Definition tcps_remove (t : tcps) (l : list N) : tcps := fold_left tcps_remove1 l t.
Definition tcps_acquire (t : tcps) (x : N) (c : tcont) : tcps :=
  match t_items t x with
  | Some _ => t
  | None => {| t_items := fset (t_items t) x c; t_chg := true |}
  end.

(* ---------------------------------------------------------------- config *)

(* what the frontend maps were last built from (frontend.Maps; the main file refers to the
   map files through it) *)
Record fsnap := { fs_hosts : fmap hcont; fs_rssl : N -> bool }.

Record config := {
  c_b : backends; c_h : hosts; c_t : tcps;
  c_glob : N; c_globold : option N;
  c_fmaps : option fsnap
}.
Definition config_empty : config :=
  {| c_b := backs_empty; c_h := hosts_empty; c_t := tcps_empty; c_glob := 0; c_globold := None; c_fmaps := None |}.

(* config.Clear: everything new, except that the backends remember the old items *)
Definition config_clear (e : env) (c : config) : config :=
  {| c_b := backs_clear e (c_b c); c_h := hosts_empty; c_t := tcps_empty;
     c_glob := 0; c_globold := None; c_fmaps := None |}.

Definition with_b (c : config) (b : backends) : config :=
  {| c_b := b; c_h := c_h c; c_t := c_t c; c_glob := c_glob c; c_globold := c_globold c; c_fmaps := c_fmaps c |}.
Definition with_h (c : config) (h : hosts) : config :=
  {| c_b := c_b c; c_h := h; c_t := c_t c; c_glob := c_glob c; c_globold := c_globold c; c_fmaps := c_fmaps c |}.
Definition with_t (c : config) (t : tcps) : config :=
  {| c_b := c_b c; c_h := c_h c; c_t := t; c_glob := c_glob c; c_globold := c_globold c; c_fmaps := c_fmaps c |}.

(* the calls the converters make between two updates *)
Inductive op :=
| OClear
| OGlobal (v : N)
| OTcpRemove (l : list N)
| OHostsRemove (l : list N)
| OBacksRemove (l : list N)
| OBackAcquire (x : N) (c : bcont)
| OHostAcquire (x : N) (c : hcont)
| OTcpAcquire (x : N) (c : tcont)
| ODefault (d : option N).

Definition apply_op (e : env) (c : config) (o : op) : config :=
  match o with
  | OClear => config_clear e c
  | OGlobal v => {| c_b := c_b c; c_h := c_h c; c_t := c_t c; c_glob := v; c_globold := c_globold c; c_fmaps := c_fmaps c |}
  | OTcpRemove l => with_t c (tcps_remove (c_t c) l)
  | OHostsRemove l => with_h c (hosts_remove (c_h c) l)
  | OBacksRemove l => with_b c (backs_remove e (c_b c) l)
  | OBackAcquire x bc => with_b c (backs_acquire e (c_b c) x bc)
  | OHostAcquire x hc => with_h c (hosts_acquire (c_h c) x hc)
  | OTcpAcquire x tc => with_t c (tcps_acquire (c_t c) x tc)
  | ODefault d =>
    with_b c {| b_items := b_items (c_b c); b_add := b_add (c_b c); b_del := b_del (c_b c);
                b_chg := b_chg (c_b c); b_def := d; b_defc := b_defc (c_b c) |}
  end.
Definition apply_ops (e : env) (c : config) (l : list op) : config := fold_left (apply_op e) l c.

Definition config_shrink (e : env) (c : config) : config :=
  with_h (with_b c (backs_shrink e (c_b c))) (hosts_shrink (c_h c)).
Definition config_commit (c : config) : config :=
  {| c_b := backs_commit (c_b c); c_h := hosts_commit (c_h c);
     c_t := {| t_items := t_items (c_t c); t_chg := false |};
     c_glob := c_glob c; c_globold := Some (c_glob c); c_fmaps := c_fmaps c |}.
(* changeAll: what a failed update asks the next one to do *)
Definition config_change_all (e : env) (c : config) : config :=
  {| c_b := backs_change_all e (c_b c); c_h := c_h c;
     c_t := {| t_items := t_items (c_t c); t_chg := true |};
     c_glob := c_glob c; c_globold := None; c_fmaps := None |}.

(* ssl-redirect of the root path of host h, read from the backend that serves it *)
Definition rssl (c : config) (h : N) : bool :=
  match h_items (c_h c) h with
  | Some hc =>
    match hroot hc with
    | Some b => match b_items (c_b c) b with Some bc => existsb (N.eqb h) (brssl bc) | None => false end
    | None => false
    end
  | None => false
  end.
(* rootRedirectBackendChanged *)
Definition rootdep_changed (e : env) (c : config) : bool :=
  backs_changed e (c_b c) &&
  existsb (fun h => match h_items (c_h c) h with
                    | Some hc => match hroot hc with Some b => isSome (b_add (c_b c) b) | None => false end
                    | None => false end) (UH e).

(* dynUpdater.update(), for configurations without dynamic-scaling and without a change that
   touches only a certificate: true = "old and new configurations match", nothing is written *)
Definition updated (e : env) (c : config) : bool :=
  match c_globold c with
  | Some g =>
    (g =? c_glob c) && negb (t_chg (c_t c)) && negb (hosts_changed e (c_h c)) &&
    optN_eqb (b_defc (c_b c)) (b_def (c_b c)) &&                     (* DefaultBackendChanged *)
    forallb (fun x => match b_add (c_b c) x, b_del (c_b c) x with
                      | Some a, Some d => bcont_eqb a d      (* checkBackendPair *)
                      | Some _, None => false                (* added backend *)
                      | None, Some _ => false                (* removed backend *)
                      | None, None => true
                      end) (UB e)
  | None => false
  end.

(* ---------------------------------------------------------------- files *)

Record mainc := {
  m_glob : N;
  m_backs : fmap bcont;         (* backend sections of the main file (no sharding) *)
  m_def : option N;             (* default_backend *)
  m_tcp : fmap tcont;           (* tcp frontends *)
  m_fs : option fsnap           (* frontend.Maps it was rendered with: which map files it refers to *)
}.

Record disk := {
  d_main : option mainc;
  d_shard : N -> option (fmap bcont);      (* haproxy5-backendJJJ.cfg *)
  d_crt : option (fmap hcont);             (* _front_bind_crt.list *)
  d_hostmap : option (fmap hcont);         (* _front_http(s)_host__*.map *)
  d_rootredir : option (fmap hcont);       (* _front_redir_fromroot__*.map *)
  d_rootssl : option (N -> bool);          (* _front_redir_root_ssl__*.map *)
  d_backmap : N -> option (list (N * N));  (* _back_<id>_idpath__*.map *)
  d_tcpmap : N -> option (fmap tcont);     (* _tcp_sni_<port>__*.map *)
  d_tcpcrt : N -> option (fmap tcont)      (* crtlist_tcp_<port>.list *)
}.
Definition disk_empty : disk :=
  {| d_main := None; d_shard := fun _ => None; d_crt := None; d_hostmap := None; d_rootredir := None;
     d_rootssl := None; d_backmap := fun _ => None; d_tcpmap := fun _ => None; d_tcpcrt := fun _ => None |}.

Definition restrict_shard (e : env) (items : fmap bcont) (j : N) : fmap bcont :=
  fun x => if sh e x =? j then items x else None.
Definition restrict_port (items : fmap tcont) (p : N) : fmap tcont :=
  fun t => if tport t =? p then items t else None.
Definition port_used (e : env) (items : fmap tcont) (p : N) : bool :=
  existsb (fun t => (tport t =? p) && isSome (items t)) (UT e).
Definition port_tls (e : env) (items : fmap tcont) (p : N) : bool :=
  existsb (fun t => (tport t =? p) && match items t with Some c => ttls c | None => false end) (UT e).
Definition any_host (e : env) (m : fmap hcont) : bool := existsb (fun h => isSome (m h)) (UH e).
Definition any_rssl (e : env) (f : N -> bool) : bool := existsb f (UH e).
Definition needs_map (c : bcont) : bool := bacl c && match bpaths c with [] => false | _ => true end.
(* the keys of the idpath maps of backend x (WriteBackendMaps): for every path of the backend whose
   host exists and holds that path, the hostname and every alias of the host (config.hostAliases();
   no two hosts of a history claim the same alias).  The map is a function of the backend AND of
   the hosts its paths belong to. *)
Definition bmap_keys (hs : fmap hcont) (x : N) (bc : bcont) : list (N * N) :=
  flat_map (fun hp : N * N =>
              match hs (fst hp) with
              | Some hc =>
                if existsb (fun q : N * N => (fst q =? snd hp) && (snd q =? x)) (hpaths hc)
                then hp :: map (fun a => (a, snd hp)) (halias hc)
                else []
              | None => []
              end) (bpaths bc).

(* ---------------------------------------------------------------- fault points *)

Inductive fpoint :=
| FTcpMaps | FFrontCrt | FFrontHost | FFrontRootRedir | FFrontRootSSL | FBackMaps | FTcpCrt
| FMain | FShard (j : N) | FReloadRequest | FReloadResult
| FReloadReset     (* the connection carrying `reload` is reset by the master: Send returns an error *)
| FReloadSilent.   (* the master drops `reload` (no answer, or garbage), does not reload, and its
                      `show proc` shows the old worker: nothing tells reloadWorker / waitWorker *)
Definition fpoint_eqb (a b : fpoint) : bool :=
  match a, b with
  | FTcpMaps, FTcpMaps | FFrontCrt, FFrontCrt | FFrontHost, FFrontHost | FFrontRootRedir, FFrontRootRedir
  | FFrontRootSSL, FFrontRootSSL | FBackMaps, FBackMaps | FTcpCrt, FTcpCrt | FMain, FMain
  | FReloadRequest, FReloadRequest | FReloadResult, FReloadResult
  | FReloadReset, FReloadReset | FReloadSilent, FReloadSilent => true
  | FShard i, FShard j => i =? j
  | _, _ => false
  end.
Definition armed (fs : list fpoint) (p : fpoint) : bool := existsb (fpoint_eqb p) fs.

(* ---------------------------------------------------------------- the phases of HAProxyUpdate.
   Each returns the new (config, disk) and whether it failed. *)

Definition with_tcpmap (d : disk) (f : N -> option (fmap tcont)) : disk :=
  {| d_main := d_main d; d_shard := d_shard d; d_crt := d_crt d; d_hostmap := d_hostmap d; d_rootredir := d_rootredir d;
     d_rootssl := d_rootssl d; d_backmap := d_backmap d; d_tcpmap := f; d_tcpcrt := d_tcpcrt d |}.
Definition with_tcpcrt (d : disk) (f : N -> option (fmap tcont)) : disk :=
  {| d_main := d_main d; d_shard := d_shard d; d_crt := d_crt d; d_hostmap := d_hostmap d; d_rootredir := d_rootredir d;
     d_rootssl := d_rootssl d; d_backmap := d_backmap d; d_tcpmap := d_tcpmap d; d_tcpcrt := f |}.
Definition with_backmap (d : disk) (f : N -> option (list (N * N))) : disk :=
  {| d_main := d_main d; d_shard := d_shard d; d_crt := d_crt d; d_hostmap := d_hostmap d; d_rootredir := d_rootredir d;
     d_rootssl := d_rootssl d; d_backmap := f; d_tcpmap := d_tcpmap d; d_tcpcrt := d_tcpcrt d |}.
Definition with_front (d : disk) (crt hm rr : option (fmap hcont)) (rs : option (N -> bool)) : disk :=
  {| d_main := d_main d; d_shard := d_shard d; d_crt := crt; d_hostmap := hm; d_rootredir := rr;
     d_rootssl := rs; d_backmap := d_backmap d; d_tcpmap := d_tcpmap d; d_tcpcrt := d_tcpcrt d |}.
Definition with_main (d : disk) (m : option mainc) : disk :=
  {| d_main := m; d_shard := d_shard d; d_crt := d_crt d; d_hostmap := d_hostmap d; d_rootredir := d_rootredir d;
     d_rootssl := d_rootssl d; d_backmap := d_backmap d; d_tcpmap := d_tcpmap d; d_tcpcrt := d_tcpcrt d |}.
Definition with_shard (d : disk) (f : N -> option (fmap bcont)) : disk :=
  {| d_main := d_main d; d_shard := f; d_crt := d_crt d; d_hostmap := d_hostmap d; d_rootredir := d_rootredir d;
     d_rootssl := d_rootssl d; d_backmap := d_backmap d; d_tcpmap := d_tcpmap d; d_tcpcrt := d_tcpcrt d |}.

(* WriteTCPServicesMaps: when changed, one map per port (a map without entries writes no file) *)
Definition ph_tcpmaps (e : env) (fs : list fpoint) (c : config) (d : disk) : disk * bool :=
  let items := t_items (c_t c) in
  if t_chg (c_t c) then
    if armed fs FTcpMaps && existsb (fun t => isSome (items t)) (UT e) then (d, true)
    else (with_tcpmap d (fun p => if port_used e items p then Some (restrict_port items p) else d_tcpmap d p), false)
  else (d, false).

(* WriteFrontendMaps: crt list first, then the maps in the order they were added to the
   builder; a map without entries writes no file; frontend.Maps is assigned at the end *)
Definition ph_front (e : env) (fs : list fpoint) (c : config) (d : disk) : config * disk * bool :=
  if negb (isSome (c_fmaps c)) || hosts_changed e (c_h c) || rootdep_changed e c then
    let hs := h_items (c_h c) in
    let rs := rssl c in
    if armed fs FFrontCrt then (c, d, true) else
    let d1 := with_front d (Some hs) (d_hostmap d) (d_rootredir d) (d_rootssl d) in
    if any_host e hs && armed fs FFrontHost then (c, d1, true) else
    let d2 := if any_host e hs then with_front d1 (d_crt d1) (Some hs) (d_rootredir d1) (d_rootssl d1) else d1 in
    if any_host e hs && armed fs FFrontRootRedir then (c, d2, true) else
    let d3 := if any_host e hs then with_front d2 (d_crt d2) (d_hostmap d2) (Some hs) (d_rootssl d2) else d2 in
    if any_rssl e rs && armed fs FFrontRootSSL then (c, d3, true) else
    let d4 := if any_rssl e rs then with_front d3 (d_crt d3) (d_hostmap d3) (d_rootredir d3) (Some rs) else d3 in
    ({| c_b := c_b c; c_h := c_h c; c_t := c_t c; c_glob := c_glob c; c_globold := c_globold c;
        c_fmaps := Some {| fs_hosts := hs; fs_rssl := rs |} |}, d4, false)
  else (c, d, false).

(* WriteBackendMaps: maps of the added backends that need them *)
Definition ph_backmaps (e : env) (fs : list fpoint) (c : config) (d : disk) : disk * bool :=
  if backs_changed e (c_b c) then
    let w := fun x => match b_add (c_b c) x with Some bc => needs_map bc | None => false end in
    if armed fs FBackMaps && existsb w (UB e) then (d, true)
    else (with_backmap d (fun x => match b_add (c_b c) x with
                                   | Some bc => if needs_map bc then Some (bmap_keys (h_items (c_h c)) x bc) else d_backmap d x
                                   | None => d_backmap d x end), false)
  else (d, false).

(* writeCrtLists: one list per tcp port that has TLS, on every update *)
Definition ph_tcpcrt (e : env) (fs : list fpoint) (c : config) (d : disk) : disk * bool :=
  let items := t_items (c_t c) in
  if armed fs FTcpCrt && existsb (fun p => port_tls e items p) (ports e) then (d, true)
  else (with_tcpcrt d (fun p => if port_tls e items p then Some (restrict_port items p) else d_tcpcrt d p), false).

(* writeConfig: the main file, then the changed shards in ascending order *)
Definition render_main (e : env) (c : config) : mainc :=
  {| m_glob := c_glob c;
     m_backs := if nsh e =? 0 then b_items (c_b c) else fempty;
     m_def := b_def (c_b c);
     m_tcp := t_items (c_t c);
     m_fs := c_fmaps c |}.
(* a shard write fails: shard k is changed, below the shard count, and its fault is armed *)
Definition shard_fails (e : env) (fs : list fpoint) (c : config) (upto : option N) : bool :=
  existsb (fun p => match p with
                    | FShard k => (k <? nsh e) && b_chg (c_b c) k && match upto with Some j => k <=? j | None => true end
                    | _ => false end) fs.
(* [cl] = shardsClean: this instance already wrote a configuration.  The first configuration
   an instance writes also removes the backend files it did not write (removeStaleShards). *)
Definition ph_config (e : env) (fs : list fpoint) (cl : bool) (c : config) (d : disk) : disk * bool :=
  if armed fs FMain then (d, true) else
  let d1 := with_main d (Some (render_main e c)) in
  let wr := fun j => (j <? nsh e) && b_chg (c_b c) j && negb (shard_fails e fs c (Some j)) in
  let failed := shard_fails e fs c None in
  (with_shard d1 (fun j => if wr j then Some (restrict_shard e (b_items (c_b c)) j)
                           else if cl || failed then d_shard d1 j else None),
   failed).

(* ---------------------------------------------------------------- the instance *)

Record inst := {
  i_cfg : config;
  i_disk : disk;
  i_failed : bool;              (* lastFailed *)
  i_clean : bool;               (* shardsClean *)
  i_running : option disk;      (* what the running haproxy loaded at its last successful reload *)
  i_pending : bool              (* a reload sits in the reload queue *)
}.
Definition inst_empty : inst :=
  {| i_cfg := config_empty; i_disk := disk_empty; i_failed := false; i_clean := false; i_running := None; i_pending := false |}.

Definition finish (c : config) (d : disk) (cl : bool) (run : option disk) (pend : bool) (err : bool) : inst * bool :=
  ({| i_cfg := config_commit c; i_disk := d; i_failed := err; i_clean := cl; i_running := run; i_pending := pend |}, err).

(* HAProxyUpdate with the fault points [fs] armed; returns the new instance and err != nil *)
Definition update_f (e : env) (fs : list fpoint) (s : inst) : inst * bool :=
  let c0 := config_shrink e (i_cfg s) in
  let c1 := if i_failed s then config_change_all e c0 else c0 in
  let d0 := i_disk s in
  let (d1, err1) := ph_tcpmaps e fs c1 d0 in
  if err1 then finish c1 d1 (i_clean s) (i_running s) (i_pending s) true else
  let '(c2, d2, err2) := ph_front e fs c1 d1 in
  if err2 then finish c2 d2 (i_clean s) (i_running s) (i_pending s) true else
  let (d3, err3) := ph_backmaps e fs c2 d2 in
  if err3 then finish c2 d3 (i_clean s) (i_running s) (i_pending s) true else
  let (d4, err4) := ph_tcpcrt e fs c2 d3 in
  if err4 then finish c2 d4 (i_clean s) (i_running s) (i_pending s) true else
  if updated e c2 then finish c2 d4 (i_clean s) (i_running s) (i_pending s) false else
  let (d5, err5) := ph_config e fs (i_clean s) c2 d4 in
  if err5 then finish c2 d5 (i_clean s) (i_running s) (i_pending s) true else
  if inline e then
    if armed fs FReloadRequest || armed fs FReloadResult || armed fs FReloadReset
    then finish c2 d5 true (i_running s) (i_pending s) true
    else finish c2 d5 true (if armed fs FReloadSilent then i_running s else Some d5) (i_pending s) false
  else finish c2 d5 true (i_running s) true false.

Definition update (e : env) (s : inst) : inst * bool := update_f e [] s.

(* one reconciliation: the converters' calls, then the update *)
Definition sync (e : env) (s : inst) (l : list op) : inst :=
  {| i_cfg := apply_ops e (i_cfg s) l; i_disk := i_disk s; i_failed := i_failed s; i_clean := i_clean s;
     i_running := i_running s; i_pending := i_pending s |}.
Definition step (e : env) (s : inst) (l : list op) : inst * bool := update e (sync e s l).
Definition run (e : env) (s : inst) (h : list (list op)) : inst := fold_left (fun s l => fst (step e s l)) h s.

(* ---------------------------------------------------------------- what `haproxy -f <cfgdir>` loads *)

(* backend x as loaded from file j (0 = main, j+1 = shard j) *)
Definition loaded_in (e : env) (d : disk) (j : N) (x : N) : option bcont :=
  if j =? 0 then match d_main d with Some m => m_backs m x | None => None end
  else match d_shard d (j - 1) with Some f => f x | None => None end.
Definition main_fs (d : disk) : option fsnap := match d_main d with Some m => m_fs m | None => None end.
Definition ref_hostmap (e : env) (d : disk) : bool :=
  match main_fs d with Some f => any_host e (fs_hosts f) | None => false end.
Definition ref_rootssl (e : env) (d : disk) : bool :=
  match main_fs d with Some f => any_rssl e (fs_rssl f) | None => false end.
Definition loaded_crt (d : disk) : fmap hcont := match d_crt d with Some f => f | None => fempty end.
Definition loaded_hostmap (e : env) (d : disk) : fmap hcont :=
  if ref_hostmap e d then match d_hostmap d with Some f => f | None => fempty end else fempty.
Definition loaded_rootredir (e : env) (d : disk) : fmap hcont :=
  if ref_hostmap e d then match d_rootredir d with Some f => f | None => fempty end else fempty.
Definition loaded_rootssl (e : env) (d : disk) : N -> bool :=
  if ref_rootssl e d then match d_rootssl d with Some f => f | None => fun _ => false end else fun _ => false.
Definition main_tcp (d : disk) : fmap tcont := match d_main d with Some m => m_tcp m | None => fempty end.
Definition loaded_tcpmap (e : env) (d : disk) (t : N) : option tcont :=
  if port_used e (main_tcp d) (tport t) then match d_tcpmap d (tport t) with Some f => f t | None => None end else None.
Definition loaded_tcpcrt (e : env) (d : disk) (t : N) : option tcont :=
  if port_tls e (main_tcp d) (tport t) then match d_tcpcrt d (tport t) with Some f => f t | None => None end else None.
