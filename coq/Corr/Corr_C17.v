(* Correspondence for C17.  Two kinds of observed cases:
   CSigner: the harness ran the real acme signer (Notify) on one certificate state with stubbed
            acme client / secret reader and writer, and recorded the calls and the error class;
   CQueue:  the harness ran a history of AcmeStorages / AcmeUpdate / Commit / Clear calls on the
            real haproxy Instance and recorded, per AcmeUpdate, the queue Add strings, the queue
            Remove strings and BuildAcmeStorages(), plus BuildAcmeStorages() at the end.
   Lists that come out of Go map iteration are compared as multisets. *)
From Coq Require Export ZArith NArith List String Bool.
From HI Require Export Model.Acme.
Export ListNotations.
Open Scope string_scope.

(* strings holding bytes outside printable ASCII are written by the harness as byte codes *)
Definition of_codes (l : list N) : string :=
  fold_right (fun n s => String (Ascii.ascii_of_N n) s) EmptyString l.

Inductive ccase :=
| CSigner (id : N) (item : string) (has_account : bool) (now expiring : Z) (sec : secret_state)
          (sign_crt sign_key sign_err set_err : bool)
          (obs_signs : list (list string * string)) (obs_sets : list string) (obs_err obs_reason : N)
| CQueue (id : N) (ops : list op) (obs : list upd_obs) (final : list string)
(* account life cycle: reconciliations with the real signer; per step the queue Add strings, the
   queue Remove strings, BuildAcmeStorages() and HasAccount() *)
| CAccount (id : N) (steps : list astep) (obs : list (list string * list string * list string * bool)).

Definition case_id (c : ccase) : N :=
  match c with CSigner id _ _ _ _ _ _ _ _ _ _ _ _ _ => id | CQueue id _ _ _ => id | CAccount id _ _ => id end.

Definition strs_eqb (a b : list string) : bool := if list_eq_dec string_dec a b then true else false.

Fixpoint remove_first (x : string) (l : list string) : option (list string) :=
  match l with
  | [] => None
  | y :: t => if String.eqb x y then Some t
              else match remove_first x t with Some t' => Some (y :: t') | None => None end
  end.
(* multiset equality *)
Fixpoint perm_eqb (a b : list string) : bool :=
  match a with
  | [] => match b with [] => true | _ => false end
  | x :: t => match remove_first x b with Some b' => perm_eqb t b' | None => false end
  end.

Definition sign_eqb (a b : list string * string) : bool :=
  strs_eqb (fst a) (fst b) && String.eqb (snd a) (snd b).
Fixpoint list_eqb {A} (f : A -> A -> bool) (a b : list A) : bool :=
  match a, b with
  | [], [] => true
  | x :: s, y :: t => f x y && list_eqb f s t
  | _, _ => false
  end.

Fixpoint list_eqb2 {A B} (f : A -> B -> bool) (a : list A) (b : list B) : bool :=
  match a, b with
  | [], [] => true
  | x :: s, y :: t => f x y && list_eqb2 f s t
  | _, _ => false
  end.

Definition reason_code (r : reason) : N :=
  match r with RNone => 0 | RMissing => 1 | RExpiring => 2 | ROutdated => 3 end.

Definition upd_eqb (m o : upd_obs) : bool :=
  let '(ma, md, mv) := m in let '(oa, od, ov) := o in
  perm_eqb ma oa && perm_eqb md od && perm_eqb mv ov.

Definition case_ok (c : ccase) : bool :=
  match c with
  | CSigner _ item acc now expiring sec crt key err seterr osigns osets oerr oreason =>
      let out := notify acc now expiring sec
                   {| a_crt := crt; a_key := key; a_err := err; a_set_err := seterr |} item in
      list_eqb sign_eqb (o_signs out) osigns && strs_eqb (o_sets out) osets
      && N.eqb (o_err out) oerr && N.eqb (reason_code (o_reason out)) oreason
  | CQueue _ ops obs final =>
      let '(st, mobs) := run ops empty_storages in
      list_eqb upd_eqb mobs obs && perm_eqb (map render (items st)) final
  | CAccount _ steps obs =>
      list_eqb2 (fun (m : astep * step_trace * bool) (o : list string * list string * list string * bool) =>
                  let '(_, tr, has) := m in let '(oa, od, ov, oh) := o in
                  perm_eqb (map render (t_adds tr)) oa && perm_eqb (map render (t_dels tr)) od
                  && perm_eqb (map render (t_after tr)) ov && Bool.eqb has oh)
               (areconcile_all (empty_storages, new_signer) steps) obs
  end.

Definition mismatches (cs : list ccase) : list N :=
  map case_id (filter (fun c => negb (case_ok c)) cs).
