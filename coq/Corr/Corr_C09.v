(* Correspondence for C09. The harness ran, on the real code of /repo:
   - CGrid: the four cross-namespace keys and --allow-cross-namespace through the real
     global-config updater (observed: the four permission bits), then a list of getter
     calls on the real cache facade over a fake cluster (observed per call: the
     namespace/name that was read, the files used, or the class of the error); GLegacy
     calls go to the legacy controller's buildResourceName;
   - CSites: the real converters on a cluster with a reader in one namespace that
     references an object from one of the keys that accept a resource name (and
     possibly a site of the other namespace before it); observed: which object the
     reader's host/backend ended up using (none = default certificate, no auth, deny). *)
From Coq Require Export String Ascii List Bool NArith.
From HI Require Export Lib.XNs_Strs Model.XNs.
Export ListNotations.
Open Scope string_scope.
Open Scope list_scope.

Inductive getter := GTls | GCa | GDh | GPasswd | GService | GLegacy (allow : bool).

Record gcall := { g_getter : getter; g_defns : string; g_ref : string }.

Inductive xcase :=
| CGrid (id : N) (static : bool) (vcrt vca vpasswd vsvc : string)
        (bits : bool * bool * bool * bool) (w : world) (calls : list (gcall * res))
| CSites (id : N) (static : bool) (vcrt vca vpasswd vsvc : string)
         (w : world) (sites : list site) (used : option (string * string)).

Definition case_id (x : xcase) : N :=
  match x with CGrid id _ _ _ _ _ _ _ _ => id | CSites id _ _ _ _ _ _ _ _ => id end.

Definition err_eqb (a b : err) : bool :=
  match a, b with
  | EKey, EKey | ECross, ECross | EProto, EProto | ENotFound, ENotFound
  | EContent, EContent | ENoFile, ENoFile | EFileSpec, EFileSpec => true
  | _, _ => false
  end.

Fixpoint strs_eqb (a b : list string) : bool :=
  match a, b with
  | [], [] => true
  | x :: r, y :: s => String.eqb x y && strs_eqb r s
  | _, _ => false
  end.

Definition res_eqb (a b : res) : bool :=
  match a, b with
  | ROk n1 m1, ROk n2 m2 => String.eqb n1 n2 && String.eqb m1 m2
  | RFile f1, RFile f2 => strs_eqb f1 f2
  | RErr e1, RErr e2 => err_eqb e1 e2
  | _, _ => false
  end.

Definition run_call (d : dyn) (w : world) (c : gcall) : res :=
  match g_getter c with
  | GTls => get_tls d w (g_defns c) (g_ref c)
  | GCa => get_ca d w (g_defns c) (g_ref c)
  | GDh => get_dh d w (g_defns c) (g_ref c)
  | GPasswd => get_passwd d w (g_defns c) (g_ref c)
  | GService => get_service d w (g_defns c) (g_ref c)
  | GLegacy allow =>
      match build_resource_name (g_defns c) (g_ref c) allow with
      | inl (ns, n) => ROk ns n
      | inr e => RErr e
      end
  end.

Definition bits_of (d : dyn) : bool * bool * bool * bool := (d_crt d, d_ca d, d_passwd d, d_svc d).

Definition bits_eqb (a b : bool * bool * bool * bool) : bool :=
  match a, b with
  | (a1, a2, a3, a4), (b1, b2, b3, b4) => Bool.eqb a1 b1 && Bool.eqb a2 b2 && Bool.eqb a3 b3 && Bool.eqb a4 b4
  end.

(* the object a resolution makes the configuration use *)
Definition used_of (r : res) : option (string * string) :=
  match r with ROk ns n => Some (ns, n) | _ => None end.

Definition used_eqb (a b : option (string * string)) : bool :=
  match a, b with
  | Some (n1, m1), Some (n2, m2) => String.eqb n1 n2 && String.eqb m1 m2
  | None, None => true
  | _, _ => false
  end.

Definition case_ok (x : xcase) : bool :=
  match x with
  | CGrid _ static v1 v2 v3 v4 bits w calls =>
      let d := build_global_dynamic static v1 v2 v3 v4 in
      bits_eqb (bits_of d) bits &&
      forallb (fun p => res_eqb (run_call d w (fst p)) (snd p)) calls
  | CSites _ static v1 v2 v3 v4 w sites used =>
      let d := build_global_dynamic static v1 v2 v3 v4 in
      used_eqb (used_of (last (resolve_all d w [] sites) (RErr EKey))) used
  end.

Definition mismatches (cs : list xcase) : list N :=
  map case_id (filter (fun x => negb (case_ok x)) cs).
