(* Correspondence for C04: the harness fed rule sets to the real code (a haproxy.Instance
   driven through Config + HAProxyUpdate, or hatypes.CreateMaps(order).AddMap(..).
   AddHostnamePathMapping(..) written with the real map template) and recorded the files
   AS RENDERED: the map files read back from disk (key/value per line, in file order) in
   the order, with the method and the lower flag, of the req.backend lookup chain of the
   rendered haproxy.cfg (of MatchFiles() when only the map template is run). The harness
   has already checked that they equal MatchFiles().Values() (C04/rendered-map-differs).
   Part of the cases declare the rules as Gateway API HTTPRoutes or as Ingress resources
   and go through the REAL converters and the whole controller pipeline.
   OUTSIDE THE MODEL: entries with a header match (Gateway API header matches, the
   http-header-match annotation). The code moves them to files of their own, consulted
   first and only when the request carries the header; they do not take part in the
   overlap logic of the other entries. A case therefore holds the calls WITHOUT header
   match and the lookups WITHOUT header condition: what a request without the header
   sees. Requests with the header are judged by the Go oracle only (oracleFiltered).
   A case is fine when
   - the model `rebuild_current` (hosts visited in sorted order, as the code does since
     /repo 5f31221) yields exactly the observed files (method, lower flag, ordered
     key/value list), and
   - the verified checker `layout_ok` accepts the observed files for the rules, which
     by C04_layout_ok_sound settles every request for this rule set, and
   - the case is inside the guard of theorem B (so C04_rebuild_layout_ok applies to it). *)
From Coq Require Export Ascii String NArith List.
From HI Require Export Model.Maps.
Export ListNotations.

Record c04case := {
  cid : N;
  corder : list mtype;   (* path-type order the code used: Global.MatchOrder as parsed by the real
                            configuration code from the path-type-order key in the converter cases *)
  cfed : list (string * string * mtype * N * string);   (* host, path, type, HostPath.order, target: addTarget calls in order *)
  cfiles : list (meth * bool * list (string * string)); (* the rendered files *)
  cstrict : bool  (* false for the malformed stream (paths with "//", '#', '?', no leading
                     slash, upper-case hosts): only the model is compared there *)
}.

Definition feds_of (c : c04case) : list fed :=
  map (fun x => match x with (h, p, t, o, v) =>
         {| fhost := s2l h; fpath := s2l p; ftyp := t; forder := o; ftarget := s2l v |} end) (cfed c).

(* exactly the objects theorem C04_rebuild_layout_ok speaks about *)
Definition entries_of (c : c04case) : list entry := map add (feds_of c).
Definition rules_of (c : c04case) : list rule := map rule_of (feds_of c).

Definition files_of (c : c04case) : list matchfile :=
  map (fun x => match x with (m, l, es) =>
         {| mmeth := m; mlower := l; mentries := map (fun kv => (s2l (fst kv), s2l (snd kv))) es |} end) (cfiles c).

Fixpoint kvs_eqb (a b : list (str * str)) : bool :=
  match a, b with
  | [], [] => true
  | x :: a', y :: b' => str_eqb (fst x) (fst y) && str_eqb (snd x) (snd y) && kvs_eqb a' b'
  | _, _ => false
  end.

Definition bool_eqb (a b : bool) : bool := if a then b else negb b.

Fixpoint files_eqb (a b : list matchfile) : bool :=
  match a, b with
  | [], [] => true
  | x :: a', y :: b' =>
      meth_eqb (mmeth x) (mmeth y) && bool_eqb (mlower x) (mlower y) &&
      kvs_eqb (mentries x) (mentries y) && files_eqb a' b'
  | _, _ => false
  end.

Definition model_agrees (c : c04case) : bool :=
  files_eqb (rebuild_current (corder c) (entries_of c)) (files_of c).

(* the guard of theorem B: rules inside the guard (the generator stays inside it) and a
   path-type order the theorems quantify over (`permitted`: each type once) — a mismatch
   when the real configuration code hands over anything else *)
Definition in_guard (c : c04case) : bool := forallb wf_fed (feds_of c) && permittedb (corder c).

Definition case_ok (c : c04case) : bool :=
  if cstrict c then in_guard c && model_agrees c && layout_ok (files_of c) (rules_of c)
  else model_agrees c.

Definition mismatches (cs : list c04case) : list N :=
  map cid (filter (fun c => negb (case_ok c)) cs).
