(* Correspondence for C05: the harness ran histories of full / partial syncs, each followed
   by HAProxyUpdate, on the real haproxy.Instance (shard counts 0, 1, 3, 8; no fault, reload
   queue stub) and recorded, after every update, what the directories hold, projected as in
   Corr_ConfigSM.observe.  A case mismatches when, at some step, the model fed the same calls
   predicts different files (a backend in another file or with another version, a map with
   other entries, an update taken for a no-op or not ...). *)
From HI Require Export Corr.Corr_ConfigSM.

(* C05 cases carry no fault and no restart *)
Definition fault_free (c : hcase) : bool :=
  forallb (fun st => negb (s_restart st) && match s_faults st with [] => true | _ => false end) (h_steps c).
Definition mismatches (cs : list hcase) : list N :=
  map h_id (filter (fun c => negb (fault_free c && case_ok false c)) cs).
