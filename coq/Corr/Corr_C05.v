(* Correspondence for C05: the harness ran histories of full / partial syncs, each followed
   by HAProxyUpdate, on the real haproxy.Instance (shard counts 0, 1, 3, 8; reload
   queue stub; a third of the histories with updates that fail on an unwritable file, followed by
   fault-free ones) and recorded, after every update, what the directories hold, projected as in
   Corr_ConfigSM.observe.  A case mismatches when, at some step, the model fed the same calls
   predicts different files (a backend in another file or with another version, a map with
   other entries, an update taken for a no-op or not ...). *)
From HI Require Export Corr.Corr_ConfigSM.

(* C05 cases carry no restart; some updates have write faults armed (unwritable map / crt-list
   / main / shard file): the property is judged after every successful update, those that
   follow a failed one included *)
Definition no_restart (c : hcase) : bool := forallb (fun st => negb (s_restart st)) (h_steps c).
Definition mismatches (cs : list hcase) : list N :=
  map h_id (filter (fun c => negb (no_restart c && case_ok false c)) cs).
