(* Correspondence for C12: as Corr_C05, with faults armed in some updates (every file
   class an update writes, each shard file, the reload request and the reload result of an
   inline reload through the master socket of an external haproxy) and the reload queue
   emulated the way services.reloadHAProxy drives it.  Observed per step: the error, the
   files, whether the running (fake) haproxy loaded exactly the files now on disk. *)
From HI Require Export Corr.Corr_ConfigSM.

Definition mismatches (cs : list hcase) : list N := Corr_ConfigSM.mismatches cs.
