(* Correspondence for C12.
   (a) instance level (CInst): as Corr_C05, with faults armed in some updates (every file class
   an update writes, each shard file, the reload request / result / connection reset of an
   inline reload through the master socket of an external haproxy), restarts, and the reload
   queue emulated the way services.reloadHAProxy drives it.  Observed per step: the error, the
   files, whether the running (fake) haproxy loaded exactly the files now on disk; compared
   with Model/ConfigSM(_Faults) fed the same calls (Corr_ConfigSM.replay).
   (b) retry-loop level (CLoop): the harness drives the REAL watchers, the real
   IngressReconciler.Reconcile and Services.ReconcileIngress (hooks verif_c12.go) over the real
   converters and instance, with a work queue that does what client-go's does with the results
   (set of rparam items, ready / delayed), cluster changes delivered through the real event
   handlers, and write faults planted during some attempts.  Observed per event: the
   rparam{fullsync} each handler enqueued (input of the model), for an attempt the error of
   HAProxyUpdate and whether Reconcile asked for RequeueAfter, then the content of the queue,
   and - after a successful attempt - whether the files mean the same (cfgnorm normal form) as
   those of a twin controller that ran the same reconciliations without any fault.  Compared
   with the queue side of Model/RetryLoop.v (q_change, q_tick, q_attempt ...): the attempt must
   be enabled, requeue = error, same queue content; and the model's claims: after a successful
   attempt, and whenever nothing is pending, the files are those of the fault-free twin. *)
From HI Require Export Corr.Corr_ConfigSM.
From HI Require Export Model.RetryLoop.

Inductive aev :=
| AChange (full : bool)
| ALeader
| ATick (full : bool)
| AAttempt (full : bool) (err : bool) (requeue : bool)
| AReload.                      (* the reload queue fired services.reloadHAProxy *)

Record lobs := {
  ob_rp : bool; ob_rf : bool;     (* ready: rparam{false}, rparam{true} *)
  ob_dp : bool; ob_df : bool;     (* delayed *)
  ob_same : option bool           (* files mean the same as the fault-free twin's (when compared) *)
}.
Record lcase := { lc_id : N; lc_evs : list (aev * lobs) }.

Record lstate := { ls_q : lqueue; ls_failed : bool; ls_attempted : bool }.
Definition ls_init : lstate := {| ls_q := lqueue_init; ls_failed := false; ls_attempted := false |}.

Definition lobs_ok (s : lstate) (o : lobs) : bool :=
  Bool.eqb (r_part (q_ready (ls_q s))) (ob_rp o) && Bool.eqb (r_full (q_ready (ls_q s))) (ob_rf o) &&
  Bool.eqb (r_part (q_delay (ls_q s))) (ob_dp o) && Bool.eqb (r_full (q_delay (ls_q s))) (ob_df o) &&
  match ob_same o with
  | Some b => ls_failed s || b      (* last update succeeded => same as the twin *)
  | None => true
  end.

Fixpoint lreplay (s : lstate) (l : list (aev * lobs)) : bool :=
  match l with
  | [] =>
    (* nothing pending and no change waiting => the last attempt succeeded (or none was made) *)
    q_pending (ls_q s) || q_wch (ls_q s) || negb (ls_failed s)
  | (ev, o) :: l' =>
    let '(ok, s') :=
      match ev with
      | AChange full => (true, {| ls_q := q_change (ls_q s) full; ls_failed := ls_failed s; ls_attempted := ls_attempted s |})
      | ALeader => (true, {| ls_q := q_leader (ls_q s); ls_failed := ls_failed s; ls_attempted := ls_attempted s |})
      | ATick full => (rset_mem (q_delay (ls_q s)) full,
                       {| ls_q := q_tick (ls_q s) full; ls_failed := ls_failed s; ls_attempted := ls_attempted s |})
      | AAttempt full err requeue =>
        (rset_mem (q_ready (ls_q s)) full && Bool.eqb err requeue,
         {| ls_q := q_attempt (ls_q s) full err; ls_failed := err; ls_attempted := true |})
      | AReload => (true, s)      (* touches neither the work queue nor lastFailed *)
      end in
    ok && lobs_ok s' o &&
    (* after an attempt, when the model says nothing is pending, the comparison must have been made and hold *)
    (match ev with AAttempt _ _ _ => false | _ => true end ||
     q_pending (ls_q s') || q_wch (ls_q s') || negb (ls_attempted s') ||
     match ob_same o with Some true => true | _ => false end) &&
    lreplay s' l'
  end.

Inductive c12case := CInst (c : hcase) | CLoop (c : lcase).
Definition c12_id (c : c12case) : N := match c with CInst c => h_id c | CLoop c => lc_id c end.
Definition c12_ok (c : c12case) : bool :=
  match c with CInst c => case_ok true c | CLoop c => lreplay ls_init (lc_evs c) end.
Definition mismatches (cs : list c12case) : list N := map c12_id (filter (fun c => negb (c12_ok c)) cs).
