(* Correspondence for C15: the harness ran a history of Ingress / Secret changes through the
   real watchers + cache + converter + instance + templates and recorded, after every
   reconciliation, the cluster (and the batch of a partial sync), the lines of the crt-list
   of the https bind (certificate content label, sni filter) as read back from the files
   written, and the certificate HAProxy's SNI selection picks on those lines for a universe
   of names.  Labels: "DEFAULT" for the default certificate, else the SHA1 the real cache
   computed for the secret with that content.  The model state is folded along the history
   (sync_full, then sync_partial per batch) exactly as in Corr_C01.

   Socket mode runs add, per reconciliation, the host pairs (old / new: every other field
   digested, certificate file, hash) seen by the dynamic updater with what the simulated
   HAProxy received: whether a reload was asked for and the files of `set ssl cert`. *)
From Coq Require Export List String ZArith NArith Bool.
From HI Require Export Model.Tracker Model.Conv Model.CrtList Model.CrtList_xns.
From HI Require Model.XNs.
Export ListNotations.
Open Scope string_scope.

Inductive kstep :=
| KFull (w : world)
| KPartial (w : world) (b : batch).

Record kobs := {
  ko_lines : list (string * string);      (* (certificate label, filter), file order *)
  ko_served : list (string * string)      (* (sni name, certificate label) *)
}.

(* one host pair of a dynamic update and what was observed for the whole step *)
Record kdyn := {
  kd_pairs : list (hostview string * hostview string);
  kd_structural : bool;                   (* a host was added or removed *)
  kd_reload : bool;                       (* observed: a reload was asked for *)
  kd_files : list string                  (* observed: files of `set ssl cert`, in order *)
}.

(* hosts level (every source of certificates: ingress tls, annotations, Gateway listeners,
   --default-ssl-certificate): the hosts of the real haproxy model after the converters ran
   (files named by their base name) and the crt-list file as written, line by line:
   (certificate file, the text between [ ], filter) *)
Record kinst := {
  ki_default : string;
  ki_hosts : list hcfg;
  ki_lines : list (string * string * string)
}.

(* kx: the cross-namespace bits of the run: (crt, ca) = --allow-cross-namespace or the
   global keys cross-namespace-secrets-crt / -ca at allow *)
Record kcase := { kid : N; kx : bool * bool; ksteps : list (kstep * kobs); kdyns : list kdyn; kinsts : list kinst }.

Definition dyn_of (x : bool * bool) : XNs.dyn :=
  {| XNs.d_crt := fst x; XNs.d_ca := snd x; XNs.d_passwd := false; XNs.d_svc := false |}.

Definition pair_eqb (a b : string * string) : bool :=
  String.eqb (fst a) (fst b) && String.eqb (snd a) (snd b).

Fixpoint remove1 {A} (eqb : A -> A -> bool) (x : A) (l : list A) : option (list A) :=
  match l with
  | [] => None
  | y :: r => if eqb x y then Some r
              else match remove1 eqb x r with Some r' => Some (y :: r') | None => None end
  end.
Fixpoint mset_eqb {A} (eqb : A -> A -> bool) (a b : list A) : bool :=
  match a with
  | [] => match b with [] => true | _ => false end
  | x :: r => match remove1 eqb x b with Some b' => mset_eqb eqb r b' | None => false end
  end.

Fixpoint list_eqb {A} (eqb : A -> A -> bool) (a b : list A) : bool :=
  match a, b with
  | [], [] => true
  | x :: r, y :: r' => eqb x y && list_eqb eqb r r'
  | _, _ => false
  end.

Definition model_lines (names : list string) (s : cstate) : list (string * string) :=
  map (fun l => (cl_crt l, cl_filter l)) (crt_list names s).

(* the lines in file order (default line first, then the hosts sorted by name: Go's string
   order is the byte order of str_ltb), and every name of the universe *)
Definition obs_ok (w : world) (x : st) (o : kobs) : bool :=
  let cl := crt_list (host_names w) (fst x) in      (* served_in names s n = sni_select cl n *)
  let ml := map (fun l => (cl_crt l, cl_filter l)) cl in
  list_eqb pair_eqb ml (ko_lines o)
  && forallb (fun e => String.eqb (sni_select cl (fst e)) (snd e)) (ko_served o).

Lemma obs_ok_served w x o : obs_ok w x o = true ->
  forall e, In e (ko_served o) -> served_in (host_names w) (fst x) (fst e) = snd e.
Proof.
  unfold obs_ok. intros H e He. apply andb_true_iff in H as [_ H].
  rewrite forallb_forall in H. apply String.eqb_eq. exact (H e He).
Qed.

Definition world_of (s : kstep) : world := match s with KFull w => w | KPartial w _ => w end.

Fixpoint run_ksteps (d : XNs.dyn) (x : st) (l : list (kstep * kobs)) : bool :=
  match l with
  | [] => true
  | (s, o) :: r =>
      match (match s with
             | KFull w => Some (sync_full (xworld d w))
             | KPartial w b => sync_partial (xworld d w) x (xbatch d w b)
             end) with
      | None => false
      | Some x' => obs_ok (world_of s) x' o && run_ksteps d x' r
      end
  end.

(* runtime: every command is accepted by the simulated HAProxy (no faults are scripted in
   these runs): a reload is needed iff a host was added / removed or some pair is not
   dynamically updatable; the files of the commands are those of the pairs that send them *)
Fixpoint dedup_keep (l : list string) (seen : list string) : list string :=
  match l with
  | [] => []
  | x :: r => if existsb (String.eqb x) seen then dedup_keep r seen else x :: dedup_keep r (x :: seen)
  end.

Definition kdyn_ok (d : kdyn) : bool :=
  let need_reload :=
    kd_structural d
    || existsb (fun p => negb (cert_update_dynamic String.eqb (fst p) (snd p) true)) (kd_pairs d) in
  let files := map (fun p => hv_file (snd p)) (filter (fun p => cert_cmd_sent (fst p) (snd p)) (kd_pairs d)) in
  Bool.eqb need_reload (kd_reload d)
  && mset_eqb String.eqb (dedup_keep files []) (dedup_keep (kd_files d) []).

Definition triple_eqb (a b : string * string * string) : bool :=
  let '(a1, a2, a3) := a in let '(b1, b2, b3) := b in
  String.eqb a1 b1 && String.eqb a2 b2 && String.eqb a3 b3.

Definition kinst_ok (i : kinst) : bool :=
  list_eqb triple_eqb
    (map (fun g => (gl_crt g, String.concat " " (gl_opts g), gl_filter g))
         (crt_list_gen (ki_default i) (ki_hosts i)))
    (ki_lines i).

Definition kcase_ok (c : kcase) : bool :=
  run_ksteps (dyn_of (kx c)) (empty_state, []) (ksteps c) && forallb kdyn_ok (kdyns c) && forallb kinst_ok (kinsts c).

Definition mismatches (cs : list kcase) : list N :=
  map kid (filter (fun c => negb (kcase_ok c)) cs).

(* diagnostics: index of the first failing step, the lines of the model and the names
   whose certificate differs *)
Fixpoint first_bad (d : XNs.dyn) (n : nat) (x : st) (l : list (kstep * kobs))
  : option (nat * list (string * string) * list (string * string)) :=
  match l with
  | [] => None
  | (s, o) :: r =>
      match (match s with
             | KFull w => Some (sync_full (xworld d w))
             | KPartial w b => sync_partial (xworld d w) x (xbatch d w b)
             end) with
      | None => Some (n, [], [])
      | Some x' =>
          if obs_ok (world_of s) x' o then first_bad d (S n) x' r
          else Some (n, model_lines (host_names (world_of s)) (fst x'),
                     map (fun e => (fst e, served_in (host_names (world_of s)) (fst x') (fst e)))
                         (filter (fun e => negb (String.eqb (served_in (host_names (world_of s)) (fst x') (fst e)) (snd e)))
                                 (ko_served o)))
      end
  end.
