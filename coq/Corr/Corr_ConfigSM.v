(* Shared by Corr_C05 / Corr_C12: the projection of the model's files to what the harness
   reads back from the directories of the real Instance (what `haproxy -f <cfgdir>` would
   load: backend sections per *.cfg file, default_backend, and the entries of the map /
   list files the loaded files refer to), and the replay of one observed history. *)
From Coq Require Export NArith List Bool.
From HI Require Export Model.ConfigSM Model.ConfigSM_Faults.
Export ListNotations.
Open Scope N_scope.

Record sobs := {
  o_err : bool;                               (* HAProxyUpdate returned an error *)
  o_reload : bool;                            (* queue mode: a reload was enqueued by this update *)
  o_runeq : bool;                             (* the running haproxy has loaded exactly the files now on disk *)
  o_failed : bool;                            (* instance.lastFailed after the step (hook VerifLastFailed) *)
  o_files : list (N * list (N * N));          (* existing *.cfg: 0 = main, j+1 = shard j; (backend, version marker) *)
  o_def : option N;                           (* default_backend of the http frontend; None = _error404 *)
  o_glob : N;
  o_crt : list N;                             (* hosts with their own certificate in _front_bind_crt.list *)
  o_hostmap : list (N * (N * N));             (* (host or alias, (path, backend)) of the referenced _front_http_host maps *)
  o_rootredir : list (N * N);                 (* (host, version marker) of the referenced _front_redir_fromroot maps *)
  o_rootssl : list N;                         (* hosts of the referenced _front_redir_root_ssl maps *)
  o_backmaps : list (N * list (N * N));       (* backend sections that refer to idpath maps: their (host or alias, path) keys *)
  o_tcpmap : list (N * N);                    (* (tcp service, backend) of the referenced _tcp_sni maps *)
  o_tcpcrt : list N                           (* tcp services of the referenced tcp crt-lists *)
}.

Definition shard_ids (e : env) : list N := map N.of_nat (seq 0 (N.to_nat (nsh e))).

Definition file_backs (e : env) (f : fmap bcont) : list (N * N) :=
  flat_map (fun x => match f x with Some c => [(x, bver c)] | None => [] end) (UB e).

Definition loaded_any (e : env) (d : disk) (x : N) : option bcont :=
  match find (fun j => isSome (loaded_in e d j x)) (0 :: map N.succ (shard_ids e)) with
  | Some j => loaded_in e d j x
  | None => None
  end.

Definition observe (e : env) (s : inst) (err reload : bool) (runeq : bool) : sobs :=
  let d := i_disk s in
  {| o_err := err; o_reload := reload; o_runeq := runeq; o_failed := i_failed s;
     o_files :=
       (match d_main d with Some m => [(0, file_backs e (m_backs m))] | None => [] end) ++
       flat_map (fun j => match d_shard d j with Some f => [(j + 1, file_backs e f)] | None => [] end) (shard_ids e);
     o_def := match d_main d with Some m => m_def m | None => None end;
     o_glob := match d_main d with Some m => m_glob m | None => 0 end;
     o_crt := filter (fun h => match loaded_crt d h with Some c => htls c | None => false end) (UH e);
     o_hostmap := flat_map (fun h => match loaded_hostmap e d h with
                                     | Some c => flat_map (fun k => map (fun p => (k, p)) (hpaths c)) (h :: halias c)
                                     | None => [] end) (UH e);
     o_rootredir := flat_map (fun h => match loaded_rootredir e d h with Some c => [(h, hver c)] | None => [] end) (UH e);
     o_rootssl := filter (loaded_rootssl e d) (UH e);
     o_backmaps := flat_map (fun x => match loaded_any e d x with
                                      | Some c => if needs_map c
                                                  then [(x, match d_backmap d x with Some l => l | None => [] end)]
                                                  else []
                                      | None => [] end) (UB e);
     o_tcpmap := flat_map (fun t => match loaded_tcpmap e d t with Some c => [(t, tback c)] | None => [] end) (UT e);
     o_tcpcrt := filter (fun t => match loaded_tcpcrt e d t with Some c => ttls c | None => false end) (UT e) |}.

(* ---- equality of observations *)
Definition n2_eqb := pair_eqb.
Definition sobs_eqb (a b : sobs) : bool :=
  Bool.eqb (o_err a) (o_err b) && Bool.eqb (o_reload a) (o_reload b) && Bool.eqb (o_runeq a) (o_runeq b) &&
  Bool.eqb (o_failed a) (o_failed b) &&
  list_eqb (fun p q => (fst p =? fst q) && list_eqb n2_eqb (snd p) (snd q)) (o_files a) (o_files b) &&
  optN_eqb (o_def a) (o_def b) && (o_glob a =? o_glob b) &&
  list_eqb N.eqb (o_crt a) (o_crt b) &&
  list_eqb (fun p q => (fst p =? fst q) && n2_eqb (snd p) (snd q)) (o_hostmap a) (o_hostmap b) &&
  list_eqb n2_eqb (o_rootredir a) (o_rootredir b) &&
  list_eqb N.eqb (o_rootssl a) (o_rootssl b) &&
  list_eqb (fun p q => (fst p =? fst q) && list_eqb n2_eqb (snd p) (snd q)) (o_backmaps a) (o_backmaps b) &&
  list_eqb n2_eqb (o_tcpmap a) (o_tcpmap b) &&
  list_eqb N.eqb (o_tcpcrt a) (o_tcpcrt b).

(* a file without any section loads nothing: it does not count when comparing what is loaded *)
Definition drop_empty (o : sobs) : sobs :=
  {| o_err := o_err o; o_reload := o_reload o; o_runeq := o_runeq o; o_failed := o_failed o;
     o_files := filter (fun f => match snd f with [] => false | _ => true end) (o_files o);
     o_def := o_def o; o_glob := o_glob o; o_crt := o_crt o; o_hostmap := o_hostmap o;
     o_rootredir := o_rootredir o; o_rootssl := o_rootssl o; o_backmaps := o_backmaps o;
     o_tcpmap := o_tcpmap o; o_tcpcrt := o_tcpcrt o |}.

(* the running haproxy against the files: same projection *)
Definition run_matches (e : env) (s : inst) : bool :=
  match i_running s with
  | Some r =>
    let sr := {| i_cfg := i_cfg s; i_disk := r; i_failed := i_failed s; i_clean := i_clean s; i_running := None; i_pending := false |} in
    sobs_eqb (drop_empty (observe e sr false false false)) (drop_empty (observe e s false false false))
  | None => false
  end.

(* ---- one observed history *)
Record ostep := {
  s_restart : bool;           (* the controller was restarted before this reconciliation: new Instance, same directories *)
  s_ops : list op;            (* calls made on Config() before the update *)
  s_faults : list fpoint;     (* faults armed during the update *)
  s_qfail : N;                (* queue mode: failing reloads before the queue's reload succeeds *)
  s_defer : bool;             (* queue mode: the reload queue does not fire during this step: a reload that is
                                 (or was already) enqueued waits, and fires at the end of a later step *)
  s_obs : sobs
}.
Record hcase := {
  h_id : N;
  h_nsh : N;
  h_shard : list (N * N);     (* shard of each backend name, recomputed by the harness *)
  h_ub : list N; h_uh : list N; h_ut : list N;
  h_inline : bool;
  h_steps : list ostep
}.

Definition lookup (t : list (N * N)) (x : N) : N :=
  match find (fun p => fst p =? x) t with Some p => snd p | None => 0 end.
Definition env_of (c : hcase) : env :=
  {| nsh := h_nsh c; sh := lookup (h_shard c); UB := h_ub c; UH := h_uh c; UT := h_ut c; inline := h_inline c |}.

Definition set_pending (s : inst) (p : bool) : inst :=
  {| i_cfg := i_cfg s; i_disk := i_disk s; i_failed := i_failed s; i_clean := i_clean s; i_running := i_running s; i_pending := p |}.

(* one step: the update; [asked] = this update enqueued a reload; the reload stays pending
   with the ones enqueued before; unless deferred, the queue then fires until a reload succeeds *)
Definition replay_step (e : env) (s : inst) (st : ostep) : inst * bool * bool :=
  let s0 := if s_restart st then restart s else s in
  let '(s1, err) := update_f e (s_faults st) (sync e (set_pending s0 false) (s_ops st)) in
  let asked := i_pending s1 in
  let s1' := set_pending s1 (asked || i_pending s0) in
  let s2 := if s_defer st then s1' else queue_reloads (s_qfail st) s1' in
  (s2, err, asked).

(* replay: true when every step's observation is the model's *)
(* [chk_run] = false: no haproxy was attached (C05), the running state is not compared *)
Fixpoint replay (chk_run : bool) (e : env) (s : inst) (l : list ostep) : bool :=
  match l with
  | [] => true
  | st :: l' =>
    let '(s2, err, asked) := replay_step e s st in
    sobs_eqb (observe e s2 err asked (chk_run && run_matches e s2)) (s_obs st) && replay chk_run e s2 l'
  end.

Definition case_ok (chk_run : bool) (c : hcase) : bool := replay chk_run (env_of c) inst_empty (h_steps c).
Definition mismatches (cs : list hcase) : list N := map h_id (filter (fun c => negb (case_ok true c)) cs).

(* diagnostics: the model's observation at each step *)
Fixpoint model_trace (e : env) (s : inst) (l : list ostep) : list sobs :=
  match l with
  | [] => []
  | st :: l' =>
    let '(s2, err, asked) := replay_step e s st in
    observe e s2 err asked (run_matches e s2) :: model_trace e s2 l'
  end.
