(* Correspondence for C11: same cases as C02 (one real Instance.HAProxyUpdate each, driven by
   cmd/c11 with churn / no-op histories and no socket faults); compared here are the
   observables C11 speaks about: reload or not, whether Shrink kept the old object, and the
   slot layout (Backend.Endpoints, every field) of every backend after the update - re-created
   ones and, when a reload aligned them, the untouched ones. *)
From HI Require Export Corr.Corr_C02.

Definition bcase_ok11 (sorted : bool) (b : bcase) (r : bres) : bool :=
  Bool.eqb (br_shrunk r) (bc_obs_shrunk b) && (br_panic r || eps_same sorted (br_eps r) (bc_obs_res b)).

Definition case_ok11 (c : step_case) : bool :=
  let o := step (to_step_in c) in
  if sc_obs_panic c then model_panic o
  else
    negb (model_panic o) &&
    Bool.eqb (so_reload o) (sc_obs_reload c) &&
    all2 (bcase_ok11 (sc_sorted c)) (sc_backs c) (so_backs o) &&
    all2 (fun oc eps => eps_same (sc_sorted c) eps (oc_obs_res oc)) (sc_others c) (so_others o).

Definition mismatches (cs : list step_case) : list N :=
  map sid (filter (fun c => negb (case_ok11 c)) cs).
