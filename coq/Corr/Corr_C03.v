(* Correspondence for C03: the harness ran the real controller pipeline (fake client ->
   watchers -> converter -> instance -> templates) on a cluster, evaluated requests on the
   written haproxy.cfg + maps with cfgnorm.Route, and recorded for each request the set of
   enabled servers (ip, port, weight = 0) it reaches, or "404".  The model is run on the
   projected cluster and must give the same set for every request. *)
From Coq Require Export ZArith NArith List String Bool.
From HI Require Export Model.Route.
Export ListNotations.
Open Scope string_scope.

Inductive obs := OServe (l : list (string * Z * bool)) | ONotFound.

Record rcase := { cid : N; ccl : cluster; creqs : list (request * obs) }.

Definition triple_eqb (a b : string * Z * bool) : bool :=
  (fst (fst a) =? fst (fst b)) && (snd (fst a) =? snd (fst b))%Z && Bool.eqb (snd a) (snd b).
Definition count (x : string * Z * bool) (l : list (string * Z * bool)) : nat :=
  List.length (filter (triple_eqb x) l).
(* equality of multisets *)
Definition same_servers (a b : list (string * Z * bool)) : bool :=
  forallb (fun x => Nat.eqb (count x a) (count x b)) (a ++ b).

Definition obs_of (o : outcome) : obs :=
  match o with
  | Serve srv => OServe (map (fun s => (sv_ip s, sv_port s, sv_drain s)) srv)
  | NotFound => ONotFound
  end.

Definition obs_eqb (a b : obs) : bool :=
  match a, b with
  | OServe x, OServe y => same_servers x y
  | ONotFound, ONotFound => true
  | _, _ => false
  end.

Definition rcase_ok (c : rcase) : bool :=
  let st := sync_full (ccl c) in
  forallb (fun ro => obs_eqb (obs_of (route st (fst ro))) (snd ro)) (creqs c).

Definition mismatches (cs : list rcase) : list N :=
  map cid (filter (fun c => negb (rcase_ok c)) cs).

(* short constructors for the generated terms *)
Definition PR := Build_portref.
Definition IP := Build_ipath.
Definition IR := Build_irule.
Definition ING := Build_ingress.
Definition SP := Build_sport.
Definition SVC := Build_service.
Definition EPP := Build_epport.
Definition SS := Build_subset.
Definition EP := Build_endpoints.
Definition CP := Build_cport.
Definition POD := Build_pod.
Definition CL := Build_cluster.
Definition RQ := Build_request.
