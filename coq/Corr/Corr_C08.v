(* Correspondence for C08. The harness ran, on the real code of /repo:
   - CDecide: IsValidIngress / GetIngress / GetIngressList of the real cache facade on a
     cluster (ingresses sorted by name), and the same three calls on the legacy
     controller's k8scache (client-go listers over in-memory indexers);
   - CEvents: a raw event stream through the real watchers (one batch);
   - CWatch: client operations through the fake cluster, the real watchers and, at each
     OSwap, the real converters; per reconciliation the batch handed over and the
     ingresses whose host is in the haproxy model;
   - CWatchIC: the same kind of history with IngressClass create / update (controller,
     parameters, metadata only) / delete events next to the Ingress events, evaluated on
     Model/ClassWatchIC.v whose class table changes along the history; per
     reconciliation the batch, Links[IngressClass], the ingresses whose host or TCP
     service port is in the haproxy model (HTTP ingresses and tcp-service-port ingresses
     with their backend in a rule or only in spec.defaultBackend), and those of them that
     the real tracker links to the IngressClass they name: the premise of the theorem,
     checked after every reconciliation, before any IngressClass event needs it. *)
From Coq Require Export String List Bool NArith.
From HI Require Export Lib.XNs_Strs Model.ClassSel Model.ClassWatch Model.ClassWatchIC.
Export ListNotations.
Open Scope string_scope.
Open Scope list_scope.

Record obatch := {
  ob_add : list (string * N);
  ob_upd : list (string * N);
  ob_del : list (string * N);
  ob_links : list string;
  ob_notes : N }.

Inductive ccase :=
| CDecide (id : N) (c : cfg) (cls : classes) (ings : list ingress)
          (valid get : list bool) (lst : list string)
          (lvalid lget : list bool) (llst : list string)   (* legacy controller *)
| CEvents (id : N) (c : cfg) (cls : classes) (evs : list wevent) (b : obatch)
| CWatch (id : N) (c : cfg) (cls : classes) (ops : list op) (obs : list (obatch * list string))
| CWatchIC (id : N) (c : cfg) (ks0 : list iclass) (ops : list op2)
           (obs : list (obatch * list string * list string * list string)).

Definition case_id (x : ccase) : N :=
  match x with CDecide id _ _ _ _ _ _ _ _ _ => id | CEvents id _ _ _ _ => id | CWatch id _ _ _ _ => id | CWatchIC id _ _ _ _ => id end.

Fixpoint list_eqb {A B} (eqb : A -> B -> bool) (a : list A) (b : list B) : bool :=
  match a, b with
  | [], [] => true
  | x :: r, y :: s => eqb x y && list_eqb eqb r s
  | _, _ => false
  end.

Definition name_rv_eqb (a b : string * N) : bool := String.eqb (fst a) (fst b) && N.eqb (snd a) (snd b).

Definition proj_ings (l : list ingress) : list (string * N) := map (fun i => (i_name i, i_rv i)) l.

Definition batch_matches (b : batch) (o : obatch) : bool :=
  list_eqb name_rv_eqb (proj_ings (b_add b)) (ob_add o) &&
  list_eqb name_rv_eqb (proj_ings (b_upd b)) (ob_upd o) &&
  list_eqb name_rv_eqb (proj_ings (b_del b)) (ob_del o) &&
  list_eqb String.eqb (b_links b) (ob_links o) &&
  N.eqb (b_notes b) (ob_notes o).

(* the configured hosts are compared as a set of ingress names *)
Definition same_names (a b : list string) : bool :=
  forallb (fun n => mem n b) a && forallb (fun n => mem n a) b && Nat.eqb (length a) (length b).

Definition obs_matches (m : batch * list string) (o : obatch * list string) : bool :=
  batch_matches (fst m) (fst o) && same_names (snd m) (snd o).

(* o = (batch, Links[IngressClass], configured ingresses, configured ingresses that the real
   tracker links to the IngressClass they name) *)
Definition obs2_matches (m : batch2 * list string * list string)
    (o : obatch * list string * list string * list string) : bool :=
  batch_matches (q_b (fst (fst m))) (fst (fst (fst o))) &&
  list_eqb String.eqb (q_cl (fst (fst m))) (snd (fst (fst o))) &&
  same_names (snd (fst m)) (snd (fst o)) &&
  same_names (snd m) (snd o).

Definition case_ok (x : ccase) : bool :=
  match x with
  | CDecide _ c cls ings valid get lst lvalid lget llst =>
      list_eqb Bool.eqb (map (is_valid c cls) ings) valid &&
      list_eqb Bool.eqb (map (fun i => is_some (get_ingress c cls ings (i_name i))) ings) get &&
      list_eqb String.eqb (names (get_ingress_list c cls ings)) lst &&
      list_eqb Bool.eqb (map (is_valid_legacy c cls) ings) lvalid &&
      list_eqb Bool.eqb (map (fun i => match find_ingress ings (i_name i) with
                                       | Some j => is_valid_legacy c cls j
                                       | None => false end) ings) lget &&
      list_eqb String.eqb (names (filter (is_valid_legacy c cls) ings)) llst
  | CEvents _ c cls evs b =>
      batch_matches (fold_left (handle c cls) evs batch0) b
  | CWatch _ c cls ops obs =>
      list_eqb obs_matches (w_obs (run c cls ops)) obs
  | CWatchIC _ c ks0 ops obs =>
      list_eqb obs2_matches (s_obs (run2 c ks0 ops)) obs
  end.

Definition mismatches (cs : list ccase) : list N :=
  map case_id (filter (fun x => negb (case_ok x)) cs).
