(* Correspondence for C02 (and C11, which reuses the case type): one case = one real
   Instance.HAProxyUpdate driven end to end against harness/lib/fakehaproxy.
   Compared, model vs implementation:
     - reload or not (a `reload` arrived at the master socket);
     - per re-created backend: whether Shrink kept the old object, the exact command lines
       received on the admin socket, the resulting Backend.Endpoints (every field);
     - per re-created host: the command lines (set ssl cert / commit ssl cert);
     - alignSlots on the untouched backends when a reload happens;
     - apply_cmd vs the fake: the fake's servers after the commands it executed. The fake keeps
       HAProxy's process generations apart: a reload starts a new generation that loads the files
       and accepts the new admin connections, the former one keeps serving the connections it had
       accepted (soft stop) on its own state. What is observed here (bc_before / bc_after, and by
       the harness oracle) is always the LISTENING generation; a command executed by a former
       generation counts as not executed (bc_executed = false);
     - load vs the template + the fake's parser: the servers parsed from the files written. *)
From Coq Require Export List String Bool ZArith NArith.
From HI Require Export Model.Dyn.
Export ListNotations.
Open Scope string_scope.

Definition E := mkE.
Definition S_ := mkS.

Record bcase := mkBC {
  bc_old : option backend;
  bc_cur : backend;
  bc_early : list N;                  (* digests of bc_cur as Backends.Shrink saw them *)
  bc_affinity : bool;                 (* Backend.CookieAffinity(): cookie values are rendered *)
  bc_answers : list answer;           (* what the fake answered to this backend's commands, in order *)
  bc_executed : list bool;            (* per command: did the fake execute it (false: lost or refused) *)
  bc_obs_shrunk : bool;
  bc_obs_cmds : list string;
  bc_obs_res : list endpoint;
  bc_before : list server;            (* fake, before the update *)
  bc_after : list server;             (* fake, after the update *)
  bc_loaded : list server }.          (* parse of the files on disk after the update *)

Record hcase := mkHC {
  hc_old : option host;
  hc_cur : host;
  hc_answers : list answer;
  hc_obs_shrunk : bool;
  hc_obs_cmds : list string }.

Record ocase := mkOC { oc_back : backend; oc_obs_res : list endpoint }.

Record step_case := mkSC {
  sid : N;
  sc_committed : bool;
  sc_other_changed : bool;
  sc_host_removed : bool;
  sc_back_removed : bool;
  sc_hosts : list hcase;
  sc_backs : list bcase;
  sc_others : list ocase;
  sc_sorted : bool;          (* sort-endpoints-by is not the API order: compare endpoint lists as multisets *)
  sc_written : bool;         (* haproxy.cfg was rewritten by this update *)
  sc_obs_reload : bool;
  sc_obs_panic : bool }.

Definition resp_of (l : list answer) : nat -> answer := fun n => nth n l (AText "").

Definition to_step_in (c : step_case) : step_in :=
  mkSI (sc_committed c) (sc_other_changed c) (sc_host_removed c) (sc_back_removed c)
       (map (fun h => mkHP (hc_old h) (hc_cur h) (resp_of (hc_answers h))) (sc_hosts c))
       (map (fun b => mkBP (bc_old b) (bc_cur b) (bc_early b) (resp_of (bc_answers b))) (sc_backs c))
       (map oc_back (sc_others c)).

Fixpoint strs_eqb (a b : list string) : bool :=
  match a, b with
  | [], [] => true
  | x :: a', y :: b' => (x =? y) && strs_eqb a' b'
  | _, _ => false
  end.

Fixpoint remove_first (e : endpoint) (l : list endpoint) : option (list endpoint) :=
  match l with
  | [] => None
  | x :: l' => if ep_eqb e x then Some l'
               else match remove_first e l' with Some r => Some (x :: r) | None => None end
  end.
Fixpoint eps_perm (a b : list endpoint) : bool :=
  match a with
  | [] => match b with [] => true | _ => false end
  | x :: a' => match remove_first x b with Some b' => eps_perm a' b' | None => false end
  end.
(* sort-endpoints-by ip or random rewrites SourceIP-free lists only by order *)
Definition eps_same (sorted : bool) (a b : list endpoint) : bool :=
  if sorted then eps_perm a b else eps_eqb a b.

Definition adm_eqb (a b : adm) : bool :=
  match a, b with Ready, Ready | Drain, Drain | Maint, Maint => true | _, _ => false end.
Definition srv_eqb (a b : server) : bool :=
  (s_name a =? s_name b) && (s_addr a =? s_addr b) && (s_port a =? s_port b)%Z &&
  (s_weight a =? s_weight b)%Z && adm_eqb (s_adm a) (s_adm b) && (s_cookie a =? s_cookie b).
Fixpoint srvs_eqb (a b : list server) : bool :=
  match a, b with
  | [], [] => true
  | x :: a', y :: b' => srv_eqb x y && srvs_eqb a' b'
  | _, _ => false
  end.
(* same servers whatever the order: every server of a is in b under its name, and same List.length *)
Definition srvs_same (a b : list server) : bool :=
  (List.length a =? List.length b)%nat &&
  forallb (fun x => match lookup (s_name x) b with Some y => srv_eqb x y | None => false end) a &&
  forallb (fun y => match lookup (s_name y) a with Some _ => true | None => false end) b.

(* the template writes the cookie value only under cookie affinity *)
Definition load_rendered (affinity : bool) (eps : list endpoint) : list server :=
  map (fun e => let s := load_ep e in
                mkS (s_name s) (s_addr s) (s_port s) (s_weight s) (s_adm s)
                    (if affinity then s_cookie s else "")) eps.

Fixpoint keep_executed (cs : list cmd) (ex : list bool) : list cmd :=
  match cs, ex with
  | c :: cs', true :: ex' => c :: keep_executed cs' ex'
  | _ :: cs', false :: ex' => keep_executed cs' ex'
  | _, _ => []
  end.

Definition bcase_ok (sorted written reload : bool) (b : bcase) (r : bres) : bool :=
  Bool.eqb (br_shrunk r) (bc_obs_shrunk b) &&
  strs_eqb (map render_cmd (br_cmds r)) (bc_obs_cmds b) &&
  (br_panic r || eps_same sorted (br_eps r) (bc_obs_res b)) &&
  (* apply_cmd in lock-step with the fake *)
  (reload || br_panic r ||
   srvs_eqb (apply_cmds (bc_before b) (keep_executed (br_cmds r) (bc_executed b))) (bc_after b)) &&
  (* load in lock-step with the template and the fake's parser *)
  (* (a backend using a DNS resolver is written as one server-template line) *)
  (negb written || br_panic r || negb (b_resolver (bc_cur b) =? "") ||
   srvs_same (load_rendered (bc_affinity b) (br_eps r)) (bc_loaded b)).

(* hc_obs_cmds holds every command received for the certificate file of the host; hosts
   sharing one file each send the same two commands (in an order Go's map iteration picks),
   so the model's commands of one host must open that list and the totals must agree *)
Fixpoint strs_prefix (a b : list string) : bool :=
  match a, b with
  | [], _ => true
  | x :: a', y :: b' => (x =? y) && strs_prefix a' b'
  | _, [] => false
  end.
Definition hcase_ok (h : hcase) (r : hres) : bool :=
  Bool.eqb (hr_shrunk r) (hc_obs_shrunk h) && strs_prefix (map render_cmd (hr_cmds r)) (hc_obs_cmds h).
Definition cert_totals_ok (hs : list hcase) (rs : list hres) : bool :=
  forallb (fun h =>
    Nat.eqb (List.length (hc_obs_cmds h))
     (fold_right (fun (hr : hcase * hres) (acc : nat) =>
                   if String.eqb (h_file (hc_cur (fst hr))) (h_file (hc_cur h))
                   then (List.length (hr_cmds (snd hr)) + acc)%nat else acc)
                O (combine hs rs))) hs.

Fixpoint all2 {A B} (f : A -> B -> bool) (a : list A) (b : list B) : bool :=
  match a, b with
  | [], [] => true
  | x :: a', y :: b' => f x y && all2 f a' b'
  | _, _ => false
  end.

Definition model_panic (o : step_out) : bool := existsb br_panic (so_backs o).

Definition case_ok (c : step_case) : bool :=
  let o := step (to_step_in c) in
  if sc_obs_panic c then model_panic o
  else
    negb (model_panic o) &&
    Bool.eqb (so_reload o) (sc_obs_reload c) &&
    all2 (bcase_ok (sc_sorted c) (sc_written c) (sc_obs_reload c)) (sc_backs c) (so_backs o) &&
    all2 hcase_ok (sc_hosts c) (so_hosts o) && cert_totals_ok (sc_hosts c) (so_hosts o) &&
    all2 (fun oc eps => eps_same (sc_sorted c) eps (oc_obs_res oc)) (sc_others c) (so_others o).

Definition mismatches (cs : list step_case) : list N :=
  map sid (filter (fun c => negb (case_ok c)) cs).

(* diagnostics for a mismatching case (not used by the check) *)
Definition why (c : step_case) :=
  let o := step (to_step_in c) in
  (so_reload o, model_panic o,
   map (fun br => (br_shrunk br, br_updated br, map render_cmd (br_cmds br), br_eps br)) (so_backs o),
   map (fun hr => (hr_shrunk hr, hr_updated hr, map render_cmd (hr_cmds hr))) (so_hosts o),
   so_others o).
