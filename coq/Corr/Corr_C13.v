(* Correspondence for C13.
   Limiter cases: the harness drove the real When of one of the two limiters in virtual
   time (the hook sets `last` before every call and reads it back) and recorded, in absolute
   virtual nanoseconds, for every call: the value of `last` before, the clock reading
   before the call (s_lo), the distance to the clock reading after it (s_width), the
   returned delay and the value of `last` after. The instant of the clock read inside When
   is not observable, but grant = now + delay = new last determines it: it must lie in the
   bracket, and the model evaluated at that instant must give exactly the observed
   (delay, last). The whole sequence is then replayed through run_when. *)
From Coq Require Export ZArith NArith List Bool.
From HI Require Export Model.Limiter Model.Queue.
Export ListNotations.
Open Scope Z_scope.

Record lstep := { s_before : Z; s_lo : Z; s_width : Z; s_delay : Z; s_after : Z }.
Record lcase := { lid : N; lreload : bool; ldelta : Z; lwait : Z; lsteps : list lstep }.

Definition the_when (c : lcase) : whenfn :=
  if lreload c then reload_when (ldelta c) else reconciler_when (ldelta c) (lwait c).

Definition call_instant (s : lstep) : Z := s_after s - s_delay s.

Definition pair_eqb (a b : Z * Z) : bool := (fst a =? fst b) && (snd a =? snd b).

Definition step_ok (f : whenfn) (s : lstep) : bool :=
  let t := call_instant s in
  (s_lo s <=? t) && (t <=? s_lo s + s_width s) && (s_width s <=? 200000) &&
  pair_eqb (f (s_before s) t) (s_delay s, s_after s).

(* each call starts from the state the previous one left *)
Fixpoint chained (l : list lstep) : bool :=
  match l with
  | a :: (b :: _) as r => (s_after a =? s_before b) && chained r
  | _ => true
  end.

Fixpoint pairs_eqb (a b : list (Z * Z)) : bool :=
  match a, b with
  | [], [] => true
  | x :: a', y :: b' => pair_eqb x y && pairs_eqb a' b'
  | _, _ => false
  end.

Definition lcase_ok (c : lcase) : bool :=
  let f := the_when c in
  forallb (step_ok f) (lsteps c) && chained (lsteps c) &&
  match lsteps c with
  | [] => true
  | s0 :: _ =>
      pairs_eqb (run_when f (s_before s0) (map call_instant (lsteps c)))
                (map (fun s => (s_delay s, s_after s)) (lsteps c))
  end.

(* Queue cases: the real client-go rate-limiting queue on a fake clock, fed by the real
   limiter in virtual time (all instants multiples of 1 ms, the limiter's answers snapped
   to that grid), the single worker played by the harness. After every event the harness
   waited for the queue's waiting loop to block again and recorded Len(); for a hand-over
   it recorded the item Get returned. The model must accept the history (every internal
   event exactly when due) and show the same queue length and the same item.
   Wrapper cases use the same record: there the real pkg/utils/workqueue.WorkQueue (New,
   Start, Add, process) runs on that queue; WorkQueue.Add is an Arrive, the start of the
   callback in the real worker goroutine is the Get, a callback returning nil (Forget + Done)
   is a Done, a callback returning an error (AddRateLimited + Done) is an Arrive followed by a
   Done at the same instant.
   Reconciler cases use the same record too: the reconciler's real queue and rate limiter
   (hook VerifNewReconcilerQueue) with every producer of requests: a watcher notification
   accepted by the real handlers is `Arrive 0` (partial) or `Arrive 1` (full), the full sync
   asked by leaderChanged(true) once the watchers run is `Arrive 1`, a Reconcile that failed
   with an error is `Arrive item` then Done, one that returned RequeueAfter is
   `Retry item d` then Done (Forget + AddAfter: the limiter is not consulted). A request
   that reaches the queue without going through the limiter (queue.Add) does not match
   `Arrive` and shows as a mismatch. *)
Record qcase := { qid : N; qreload : bool; qdelta : Z; qwait : Z; qD : Z;
                  qevents : list (Z * qevent); qobs : list (Z * option nat * option Z) }.
(* per event: Len() (negative: not observed), the item Get returned, and -- after every
   call of the limiter's When (Arrive) or Forget -- the limiter's `last` read back through
   the hook, in virtual time *)

Definition far_past : Z := - 4611686018427387904.

Fixpoint qcheck (f : whenfn) (D : Z) (st : qstate) (evs : list (Z * qevent))
                (obs : list (Z * option nat * option Z)) : bool :=
  match evs, obs with
  | [], [] => true
  | e :: evs', (len, it, lst) :: obs' =>
      match qstep f D st e with
      | None => false
      | Some st' =>
          (* len < 0: not observed (between two timers of one instant) *)
          ((len <? 0) || (Z.of_nat (length (q_fifo st')) =? len)) &&
          match lst with Some l => q_last st' =? l | None => true end &&
          match snd e, it with
          | Get _, Some i => match q_log st' with ORun j _ :: _ => Nat.eqb i j | _ => false end
          | Get _, None => false
          | _, None => true
          | _, Some _ => false
          end && qcheck f D st' evs' obs'
      end
  | _, _ => false
  end.

Definition qcase_ok (c : qcase) : bool :=
  let f := if qreload c then reload_when (qdelta c) else reconciler_when (qdelta c) (qwait c) in
  qcheck f (qD c) (q_init far_past 0) (qevents c) (qobs c).

Inductive ccase := LC (c : lcase) | QC (c : qcase).

Definition case_id (c : ccase) : N := match c with LC c => lid c | QC c => qid c end.
Definition case_ok (c : ccase) : bool := match c with LC c => lcase_ok c | QC c => qcase_ok c end.

Definition mismatches (cs : list ccase) : list N :=
  map case_id (filter (fun c => negb (case_ok c)) cs).
