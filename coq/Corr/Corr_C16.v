(* Correspondence for C16: the harness ran convutils.RebalanceWeight on the
   clusters and recorded the resulting weights. *)
From Coq Require Export ZArith NArith List String.
From HI Require Export Model.Weights.
Export ListNotations.
Open Scope Z_scope.

Record rcase := { rid : N; riw : Z; rcls : list (Z * Z); robs : list Z }.

Definition mk_cls (l : list (Z * Z)) : list cluster :=
  map (fun p => {| cw := fst p; clen := snd p |}) l.

Definition zlist_eqb (a b : list Z) : bool :=
  if list_eq_dec Z.eq_dec a b then true else false.

Definition rcase_ok (c : rcase) : bool := zlist_eqb (rebalance (mk_cls (rcls c)) (riw c)) (robs c).

Definition mismatches (cs : list rcase) : list N :=
  map rid (filter (fun c => negb (rcase_ok c)) cs).
