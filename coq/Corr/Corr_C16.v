(* Correspondence for C16: the harness ran convutils.RebalanceWeight on the
   clusters and recorded the resulting weights. *)
From Coq Require Export ZArith NArith List String.
From HI Require Export Model.Weights.
Export ListNotations.
Open Scope Z_scope.

Record rcase := { rid : N; riw : Z; rcls : list (Z * Z); robs : list Z }.

Definition mk_cls (l : list (Z * Z)) : list cluster :=
  map (fun p => {| cw := fst p; clen := snd p |}) l.

Definition zlist_eqb (a b : list Z) : bool :=
  if list_eq_dec Z.eq_dec a b then true else false.

Definition rcase_ok (c : rcase) : bool := zlist_eqb (rebalance (mk_cls (rcls c)) (riw c)) (robs c).

(* blue/green through the real annotations updater: configured weights as parsed from the
   annotation, mode (true = pod), endpoints (draining?, matched group indices), and the
   weights the real code wrote on the endpoints *)
Record bcase := { bid : N; biw : Z; bpod : bool; bws : list Z; beps : list (bool * list nat); bobs : list Z }.

Definition bcase_ok (c : bcase) : bool :=
  zlist_eqb (if bpod c then bg_pod_weights (bws c) (beps c) else bg_server_weights (bws c) (biw c) (beps c)) (bobs c).

Inductive anycase := R (c : rcase) | B (c : bcase).

Definition mismatches (cs : list anycase) : list N :=
  flat_map (fun a => match a with
                     | R c => if rcase_ok c then [] else [rid c]
                     | B c => if bcase_ok c then [] else [bid c]
                     end) cs.
