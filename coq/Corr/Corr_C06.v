(* Correspondence for C06: the harness ran the real code and recorded what it did; the model
   of Model/Order.v (and sort_ings of Model/Conv.v) is evaluated on the same input.
   Projected observables only: sorted names, key/value pairs, (source, value) answers of
   the mapper, conflict keys as sets, per host (app-root, redirect-from holder fields). *)
From Coq Require Export ZArith NArith List String Bool Ascii.
From Coq Require Import DecimalString.
From HI Require Export Model.Tracker Model.Conv Model.Order.
Export ListNotations.
Open Scope string_scope.
Open Scope list_scope.

(* ---- helpers ---- *)
Definition str_list_eqb (a b : list string) : bool := if list_eq_dec string_dec a b then true else false.
Definition pair_eqb (a b : string * string) : bool := String.eqb (fst a) (fst b) && String.eqb (snd a) (snd b).
Definition ostr_eqb (a b : option string) : bool :=
  match a, b with
  | Some x, Some y => String.eqb x y
  | None, None => true
  | _, _ => false
  end.
Definition ans_eqb (a b : option string * string) : bool := ostr_eqb (fst a) (fst b) && String.eqb (snd a) (snd b).

Fixpoint list_eqb {A} (eqb : A -> A -> bool) (a b : list A) : bool :=
  match a, b with
  | [], [] => true
  | x :: r, y :: s => eqb x y && list_eqb eqb r s
  | _, _ => false
  end.

(* sort.Strings *)
Definition sort_strs (l : list string) : list string := isort str_ltb l.

(* ---- validators of annotations/validator.go that the harness uses ---- *)
(* strconv.ParseBool then FormatBool *)
Definition parse_bool (s : string) : option bool :=
  if existsb (String.eqb s) ["1"; "t"; "T"; "TRUE"; "true"; "True"] then Some true
  else if existsb (String.eqb s) ["0"; "f"; "F"; "FALSE"; "false"; "False"] then Some false
  else None.
(* strconv.Atoi then Itoa (small numbers) *)
Definition itoa (z : Z) : string := NilZero.string_of_int (Z.to_int z).
Definition bool_keys := ["cors-allow-credentials"; "hsts"; "hsts-preload"; "hsts-include-subdomains"; "ssl-redirect"].
Definition int_keys := ["hsts-max-age"].
Definition vld_real (k v : string) : option string :=
  if existsb (String.eqb k) bool_keys then option_map (fun b : bool => if b then "true" else "false") (parse_bool v)
  else if existsb (String.eqb k) int_keys then option_map itoa (parse_int v)
  else Some v.

(* ---- cases ---- *)
Record hing_in := {
  hn_ns : string; hn_name : string; hn_stamp : Z;
  hn_rules : list (string * nat);        (* rule host, number of paths *)
  hn_tls : list string;                  (* hosts of the tls blocks *)
  hn_ann : annots                        (* metadata.annotations *)
}.

Inductive ccase :=
  (* sortIngress: (ns, name, stamp) in the order handed to the code; observed ns/name order *)
| CSort (id : N) (ings : list (string * string * Z)) (observed : list string)
  (* readConfigKeys: prefixes, annotations; observed keys (sorted by key) *)
| CKeys (id : N) (prefixes : list string) (ann : annots) (observed : annots)
  (* Mapper: defaults, calls (source, path, annotations), then
     Get(key) answers, GetConfig(path).Get(key) answers, the conflicts of every call (sorted) *)
| CMapper (id : N) (defaults : annots) (calls : list (string * string * annots))
          (gets : list (string * (option string * string)))
          (pgets : list (string * string * (option string * string)))
          (conflicts : list (list string))
  (* converter + updater through the real pipeline: ingresses in the order of the API list;
     observed per host (sorted by hostname): app-root, RedirectHost, RedirectHostRegex *)
| CHosts (id : N) (prefixes : list string) (ings : list hing_in)
         (observed : list (string * (string * (string * string))))
  (* Frontend.AcquireAuthBackendName on a fresh frontend with cap ports: granted? per request *)
| CAlloc (id : N) (cap : nat) (requests : list string) (observed : list bool)
  (* updater.findBackend of oauth through the real pipeline: the hosts of the haproxy model
     (hostname, [(path, namespace of the backend, backend id)]) and, per protected path,
     (own host, namespace, uri prefix, the auth backend configured if any) *)
| COAuth (id : N) (visit : list ohost) (queries : list (string * string * string * option string))
  (* server-alias through the real pipeline: named hosts (hostname, alias), the backend of
     the root path of every host, and per name the backend that answers http://name/ *)
| CAlias (id : N) (visit : list (string * string)) (roots : list (string * string))
         (queries : list (string * option string))
  (* tcp-services ConfigMap through the real pipeline: the data, the values whose service and
     port exist, and per port number the value that configured it (if any) *)
| CTcp (id : N) (visit : list (string * string)) (valid_values : list string)
       (queries : list (Z * option string))
  (* sortHTTPRoutes (tcp = false) / sortTCPRoutes (tcp = true): (ns, name, stamp) in the order
     handed to the code; observed ns/name order *)
| CRouteSort (id : N) (tcp : bool) (routes : list (string * string * Z)) (observed : list string)
  (* EndpointSlices through the real pipeline: drain-support, the name of the service port, the
     slices as (ports, endpoints) in the order they were stored, and per target the server of
     the backend: None = none, Some true = serving, Some false = weight 0 *)
| CSlices (id : N) (drain : bool) (pname : string)
          (slices : list (list (string * Z) * list (string * option bool)))
          (queries : list (string * Z * option bool)).

Definition case_id (c : ccase) : N :=
  match c with
  | CSort i _ _ | CKeys i _ _ _ | CMapper i _ _ _ _ _ | CHosts i _ _ _
  | CAlloc i _ _ _ | COAuth i _ _ | CAlias i _ _ _ | CTcp i _ _ _ | CRouteSort i _ _ _ | CSlices i _ _ _ _ => i
  end.

Definition mk_ing (ns name : string) (stamp : Z) : ingress :=
  {| i_ns := ns; i_name := name; i_stamp := stamp; i_class := None; i_rules := []; i_tls := [] |}.

Definition mk_hing (h : hing_in) : hing :=
  {| hi_ing := mk_ing (hn_ns h) (hn_name h) (hn_stamp h); hi_rules := hn_rules h; hi_tls := hn_tls h; hi_raw := hn_ann h |}.

Definition mk_call (c : string * string * annots) : call :=
  {| c_src := fst (fst c); c_path := snd (fst c); c_ann := snd c |}.

(* the conflicts of every call, in call order *)
Fixpoint conflicts_of (m : mlog) (cs : list call) : list (list string) :=
  match cs with
  | [] => []
  | c :: r => let res := add_annotations vld_real m (c_src c) (c_path c) (c_ann c) in
              sort_strs (snd res) :: conflicts_of (fst res) r
  end.

Definition hosts_obs (prefixes : list string) (ings : list hing) : list (string * (string * (string * string))) :=
  let sorted := sort_hings ings in
  let st := host_redirects vld_real [] prefixes ings in
  map (fun h => (h, (host_app_root vld_real [] prefixes ings h,
                     match assoc h st with Some r => r | None => ("", "") end)))
      (sort_strs (decl_order sorted)).

Definition host_obs_eqb (a b : string * (string * (string * string))) : bool :=
  String.eqb (fst a) (fst b) && String.eqb (fst (snd a)) (fst (snd b)) &&
  String.eqb (fst (snd (snd a))) (fst (snd (snd b))) && String.eqb (snd (snd (snd a))) (snd (snd (snd b))).

Definition case_ok (c : ccase) : bool :=
  match c with
  | CSort _ ings obs =>
      str_list_eqb (map i_full (sort_ings (map (fun t => mk_ing (fst (fst t)) (snd (fst t)) (snd t)) ings))) obs
  | CKeys _ prefixes ann obs =>
      let keys := read_config_keys (map (fun p => (p, ann)) prefixes) in
      Nat.eqb (List.length keys) (List.length obs) &&
      forallb (fun kv => ostr_eqb (assoc (fst kv) keys) (Some (snd kv))) obs
  | CMapper _ defaults calls gets pgets conflicts =>
      let cs := map mk_call calls in
      let m := run_calls vld_real [] cs in
      forallb (fun q => ans_eqb (mget defaults m (fst q)) (snd q)) gets &&
      forallb (fun q => ans_eqb (cget defaults m (fst (fst q)) (snd (fst q))) (snd q)) pgets &&
      list_eqb str_list_eqb (conflicts_of [] cs) conflicts
  | CHosts _ prefixes ings obs =>
      list_eqb host_obs_eqb (hosts_obs prefixes (map mk_hing ings)) obs
  | CAlloc _ cap requests obs =>
      list_eqb Bool.eqb (map snd (alloc_auth cap requests)) obs
  | COAuth _ visit queries =>
      forallb (fun q => match q with
                        | (own, ns, prefix, obs) => ostr_eqb (find_oauth visit own ns prefix) obs
                        end) queries
  | CAlias _ visit roots queries =>
      forallb (fun q => ostr_eqb (match alias_owner visit (fst q) with
                                  | Some h => assoc h roots
                                  | None => assoc (fst q) roots
                                  end) (snd q)) queries
  | CTcp _ visit valid_values queries =>
      forallb (fun q => ostr_eqb (option_map snd (tcp_owner (fun v => existsb (String.eqb v) valid_values) visit (fst q)))
                                 (snd q)) queries
  | CRouteSort _ _ routes obs =>
      str_list_eqb (map gr_full (sort_routes (map (fun t => {| gr_ing := mk_ing (fst (fst t)) (snd (fst t)) (snd t);
                                                                 gr_claims := [] |}) routes))) obs
  | CSlices _ drain pname slices queries =>
      let l := map (fun s => {| sl_ports := fst s; sl_eps := snd s |}) slices in
      forallb (fun q => match slice_server drain pname l (fst q), snd q with
                        | Some a, Some b => Bool.eqb a b
                        | None, None => true
                        | _, _ => false
                        end) queries
  end.

Definition mismatches (cs : list ccase) : list N :=
  map case_id (filter (fun c => negb (case_ok c)) cs).
