(* Correspondence for C18.  One case = one controller state on which the harness ran the
   REAL annotations.Updater in a fixed order: UpdateGlobalConfig (auth-proxy range, Lua
   flag), then UpdateHostConfig / UpdateBackendConfig calls (`ucalls`) on hosts and backends
   built with the real model types (a backend may be processed a second time, with other
   annotations and its paths reset, as after a partial sync: binds become unreferenced and
   the clean up of a full auth proxy can release them), then the real templates.
   Inputs of a call: the outcomes of the validation of each auth-url (computed by the harness
   from the url text and its own lookups), placements, oauth declarations, path ids / keys.
   Observed: per host path AuthExt, per backend path AuthExternal (projected to deny marker,
   auth backend name, allowed prefix, a tag standing for the remaining fields), the final
   bind list of the auth proxy, and the authentication rules of the rendered haproxy.cfg
   (frontend block, then per backend), projected to Model.AuthExt.rule.
   Rendered rules (Model/AuthRules.v), both directions:
   - `uxbacks`/`uxfront`: the Cors and AuthExternal rules PARSED from the real backend sections
     and from the real frontend, as xrules; they must be `gen_auth_rules` / `gen_frontend_rules`
     of the configuration (model state, observed Cors of each path, observed number of copied
     headers and redirect flag per configuration tag `uextras`): a template edit breaks this;
   - `uprobes`: requests the Go evaluator of the harness (lib/c1819 RunAuth) ran through those
     parsed rules, with its verdict; `eval_rules` must give the same verdict: the evaluator
     the oracle relies on is tied to the semantics the theorems are about;
   - `uused`: before every UpdateHostConfig / UpdateBackendConfig call, also after the changes of
     the earlier calls were committed (UCommit: the instance update of a real controller between
     two syncs), the set RemoveAuthBackendExcept would be given -- Backends().BuildUsedAuthBackends()
     plus the names of the host paths, read on the real objects -- must be the names referenced by
     ALL backends and hosts of the model state (premise of C18_referenced_binds_survive);
   - `uidmaps`: the entries (key of the host path, path id) READ FROM the real
     _back_<id>_idpath__*.map files; whenever the rules of a backend are scoped by path ids
     the maps must have an entry for every path of the backend (`ids_coverb`, the premise of
     C18_rendered_rules_fail_closed_mapped) with distinct keys: a path left out of the maps
     (txn.pathID unset) is a mismatch. *)
From Coq Require Export ZArith NArith List Bool.
From HI Require Export Model.AuthExt Model.AuthRules.
Export ListNotations.

Inductive ucall :=
  | UHost (h : N) (hplace : placement) (hurl : option (url_in * N)) (keys : list N)
  | UBackend (b : N) (ds : list pdecl)
  | UCommit.   (* the instance update between two syncs: files written, changes committed;
                  from then on the backends processed so far are "untouched" ones *)

Record ustate := {
  s_px : proxy;
  s_hosts : list (N * list (N * option auth));
  s_backs : list (N * list (N * auth)) }.

Definition opt_auth (o : option auth) : list auth := match o with Some a => [a] | None => [] end.

(* BuildUsedAuthBackends + the names held by the host paths *)
Definition used_of (s : ustate) : list Z :=
  ports_of (flat_map (fun b => map snd (snd b)) (s_backs s)) ++
  ports_of (flat_map (fun h => flat_map (fun p => opt_auth (snd p)) (snd h)) (s_hosts s)).

Fixpoint assoc {A} (k : N) (l : list (N * A)) : option A :=
  match l with
  | [] => None
  | (k', v) :: r => if N.eqb k k' then Some v else assoc k r
  end.

(* hasFrontendAuthExternal *)
Definition fe_of (s : ustate) (d : pdecl) : bool :=
  match assoc (d_host d) (s_hosts s) with
  | Some ps => match assoc (d_key d) ps with Some (Some _) => true | _ => false end
  | None => false
  end.

Definition run_call (lua : bool) (s : ustate) (c : ucall) : ustate :=
  match c with
  | UHost h hp hu keys =>
      let '(px', cf) := process_host lua (used_of s) (s_px s) hp hu keys in
      {| s_px := px'; s_hosts := s_hosts s ++ [(h, cf)]; s_backs := s_backs s |}
  | UBackend b ds =>
      (* a backend processed again was rebuilt first: its former paths are gone *)
      let s0 := {| s_px := s_px s; s_hosts := s_hosts s;
                   s_backs := filter (fun x => negb (N.eqb (fst x) b)) (s_backs s) |} in
      let '(px', cf) := process_backend lua (fe_of s0) (used_of s0) (s_px s0) ds in
      {| s_px := px'; s_hosts := s_hosts s0; s_backs := s_backs s0 ++ [(b, cf)] |}
  | UCommit => s
  end.

(* the `used` argument of RemoveAuthBackendExcept as the model computes it when a call
   starts: the names referenced by ALL the backends and host paths of the state *)
Definition used_before (s : ustate) (c : ucall) : option (list Z) :=
  match c with
  | UHost _ _ _ _ => Some (used_of s)
  | UBackend b _ =>
      Some (used_of {| s_px := s_px s; s_hosts := s_hosts s;
                       s_backs := filter (fun x => negb (N.eqb (fst x) b)) (s_backs s) |})
  | UCommit => None
  end.

Fixpoint used_trace (lua : bool) (s : ustate) (cs : list ucall) : list (list Z) :=
  match cs with
  | [] => []
  | c :: r =>
      match used_before s c with
      | Some u => u :: used_trace lua (run_call lua s c) r
      | None => used_trace lua (run_call lua s c) r
      end
  end.

Fixpoint insert_z (x : Z) (l : list Z) : list Z :=
  match l with
  | [] => [x]
  | y :: r => if (x <? y)%Z then x :: y :: r else if (x =? y)%Z then y :: r else y :: insert_z x r
  end.
Definition set_z (l : list Z) : list Z := fold_right insert_z [] l.

Record ucase := {
  uid : N; ulua : bool; ustart : Z; uend : Z; ucalls : list ucall;
  uhosts : list (N * list (N * option auth));     (* observed, in call order *)
  ubacks : list (N * list (N * auth));            (* observed, in call order *)
  ubinds : list (Z * N);                          (* observed AuthProxy.BindList *)
  uhorder : list N;                               (* hosts in template order *)
  ufront : list rule;                             (* rendered, frontend *)
  urules : list (N * list rule);                  (* rendered, per backend in call order *)
  uextras : list (N * extra);                     (* observed, by configuration tag *)
  uxbacks : list (N * (list (N * cors) * list xrule));  (* observed Cors per path; parsed rules *)
  uxfront : list xrule;                           (* parsed, frontend *)
  uprobes : list (N * xreq * bool * verdict);     (* backend (0 = frontend), request, services ok?, Go verdict *)
  uidmaps : list (N * list (N * N));              (* per backend: the real idpath maps *)
  uused : list (list Z) }.                        (* per host/backend call: the real used set *)

Fixpoint list_eqb {A} (e : A -> A -> bool) (a b : list A) : bool :=
  match a, b with
  | [], [] => true
  | x :: a', y :: b' => e x y && list_eqb e a' b'
  | _, _ => false
  end.

Definition pair_eqb {A B} (ea : A -> A -> bool) (eb : B -> B -> bool) (x y : A * B) : bool :=
  ea (fst x) (fst y) && eb (snd x) (snd y).

Definition cond_eqb (x y : cond) : bool :=
  match x, y with
  | CAll, CAll => true
  | CIds a, CIds b => list_eqb N.eqb a b
  | CKey a, CKey b => N.eqb a b
  | _, _ => false
  end.

Definition act_eqb (x y : act) : bool :=
  match x, y with
  | ADeny, ADeny => true
  | AIntercept a, AIntercept b => name_eqb a b
  | AGuard, AGuard => true
  | _, _ => false
  end.

Definition rule_eqb (x y : rule) : bool :=
  act_eqb (r_act x) (r_act y) && cond_eqb (r_cond x) (r_cond y) && opt_eqb N.eqb (r_skip x) (r_skip y).

Definition meth_list_eqb := list_eqb meth_eqb.

Definition term_eqb (x y : term) : bool :=
  match x, y with
  | TIds a, TIds b => list_eqb N.eqb a b
  | TKey a, TKey b => N.eqb a b
  | TMeth n a, TMeth m b => Bool.eqb n m && meth_list_eqb a b
  | TAuthFailed, TAuthFailed => true
  | TNotUnder a, TNotUnder b => N.eqb a b
  | TVarFound, TVarFound => true
  | _, _ => false
  end.

Definition xact_eqb (x y : xact) : bool :=
  match x, y with
  | XDeny, XDeny | XRedirect, XRedirect | XUseService, XUseService
  | XSetVar, XSetVar | XSetHeader, XSetHeader => true
  | XIntercept a, XIntercept b => name_eqb a b
  | _, _ => false
  end.

Definition xrule_eqb (x y : xrule) : bool :=
  xact_eqb (x_act x) (x_act y) && list_eqb term_eqb (x_if x) (x_if y).

Definition verdict_eqb (x y : verdict) : bool :=
  match x, y with
  | Served, Served | Denied, Denied | AnsweredByProxy, AnsweredByProxy => true
  | _, _ => false
  end.

Fixpoint last_ds (b : N) (cs : list ucall) (acc : list pdecl) : list pdecl :=
  match cs with
  | [] => acc
  | UBackend b' ds :: r => last_ds b r (if N.eqb b b' then ds else acc)
  | _ :: r => last_ds b r acc
  end.

Definition uses_ids (rs : list xrule) : bool :=
  existsb (fun r => existsb (fun t => match t with TIds _ => true | _ => false end) (x_if r)) rs.

Fixpoint nodup_n (l : list N) : bool :=
  match l with [] => true | x :: r => negb (existsb (N.eqb x) r) && nodup_n r end.

Definition final (c : ucase) : ustate :=
  fold_left (run_call (ulua c))
    (ucalls c)
    {| s_px := {| px_start := ustart c; px_end := uend c; px_binds := [] |}; s_hosts := []; s_backs := [] |}.

Definition ucase_ok (c : ucase) : bool :=
  let s := final c in
  list_eqb (pair_eqb N.eqb (list_eqb (pair_eqb N.eqb (opt_eqb auth_eqb)))) (s_hosts s) (uhosts c) &&
  list_eqb (pair_eqb N.eqb (list_eqb (pair_eqb N.eqb auth_eqb))) (s_backs s) (ubacks c) &&
  list_eqb (pair_eqb Z.eqb N.eqb) (map (fun b => (b_port b, b_target b)) (px_binds (s_px s))) (ubinds c) &&
  list_eqb rule_eqb
    (frontend_rules (flat_map (fun h => match assoc h (s_hosts s) with Some ps => ps | None => [] end) (uhorder c)))
    (ufront c) &&
  list_eqb (pair_eqb N.eqb (list_eqb rule_eqb))
    (map (fun b => (fst b, backend_rules (snd b))) (s_backs s)) (urules c) &&
  (* the template: generated rules = parsed rules *)
  list_eqb (pair_eqb N.eqb (list_eqb xrule_eqb))
    (map (fun x => (fst x, gen_auth_rules
            {| b_auth := match assoc (fst x) (s_backs s) with Some l => l | None => @nil (N * auth) end;
               b_cors := fst (snd x); b_extra := uextras c |})) (uxbacks c))
    (map (fun x => (fst x, snd (snd x))) (uxbacks c)) &&
  list_eqb xrule_eqb
    (gen_frontend_rules (uextras c)
       (flat_map (fun h => match assoc h (s_hosts s) with Some ps => ps | None => [] end) (uhorder c)))
    (uxfront c) &&
  (* the Go evaluator: same verdict as eval_rules on the parsed rules *)
  forallb (fun p : N * xreq * bool * verdict =>
     let '(b, q, ok, v) := p in
     let rules := if N.eqb b 0 then uxfront c
                  else match assoc b (uxbacks c) with Some x => snd x | None => @nil xrule end in
     verdict_eqb (eval_rules rules q (fun _ => if ok then OOk else ONon2xx) false) v) (uprobes c) &&
  (* the real idpath maps cover the paths of every backend whose rules test txn.pathID *)
  forallb (fun x : N * (list (N * cors) * list xrule) =>
     negb (uses_ids (snd (snd x))) ||
     let m := match assoc (fst x) (uidmaps c) with Some m => m | None => @nil (N * N) end in
     ids_coverb m (last_ds (fst x) (ucalls c) []) && nodup_n (map fst m)) (uxbacks c) &&
  (* the premise of C18_referenced_binds_survive: the real `used` set of every call (what
     Backends.BuildUsedAuthBackends answers plus the names held by the host paths, read when
     the call starts) is the set of the names referenced by all the backends of the state *)
  list_eqb (list_eqb Z.eqb)
    (map set_z (used_trace (ulua c)
       {| s_px := {| px_start := ustart c; px_end := uend c; px_binds := [] |}; s_hosts := []; s_backs := [] |}
       (ucalls c)))
    (map set_z (uused c)).

Definition mismatches (cs : list ucase) : list N :=
  map uid (filter (fun c => negb (ucase_ok c)) cs).
