(* Correspondence for C07.
   CCfg:   one history through the real controller: after every reconciliation the
           reference structure of the configuration it wrote, with the verdict of the Go
           reference analysis (harness/lib/c07/check.go): the verified checker must give
           the same verdict on each of them (true on every configuration of a tree
           without known findings).
   CNames: AddEndpoint / AddEmptyEndpoint run on a real hatypes.Backend: the server names.
   CPaths: AddBackendPath run on a real hatypes.Backend: (link, id) in id order.
   CAuth:  AcquireAuthBackendName / RemoveAuthBackend* run on a real hatypes.Frontend:
           after each call the port returned (None = error / nothing returned) and the
           bind list (backend, port) in order. *)
From Coq Require Export String Ascii List NArith ZArith Bool.
From HI Require Export Model.CfgRefs.
Export ListNotations.

Fixpoint of_codes (l : list N) : string :=
  match l with
  | [] => EmptyString
  | n :: r => String (ascii_of_N n) (of_codes r)
  end.

(* positional constructors used by the generated case files *)
Definition mk_dyn (maps defaults : list string) : dynref := {| d_maps := maps; d_defaults := defaults |}.
Definition mk_sec k n sv u ud df ab ul mp cl fl im iu us : section :=
  {| s_kind := k; s_name := n; s_servers := sv; s_use := u; s_usedyn := ud; s_default := df;
     s_authback := ab; s_userlists := ul; s_maps := mp; s_crtlists := cl; s_files := fl;
     s_idmaps := im; s_idsused := iu; s_useserver := us |}.
Definition mk_cfg ss ul mp cl fl ab ai asv : cfg :=
  {| c_sections := ss; c_userlists := ul; c_maps := mp; c_crtlists := cl; c_files := fl;
     c_authbinds := ab; c_authids := ai; c_authservers := asv |}.

Inductive c07case :=
| CCfg (id : N) (states : list (cfg * bool))
| CNames (id : N) (m : naming) (ops : list ep_op) (obs : list string)
| CPaths (id : N) (ops : list string) (obs : list (string * string))
| CAuth (id : N) (ops : list auth_op) (obs : list (option Z * list (string * Z))).

Definition case_id (c : c07case) : N :=
  match c with CCfg i _ | CNames i _ _ _ | CPaths i _ _ | CAuth i _ _ => i end.

Fixpoint slist_eqb (a b : list string) : bool :=
  match a, b with
  | [], [] => true
  | x :: a', y :: b' => String.eqb x y && slist_eqb a' b'
  | _, _ => false
  end.

Definition pair_eqb (a b : string * string) : bool := String.eqb (fst a) (fst b) && String.eqb (snd a) (snd b).
Fixpoint plist_eqb (a b : list (string * string)) : bool :=
  match a, b with
  | [], [] => true
  | x :: a', y :: b' => pair_eqb x y && plist_eqb a' b'
  | _, _ => false
  end.

Definition bz_eqb (a b : string * Z) : bool := String.eqb (fst a) (fst b) && Z.eqb (snd a) (snd b).
Fixpoint bzlist_eqb (a b : list (string * Z)) : bool :=
  match a, b with
  | [], [] => true
  | x :: a', y :: b' => bz_eqb x y && bzlist_eqb a' b'
  | _, _ => false
  end.
Definition oz_eqb (a b : option Z) : bool :=
  match a, b with Some x, Some y => Z.eqb x y | None, None => true | _, _ => false end.
Fixpoint trace_eqb (a b : list (option Z * list (string * Z))) : bool :=
  match a, b with
  | [], [] => true
  | x :: a', y :: b' => oz_eqb (fst x) (fst y) && bzlist_eqb (snd x) (snd y) && trace_eqb a' b'
  | _, _ => false
  end.

Definition case_ok (c : c07case) : bool :=
  match c with
  | CCfg _ states => forallb (fun st : cfg * bool => Bool.eqb (wellformed (fst st)) (snd st)) states
  | CNames _ m ops obs => slist_eqb (run_names m ops) obs
  | CPaths _ ops obs => plist_eqb (run_paths String.eqb (fun l => l) ops) obs
  | CAuth _ ops obs => trace_eqb (trace_auth [] ops) obs
  end.

Definition mismatches (cs : list c07case) : list N :=
  map case_id (filter (fun c => negb (case_ok c)) cs).
