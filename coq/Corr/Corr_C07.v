(* Correspondence for C07.
   CCfg:   one history through the real controller: after every reconciliation the
           reference structure of the configuration it wrote, with the verdict of the Go
           reference analysis (harness/lib/c07/check.go): the verified checker must give
           the same verdict on each of them (true on every configuration of a tree
           without known findings).
   CNames: AddEndpoint / AddEmptyEndpoint run on a real hatypes.Backend: the server names.
   CPaths: AddBackendPath run on a real hatypes.Backend: (link, id) in id order.
   CAuth:  AcquireAuthBackendName / RemoveAuthBackend* run on a real hatypes.Frontend:
           after each call the port returned (None = error / nothing returned) and the
           bind list (backend, port) in order.
   CTmpl:  one history through the real controller: after every reconciliation the model
           state the real instance holds (read from its Config() objects: hosts, backends,
           userlists, tcp services, auth proxy, global flags — Model/TmplRefs.v `tstate`)
           next to the sections and the references to sections PARSED from the files it
           wrote. `emitted_sections` / `references` of the observed state must be the parsed
           sections (as a multiset) / references (as a set), and the state must satisfy the
           invariants `st_inv` of theorem C07_template_refs_closed whenever the Go reference
           analysis found the written files sound (flag ok); the crt-list references of the
           binds must be `file_refs` and every file of `written_files` must be on disk.
           When the real code modified hosts in place after the frontend maps were last
           built (known finding C01/ingress-default-backend-not-pretracked: the files lag
           behind the objects) the hosts of the state are the ones the maps were built from
           and the flag is false. *)
From Coq Require Export String Ascii List NArith ZArith Bool.
From HI Require Export Model.CfgRefs Model.TmplRefs.
Export ListNotations.

Fixpoint of_codes (l : list N) : string :=
  match l with
  | [] => EmptyString
  | n :: r => String (ascii_of_N n) (of_codes r)
  end.

(* positional constructors used by the generated case files *)
Definition mk_dyn (maps defaults : list string) : dynref := {| d_maps := maps; d_defaults := defaults |}.
Definition mk_sec k n sv u ud df ab ul mp cl fl im iu us : section :=
  {| s_kind := k; s_name := n; s_servers := sv; s_use := u; s_usedyn := ud; s_default := df;
     s_authback := ab; s_userlists := ul; s_maps := mp; s_crtlists := cl; s_files := fl;
     s_idmaps := im; s_idsused := iu; s_useserver := us |}.
Definition mk_cfg ss ul mp cl fl ab ai asv : cfg :=
  {| c_sections := ss; c_userlists := ul; c_maps := mp; c_crtlists := cl; c_files := fl;
     c_authbinds := ab; c_authids := ai; c_authservers := asv |}.

Definition mk_tpath p b a : tpath := {| tp_path := p; tp_back := b; tp_auth := a |}.
Definition mk_thost n ps hp tls paths : thost :=
  {| th_name := n; th_pass := ps; th_httppass := hp; th_tls := tls; th_paths := paths |}.
Definition mk_tback i t ul au r : tback :=
  {| tb_id := i; tb_tcp := t; tb_userlists := ul; tb_auth := au; tb_resolver := r |}.
Definition mk_ttcp p hs d tls : ttcp := {| tt_port := p; tt_hosts := hs; tt_default := d; tt_tls := tls |}.
Definition mk_tbind n b : tbind := {| ab_name := n; ab_backend := b |}.
Definition mk_tstate hosts dh hp backs db uls res tcpb tcps an binds fm hn cl acme modsec prom : tstate :=
  {| ts_hosts := hosts; ts_defhost := dh; ts_haspass := hp; ts_backs := backs; ts_default := db;
     ts_userlists := uls; ts_resolvers := res; ts_tcpbacks := tcpb; ts_tcp := tcps;
     ts_authname := an; ts_binds := binds; ts_fmaps := fm; ts_httpsname := hn; ts_crtlist := cl;
     ts_acme := acme; ts_modsec := modsec; ts_prom := prom |}.

(* observed state, parsed sections, parsed references to sections, parsed crt-list references
   (section, file), files on disk, verdict of the Go reference analysis *)
Definition tobs := (tstate * list sid * list (string * sid) * list (string * string) * list string * bool)%type.

Inductive c07case :=
| CCfg (id : N) (states : list (cfg * bool))
| CNames (id : N) (m : naming) (ops : list ep_op) (obs : list string)
| CPaths (id : N) (ops : list string) (obs : list (string * string))
| CAuth (id : N) (ops : list auth_op) (obs : list (option Z * list (string * Z)))
| CTmpl (id : N) (states : list tobs).

Definition case_id (c : c07case) : N :=
  match c with CCfg i _ | CNames i _ _ _ | CPaths i _ _ | CAuth i _ _ | CTmpl i _ => i end.

Fixpoint slist_eqb (a b : list string) : bool :=
  match a, b with
  | [], [] => true
  | x :: a', y :: b' => String.eqb x y && slist_eqb a' b'
  | _, _ => false
  end.

Definition pair_eqb (a b : string * string) : bool := String.eqb (fst a) (fst b) && String.eqb (snd a) (snd b).
Fixpoint plist_eqb (a b : list (string * string)) : bool :=
  match a, b with
  | [], [] => true
  | x :: a', y :: b' => pair_eqb x y && plist_eqb a' b'
  | _, _ => false
  end.

Definition bz_eqb (a b : string * Z) : bool := String.eqb (fst a) (fst b) && Z.eqb (snd a) (snd b).
Fixpoint bzlist_eqb (a b : list (string * Z)) : bool :=
  match a, b with
  | [], [] => true
  | x :: a', y :: b' => bz_eqb x y && bzlist_eqb a' b'
  | _, _ => false
  end.
Definition oz_eqb (a b : option Z) : bool :=
  match a, b with Some x, Some y => Z.eqb x y | None, None => true | _, _ => false end.
Fixpoint trace_eqb (a b : list (option Z * list (string * Z))) : bool :=
  match a, b with
  | [], [] => true
  | x :: a', y :: b' => oz_eqb (fst x) (fst y) && bzlist_eqb (snd x) (snd y) && trace_eqb a' b'
  | _, _ => false
  end.

Definition sid_count (x : sid) (l : list sid) : nat := length (filter (sid_eqb x) l).
Definition sids_same (a b : list sid) : bool :=
  forallb (fun x => Nat.eqb (sid_count x a) (sid_count x b)) (a ++ b).
Definition ref_eqb (a b : string * sid) : bool := String.eqb (fst a) (fst b) && sid_eqb (snd a) (snd b).
Definition ref_mem (x : string * sid) (l : list (string * sid)) : bool := existsb (ref_eqb x) l.
Definition refs_same (a b : list (string * sid)) : bool :=
  forallb (fun x => ref_mem x b) a && forallb (fun x => ref_mem x a) b.

Definition fref_mem (x : string * string) (l : list (string * string)) : bool := existsb (pair_eqb x) l.
Definition frefs_same (a b : list (string * string)) : bool :=
  forallb (fun x => fref_mem x b) a && forallb (fun x => fref_mem x a) b.

Definition tobs_ok (o : tobs) : bool :=
  let '(st, secs, refs, frefs, files, ok) := o in
  sids_same (emitted_sections st) secs && refs_same (references st) refs &&
  frefs_same (file_refs st) frefs && forallb (fun f => mem f files) (written_files st) &&
  (negb ok || st_inv st).

Definition case_ok (c : c07case) : bool :=
  match c with
  | CCfg _ states => forallb (fun st : cfg * bool => Bool.eqb (wellformed (fst st)) (snd st)) states
  | CNames _ m ops obs => slist_eqb (run_names m ops) obs
  | CPaths _ ops obs => plist_eqb (run_paths String.eqb (fun l => l) ops) obs
  | CAuth _ ops obs => trace_eqb (trace_auth [] ops) obs
  | CTmpl _ states => forallb tobs_ok states
  end.

Definition mismatches (cs : list c07case) : list N :=
  map case_id (filter (fun c => negb (case_ok c)) cs).
