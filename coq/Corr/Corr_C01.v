(* Correspondence for C01 (and the hosts/backends/tls part of C03, C15): the harness ran a
   history through the real watchers + converter and recorded, after every reconciliation,
   the hosts (paths with the servers they reach, certificate) of the haproxy model. *)
From Coq Require Export List String ZArith NArith Bool.
From HI Require Export Model.Tracker Model.Conv Model.ConvDB Model.ConvAnn Model.ConvOrch.
Export ListNotations.
Open Scope string_scope.

Inductive cstep :=
| SFull (w : world)
| SPartial (w : world) (b : batch).

(* observation of one host: None = the host does not exist *)
Definition hobs := option (list (string * ptype * list (string * Z)) * option string).

Record ccase := { cid : N; csteps : list (cstep * list (string * hobs)) }.

Definition srv_eqb (a b : string * Z) : bool := String.eqb (fst a) (fst b) && Z.eqb (snd a) (snd b).

(* multiset equality of two lists, by removing one occurrence at a time *)
Fixpoint remove1 {A} (eqb : A -> A -> bool) (x : A) (l : list A) : option (list A) :=
  match l with
  | [] => None
  | y :: r => if eqb x y then Some r
              else match remove1 eqb x r with Some r' => Some (y :: r') | None => None end
  end.
Fixpoint mset_eqb {A} (eqb : A -> A -> bool) (a b : list A) : bool :=
  match a with
  | [] => match b with [] => true | _ => false end
  | x :: r => match remove1 eqb x b with Some b' => mset_eqb eqb r b' | None => false end
  end.

Definition path_eqb (a b : string * ptype * list (string * Z)) : bool :=
  let '(pa, ta, sa) := a in let '(pb, tb, sb) := b in
  String.eqb pa pb && ptype_eqb ta tb && mset_eqb srv_eqb sa sb.

Definition ostr_eqb (a b : option string) : bool :=
  match a, b with
  | None, None => true
  | Some x, Some y => String.eqb x y
  | _, _ => false
  end.

Definition hobs_eqb (a b : hobs) : bool :=
  match a, b with
  | None, None => true
  | Some (pa, ta), Some (pb, tb) => mset_eqb path_eqb pa pb && ostr_eqb ta tb
  | _, _ => false
  end.

Definition step_ok (x : st) (exp : list (string * hobs)) : bool :=
  forallb (fun e => hobs_eqb (obs_host (fst x) (fst e)) (snd e)) exp.

Fixpoint run_steps (x : st) (l : list (cstep * list (string * hobs))) : bool :=
  match l with
  | [] => true
  | (s, exp) :: r =>
      match (match s with
             | SFull w => Some (sync_full w)
             | SPartial w b => sync_partial w x b
             end) with
      | None => false
      | Some x' => step_ok x' exp && run_steps x' r
      end
  end.

Definition ccase_ok (c : ccase) : bool := run_steps (empty_state, []) (csteps c).

(* ---- the tracker alone: the real tracker.NewTracker() driven through its public API ---- *)
Inductive top :=
| TTrack (a b : node)                                   (* TrackRefs / TrackNames *)
| TQuery (input : list node) (remove : bool) (obs : list node)   (* QueryLinks, flattened *)
| TClear.                                               (* ClearLinks *)

Record tcase := { tid : N; tops : list top }.

Definition node_set_eqb (a b : list node) : bool := mset_eqb node_eqb a b.

Fixpoint run_tops (T : ctracker) (l : list top) : bool :=
  match l with
  | [] => true
  | TTrack a b :: r => run_tops (track T a b) r
  | TClear :: r => run_tops [] r
  | TQuery input rm obs :: r =>
      match query_remove node_eqb T input with
      | None => false
      | Some (out, T') => node_set_eqb out obs && run_tops (if rm then T' else T) r
      end
  end.

Definition tcase_ok (c : tcase) : bool := run_tops [] (tops c).

(* ---- histories with spec.defaultBackend, against Model/ConvDB.v (same observation) ---- *)
Inductive dstep :=
| DFull (w : dworld)
| DPartial (w : dworld) (b : dbatch).

Record dcase := { did : N; dsteps : list (dstep * list (string * hobs)) }.

Fixpoint run_dsteps (x : st) (l : list (dstep * list (string * hobs))) : bool :=
  match l with
  | [] => true
  | (s, exp) :: r =>
      match (match s with
             | DFull w => Some (sync_full_d w)
             | DPartial w b => sync_partial_d w x b
             end) with
      | None => false
      | Some x' => step_ok x' exp && run_dsteps x' r
      end
  end.

Definition dcase_ok (c : dcase) : bool := run_dsteps (empty_state, []) (dsteps c).

(* ---- histories with annotations, against Model/ConvAnn.v: the observation of Conv.v and,
        per host, the resolved values of the observed keys: host-scoped keys of the host,
        per path the backend-scoped keys of its backend (Mapper.Get) and the per-path
        keys (GetConfig(link)) ---- *)
Inductive astep :=
| AFull (w : aworld)
| APartial (w : aworld) (b : batch).

(* expected: values of host keys; per path (path, type, backend keys, per-path keys) *)
Definition aobs := option (list (string * string) * list (string * ptype * list (string * string) * list (string * string))).

Record xcase := { xid : N; xsteps : list (astep * list (string * hobs) * list (string * aobs)) }.

(* the defaults of the controller for the observed keys, and what a path shows for a per-path
   key when no updater ever configured it (the zero value of the Go field) *)
Definition adefault (k : string) : string :=
  if String.eqb k "balance-algorithm" then "roundrobin"
  else if String.eqb k "hsts-max-age" then "15768000"
  else "".
Definition aunapplied (k : string) : string :=
  if String.eqb k "hsts-max-age" then "0" else "".

Definition lookd (m : amap) (k : string) : string :=
  match assoc k m with Some v => v | None => adefault k end.
Definition plookd (m : option amap) (k : string) : string :=
  match m with Some a => lookd a k | None => aunapplied k end.

Definition kvs_ok (look : string -> string) (exp : list (string * string)) : bool :=
  forallb (fun kv => String.eqb (look (fst kv)) (snd kv)) exp.

Definition apath_ok (model : list (string * ptype * amap * option amap))
                    (e : string * ptype * list (string * string) * list (string * string)) : bool :=
  let '(pe, te, be, le) := e in
  match find (fun m => let '(pm, tm, _, _) := m in String.eqb pm pe && ptype_eqb tm te) model with
  | None => false
  | Some (_, _, bm, lm) => kvs_ok (lookd bm) be && kvs_ok (plookd lm) le
  end.

Definition aobs_ok (y : ast) (e : string * aobs) : bool :=
  match obs_ann y (fst e), snd e with
  | None, None => true
  | Some (hc, paths), Some (eh, ep) =>
      kvs_ok (lookd hc) eh && Nat.eqb (List.length paths) (List.length ep) && forallb (apath_ok paths) ep
  | _, _ => false
  end.

Fixpoint run_xsteps (y : ast) (l : list (astep * list (string * hobs) * list (string * aobs))) : bool :=
  match l with
  | [] => true
  | (s, exp, aexp) :: r =>
      match (match s with
             | AFull w => Some (sync_full_a w)
             | APartial w b => sync_partial_a w y b
             end) with
      | None => false
      | Some y' => step_ok (fst y') exp && forallb (aobs_ok y') aexp && run_xsteps y' r
      end
  end.

Definition xcase_ok (c : xcase) : bool := run_xsteps ((empty_state, []), fun _ => blank) (xsteps c).

(* ---- histories with Gateway API objects, against Model/ConvOrch.v: the first reconciliation
        is a full sync of both sources, every later one is sync_o (which decides between the
        full sync and the ingress partial sync); G's output for the cluster of a step is what a
        fresh controller builds for the gateway hostnames ---- *)
Inductive ostep :=
| OFull (w : oworld)
| OStep (w : oworld) (b : obatch).

Record ocase := { oid : N; osteps : list (ostep * list (string * hobs)) }.

Fixpoint run_osteps (x : st) (l : list (ostep * list (string * hobs))) : bool :=
  match l with
  | [] => true
  | (s, exp) :: r =>
      match (match s with
             | OFull w => Some (sync_full_o w)
             | OStep w b => sync_o w x b
             end) with
      | None => false
      | Some x' => step_ok x' exp && run_osteps x' r
      end
  end.

Definition ocase_ok (c : ocase) : bool := run_osteps (empty_state, []) (osteps c).

Inductive acase := CH (c : ccase) | CT (c : tcase) | CD (c : dcase) | CA (c : xcase) | CO (c : ocase).

Definition mismatches (cs : list acase) : list N :=
  flat_map (fun a => match a with
                     | CH c => if ccase_ok c then [] else [cid c]
                     | CT c => if tcase_ok c then [] else [tid c]
                     | CD c => if dcase_ok c then [] else [did c]
                     | CA c => if xcase_ok c then [] else [xid c]
                     | CO c => if ocase_ok c then [] else [oid c]
                     end) cs.

(* diagnostics: index of the first failing step and the hosts that differ there *)
Fixpoint first_bad (n : nat) (x : st) (l : list (cstep * list (string * hobs))) : option (nat * list string) :=
  match l with
  | [] => None
  | (s, exp) :: r =>
      match (match s with
             | SFull w => Some (sync_full w)
             | SPartial w b => sync_partial w x b
             end) with
      | None => Some (n, ["<query ran out of fuel>"])
      | Some x' =>
          let bad := map fst (filter (fun e => negb (hobs_eqb (obs_host (fst x') (fst e)) (snd e))) exp) in
          match bad with [] => first_bad (S n) x' r | _ => Some (n, bad) end
      end
  end.

Fixpoint first_bad_d (n : nat) (x : st) (l : list (dstep * list (string * hobs))) : option (nat * list string) :=
  match l with
  | [] => None
  | (s, exp) :: r =>
      match (match s with
             | DFull w => Some (sync_full_d w)
             | DPartial w b => sync_partial_d w x b
             end) with
      | None => Some (n, ["<query ran out of fuel>"])
      | Some x' =>
          let bad := map fst (filter (fun e => negb (hobs_eqb (obs_host (fst x') (fst e)) (snd e))) exp) in
          match bad with [] => first_bad_d (S n) x' r | _ => Some (n, bad) end
      end
  end.
