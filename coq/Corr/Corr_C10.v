(* Correspondence for C10: the harness built a set of GatewayClass / Gateway / HTTPRoute /
   TCPRoute / Namespace / Service / Endpoints objects, ran the real gateway converter over the
   real cache facade, and ran one sync per enabled API version and recorded the resulting host paths (PathLink hash -> backend id),
   backends (id -> servers ip, port, weight) and TCP services (port -> backend id).
   Maps are compared as sets, servers as multisets. *)
From Coq Require Export ZArith NArith List String Bool.
From HI Require Export Model.Gateway.
Export ListNotations.
Open Scope string_scope.

Definition of_codes (l : list N) : string :=
  fold_right (fun n s => String (Ascii.ascii_of_N n) s) EmptyString l.

(* gcls: the objects read by each enabled API version, in sync order *)
Record gcase := { gid : N; gcls : list cluster;
                  o_paths : list (string * string);
                  o_backs : list (string * list endpoint);
                  o_tcp : list (Z * string);
                  o_modetcp : list string;
                  o_pass : list string;
                  o_hpb : list (string * string) }.

Section Perm.
  Context {A : Type} (eqb : A -> A -> bool).
  Fixpoint remove_first (x : A) (l : list A) : option (list A) :=
    match l with
    | [] => None
    | y :: t => if eqb x y then Some t
                else match remove_first x t with Some t' => Some (y :: t') | None => None end
    end.
  Fixpoint perm_eqb (a b : list A) : bool :=
    match a with
    | [] => match b with [] => true | _ => false end
    | x :: t => match remove_first x b with Some b' => perm_eqb t b' | None => false end
    end.
End Perm.

Definition pair_eqb (a b : string * string) : bool := String.eqb (fst a) (fst b) && String.eqb (snd a) (snd b).
Definition ep_eqb (a b : endpoint) : bool :=
  let '(ia, pa, wa) := a in let '(ib, pb, wb) := b in String.eqb ia ib && Z.eqb pa pb && Z.eqb wa wb.
Definition back_eqb (a b : string * list endpoint) : bool :=
  String.eqb (fst a) (fst b) && perm_eqb ep_eqb (snd a) (snd b).
Definition tcp_eqb (a b : Z * string) : bool := Z.eqb (fst a) (fst b) && String.eqb (snd a) (snd b).

Definition gcase_ok (c : gcase) : bool :=
  let x := attach_versions (gcls c) in
  let st := x_core x in
  perm_eqb pair_eqb (st_paths st) (o_paths c)
  && perm_eqb back_eqb (st_backs st) (o_backs c)
  && perm_eqb tcp_eqb (st_tcp st) (o_tcp c)
  && perm_eqb String.eqb (x_modetcp x) (o_modetcp c)
  && perm_eqb String.eqb (x_pass x) (o_pass c)
  && perm_eqb pair_eqb (x_hpb x) (o_hpb c).

Definition mismatches (cs : list gcase) : list N :=
  map gid (filter (fun c => negb (gcase_ok c)) cs).
