(* Correspondence for C19.  One case = one run of the real updater:
   annotations.NewUpdater(cfg, {DisableKeywords: ckws}).UpdateBackendConfig on a new
   backend whose mapper received the AddAnnotations calls `cadds` (path index, value of
   config-backend) over the default `cdflt` (config-backend of the global ConfigMap);
   `cobs` = backend.CustomConfig afterwards (nil = []).
   `cglob` = the global-scope snippet keys given to the real UpdateGlobalConfig (run with
   the same keyword list) and the Custom* fields of haproxy's Global afterwards.
   `ctadds`/`ctdflt`/`ctobs`: the same for config-tcp-service through the real
   UpdateTCPPortConfig on a new TCPServicePort (tcp.CustomConfig).
   `cmore`: the further backends the SAME updater configured in the same reconciliation
   (before or after the first one), their annotations coming from several resources -- an
   Ingress and a Service may carry the same namespace/name: the decision of EVERY (source,
   snippet) pair of a reconciliation is compared with the model independently (the theorems of
   Snippet.v are per snippet: no verdict may leak from one resource or backend to another).
   `cwritten` (cases that also run the real templates and writeToDisk): the bytes found in
   the written haproxy.cfg between the line the template emits before the snippets of the
   backend (a cookie line the harness provokes) and the line after them (a config-proxy
   line): they must be `written` of the emitted lines, byte for byte -- write = identity. *)
From Coq Require Export NArith List String.
From HI Require Export Lib.Snippet_Strs Model.Snippet.
Export ListNotations.

Record ccase := {
  cid : N; ckws : list string; cadds : list (N * string); cdflt : option string;
  cobs : list string; cglob : option (global_keys * global_out);
  ctadds : list (N * string); ctdflt : option string; ctobs : list string;
  cwritten : option string;
  cmore : list (list (N * string) * list string) }.

Definition gout_eqb (a b : global_out) : bool :=
  str_list_eqb (o_global a) (o_global b) && str_list_eqb (o_defaults a) (o_defaults b) &&
  str_list_eqb (o_fe_early a) (o_fe_early b) && str_list_eqb (o_fe_late a) (o_fe_late b) &&
  str_list_eqb (o_sections a) (o_sections b) && str_list_eqb (o_tcp a) (o_tcp b).

Definition ccase_ok (c : ccase) : bool :=
  str_list_eqb (backend_custom (ckws c) (cadds c) (cdflt c)) (cobs c) &&
  str_list_eqb (tcp_custom (ckws c) (ctadds c) (ctdflt c)) (ctobs c) &&
  forallb (fun m : list (N * string) * list string =>
             str_list_eqb (backend_custom (ckws c) (fst m) (cdflt c)) (snd m)) (cmore c) &&
  match cwritten c with
  | None => true
  | Some w => String.eqb w (written (backend_custom (ckws c) (cadds c) (cdflt c)))
  end &&
  match cglob c with
  | None => true
  | Some (g, o) => gout_eqb (global_custom (ckws c) g) o
  end.

Definition mismatches (cs : list ccase) : list N :=
  map cid (filter (fun c => negb (ccase_ok c)) cs).
