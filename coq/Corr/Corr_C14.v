(* Correspondence for C14: the harness fired a sequential history of events through the
   REAL watchers (hook VerifNewWatchers / Fire* / Swap / Notifications) and recorded, per
   event, how many handlers accepted it and the queue notifications it produced, and per
   swap the delivered batch projected to: the four ConfigMap data tokens, the fifteen
   per-kind lists as object ids (order kept: append order), NeedFullSync, Objects (order
   kept), Links per resource type (names in order; resource types sorted by the harness,
   Go map). The per-swap observation is a deep snapshot taken at delivery; all delivered
   batches are read again at the end of the history (wfinal). *)
From Coq Require Export ZArith NArith List Bool String.
From HI Require Export Model.Watch Model.WatchLegacy.
Export ListNotations.
Open Scope string_scope.
Open Scope list_scope.

Record obatch := {
  b_gcur : option N; b_gnew : option N; b_tcur : option N; b_tnew : option N;
  b_lists : list (lname * list N);
  b_full : bool;
  b_objects : list string;
  b_links : list (string * list string)
}.

Inductive wobs :=
| OEv (accepted : N) (notifs : list bool)
| OSwap (b : obatch).

(* wfinal: every delivered batch, kept by the harness as the pointer getChangedObjects
   returned, read AGAIN after the whole history was fired: a later event must never change
   a delivered batch (no shared backing array, no write into a delivered map) *)
Record wcase := { wid : N; wcfg : config; wsteps : list step; wobs_l : list wobs;
                  wfinal : list obatch }.

Definition all_lnames : list lname :=
  [IngAdd; IngUpd; IngDel; GwA2Add; GwA2Upd; GwA2Del; GwcA2Add; GwcA2Upd; GwcA2Del;
   GwB1Add; GwB1Upd; GwB1Del; GwcB1Add; GwcB1Upd; GwcB1Del].

Definition optN_eqb (a b : option N) : bool :=
  match a, b with
  | None, None => true
  | Some x, Some y => N.eqb x y
  | _, _ => false
  end.

Fixpoint listN_eqb (a b : list N) : bool :=
  match a, b with
  | [], [] => true
  | x :: a', y :: b' => N.eqb x y && listN_eqb a' b'
  | _, _ => false
  end.

Fixpoint liststr_eqb (a b : list string) : bool :=
  match a, b with
  | [], [] => true
  | x :: a', y :: b' => String.eqb x y && liststr_eqb a' b'
  | _, _ => false
  end.

Fixpoint listbool_eqb (a b : list bool) : bool :=
  match a, b with
  | [], [] => true
  | x :: a', y :: b' => Bool.eqb x y && listbool_eqb a' b'
  | _, _ => false
  end.

Fixpoint obs_list (ln : lname) (l : list (lname * list N)) : list N :=
  match l with
  | [] => []
  | (ln', ids) :: r => if lname_eqb ln ln' then ids else obs_list ln r
  end.

Definition batch_ok (m : chg) (o : obatch) : bool :=
  optN_eqb (c_gcur m) (b_gcur o) && optN_eqb (c_gnew m) (b_gnew o) &&
  optN_eqb (c_tcur m) (b_tcur o) && optN_eqb (c_tnew m) (b_tnew o) &&
  forallb (fun ln => listN_eqb (list_of ln m) (obs_list ln (b_lists o))) all_lnames &&
  (* nothing observed outside the fifteen lists *)
  Nat.eqb (List.length (c_desc m)) (List.length (List.concat (map snd (b_lists o)))) &&
  Bool.eqb (c_full m) (b_full o) &&
  liststr_eqb (c_objects m) (b_objects o) &&
  forallb (fun p : string * list string => liststr_eqb (links_get (fst p) (c_links m)) (snd p)) (b_links o) &&
  Nat.eqb (List.length (c_links m)) (List.length (b_links o)).

Fixpoint wcheck (cfg : config) (st : wstate) (steps : list step) (obs : list wobs) : bool :=
  match steps, obs with
  | [], [] => true
  | Ev e :: steps', OEv n notifs :: obs' =>
      let st' := wstep cfg st (Ev e) in
      N.eqb n (if accepted cfg e then 1 else 0)%N &&
      listbool_eqb (skipn (List.length (w_notifs st)) (w_notifs st')) notifs &&
      wcheck cfg st' steps' obs'
  | Swap :: steps', OSwap b :: obs' =>
      let st' := wstep cfg st Swap in
      match List.last (map Some (w_batches st')) None with
      | Some m => batch_ok m b
      | None => false
      end && wcheck cfg st' steps' obs'
  | _, _ => false
  end.

Fixpoint batches_ok (ms : list chg) (os : list obatch) : bool :=
  match ms, os with
  | [], [] => true
  | m :: ms', o :: os' => batch_ok m o && batches_ok ms' os'
  | _, _ => false
  end.

Definition wcase_ok (c : wcase) : bool :=
  wcheck (wcfg c) w_init (wsteps c) (wobs_l c) &&
  batches_ok (w_batches (wrun (wcfg c) (wsteps c))) (wfinal c).

(* ---------- legacy controller (pkg/controller/legacy/cache.go) ----------
   The harness called the REAL k8scache.Notify / SwapChangedObjects (hook VerifNewLegacyEvents)
   on a sequential history and recorded, per Notify, the flag `clear` afterwards, and per swap
   the delivered batch: ConfigMap data tokens, the 27 slices as object ids, NeedFullSync,
   Objects and Links (both in order; Links per resource type, sorted by the harness). gfinal
   are all delivered batches read again at the end, gnotifs the number of update-queue
   notifications.
   Atomicity of Notify and of SwapChangedObjects (each entirely under stateMutex.Lock) is
   ASSUMED by the model and TESTED by the concurrent legacy stream of the harness: a swap
   that copies and resets in two critical sections breaks that assumption, so it is the
   oracle (C14/legacy/...), not a theorem or this comparison, that reports it. *)
Record lbatch := {
  lb_gcur : option N; lb_gnew : option N; lb_tcur : option N; lb_tnew : option N;
  lb_lists : list (llist * list N);
  lb_full : bool;
  lb_objects : list string;
  lb_links : list (string * list string)
}.

Inductive lobs :=
| LOEv (clear_after : bool)
| LOSwap (b : lbatch).

Record legcase := { gid : N; gcfg : lcfg; gsteps : list lstep; gobs : list lobs;
                    gfinal : list lbatch; gnotifs : N }.

Fixpoint lobs_list (ln : llist) (l : list (llist * list N)) : list N :=
  match l with
  | [] => []
  | (ln', ids) :: r => if llist_eqb ln ln' then ids else lobs_list ln r
  end.

Definition all_res : list string :=
  ["Ingress"; "IngressClass"; "Gateway"; "GatewayClass"; "HTTPRoute"; "Endpoints"; "Service";
   "Secret"; "ConfigMap"; "Pod"].

Definition lbatch_ok (m : lchg) (o : lbatch) : bool :=
  optN_eqb (lc_gcur m) (lb_gcur o) && optN_eqb (lc_gnew m) (lb_gnew o) &&
  optN_eqb (lc_tcur m) (lb_tcur o) && optN_eqb (lc_tnew m) (lb_tnew o) &&
  forallb (fun ln => listN_eqb (map lo_id (llist_of ln (lc_desc m))) (lobs_list ln (lb_lists o))) all_llists &&
  Nat.eqb (List.length (lc_desc m)) (List.length (List.concat (map snd (lb_lists o)))) &&
  Bool.eqb (lc_full m) (lb_full o) &&
  liststr_eqb (lobjects m) (lb_objects o) &&
  forallb (fun p : string * list string => liststr_eqb (llinks (fst p) m) (snd p)) (lb_links o) &&
  Nat.eqb (List.length (filter (fun r => match llinks r m with [] => false | _ => true end) all_res))
          (List.length (lb_links o)).

Fixpoint lcheck (cfg : lcfg) (st : lstate) (steps : list lstep) (obs : list lobs) : bool :=
  match steps, obs with
  | [], [] => true
  | LEv e :: steps', LOEv c :: obs' =>
      let st' := lstepf cfg st (LEv e) in
      Bool.eqb (l_clear st') c && lcheck cfg st' steps' obs'
  | LSwap :: steps', LOSwap b :: obs' =>
      let st' := lstepf cfg st LSwap in
      match List.last (map Some (l_batches st')) None with
      | Some m => lbatch_ok m b
      | None => false
      end && lcheck cfg st' steps' obs'
  | _, _ => false
  end.

Fixpoint lbatches_ok (ms : list lchg) (os : list lbatch) : bool :=
  match ms, os with
  | [], [] => true
  | m :: ms', o :: os' => lbatch_ok m o && lbatches_ok ms' os'
  | _, _ => false
  end.

Definition legcase_ok (c : legcase) : bool :=
  lcheck (gcfg c) l_init (gsteps c) (gobs c) &&
  lbatches_ok (l_batches (lrun (gcfg c) (gsteps c))) (gfinal c) &&
  N.eqb (N.of_nat (l_notifs (lrun (gcfg c) (gsteps c)))) (gnotifs c).

Inductive ccase14 := WC (c : wcase) | LG (c : legcase).

Definition case_ok14 (c : ccase14) : bool :=
  match c with WC c => wcase_ok c | LG c => legcase_ok c end.
Definition case_id14 (c : ccase14) : N := match c with WC c => wid c | LG c => gid c end.

Definition mismatches (cs : list ccase14) : list N :=
  map case_id14 (filter (fun c => negb (case_ok14 c)) cs).
