(* Correspondence for C14: the harness fired a sequential history of events through the
   REAL watchers (hook VerifNewWatchers / Fire* / Swap / Notifications) and recorded, per
   event, how many handlers accepted it and the queue notifications it produced, and per
   swap the delivered batch projected to: the four ConfigMap data tokens, the fifteen
   per-kind lists as object ids (order kept: append order), NeedFullSync, Objects (order
   kept), Links per resource type (names in order; resource types sorted by the harness,
   Go map). The per-swap observation is a deep snapshot taken at delivery; all delivered
   batches are read again at the end of the history (wfinal). *)
From Coq Require Export ZArith NArith List Bool String.
From HI Require Export Model.Watch.
Export ListNotations.
Open Scope string_scope.
Open Scope list_scope.

Record obatch := {
  b_gcur : option N; b_gnew : option N; b_tcur : option N; b_tnew : option N;
  b_lists : list (lname * list N);
  b_full : bool;
  b_objects : list string;
  b_links : list (string * list string)
}.

Inductive wobs :=
| OEv (accepted : N) (notifs : list bool)
| OSwap (b : obatch).

(* wfinal: every delivered batch, kept by the harness as the pointer getChangedObjects
   returned, read AGAIN after the whole history was fired: a later event must never change
   a delivered batch (no shared backing array, no write into a delivered map) *)
Record wcase := { wid : N; wcfg : config; wsteps : list step; wobs_l : list wobs;
                  wfinal : list obatch }.

Definition all_lnames : list lname :=
  [IngAdd; IngUpd; IngDel; GwA2Add; GwA2Upd; GwA2Del; GwcA2Add; GwcA2Upd; GwcA2Del;
   GwB1Add; GwB1Upd; GwB1Del; GwcB1Add; GwcB1Upd; GwcB1Del].

Definition optN_eqb (a b : option N) : bool :=
  match a, b with
  | None, None => true
  | Some x, Some y => N.eqb x y
  | _, _ => false
  end.

Fixpoint listN_eqb (a b : list N) : bool :=
  match a, b with
  | [], [] => true
  | x :: a', y :: b' => N.eqb x y && listN_eqb a' b'
  | _, _ => false
  end.

Fixpoint liststr_eqb (a b : list string) : bool :=
  match a, b with
  | [], [] => true
  | x :: a', y :: b' => String.eqb x y && liststr_eqb a' b'
  | _, _ => false
  end.

Fixpoint listbool_eqb (a b : list bool) : bool :=
  match a, b with
  | [], [] => true
  | x :: a', y :: b' => Bool.eqb x y && listbool_eqb a' b'
  | _, _ => false
  end.

Fixpoint obs_list (ln : lname) (l : list (lname * list N)) : list N :=
  match l with
  | [] => []
  | (ln', ids) :: r => if lname_eqb ln ln' then ids else obs_list ln r
  end.

Definition batch_ok (m : chg) (o : obatch) : bool :=
  optN_eqb (c_gcur m) (b_gcur o) && optN_eqb (c_gnew m) (b_gnew o) &&
  optN_eqb (c_tcur m) (b_tcur o) && optN_eqb (c_tnew m) (b_tnew o) &&
  forallb (fun ln => listN_eqb (list_of ln m) (obs_list ln (b_lists o))) all_lnames &&
  (* nothing observed outside the fifteen lists *)
  Nat.eqb (List.length (c_desc m)) (List.length (List.concat (map snd (b_lists o)))) &&
  Bool.eqb (c_full m) (b_full o) &&
  liststr_eqb (c_objects m) (b_objects o) &&
  forallb (fun p : string * list string => liststr_eqb (links_get (fst p) (c_links m)) (snd p)) (b_links o) &&
  Nat.eqb (List.length (c_links m)) (List.length (b_links o)).

Fixpoint wcheck (cfg : config) (st : wstate) (steps : list step) (obs : list wobs) : bool :=
  match steps, obs with
  | [], [] => true
  | Ev e :: steps', OEv n notifs :: obs' =>
      let st' := wstep cfg st (Ev e) in
      N.eqb n (if accepted cfg e then 1 else 0)%N &&
      listbool_eqb (skipn (List.length (w_notifs st)) (w_notifs st')) notifs &&
      wcheck cfg st' steps' obs'
  | Swap :: steps', OSwap b :: obs' =>
      let st' := wstep cfg st Swap in
      match List.last (map Some (w_batches st')) None with
      | Some m => batch_ok m b
      | None => false
      end && wcheck cfg st' steps' obs'
  | _, _ => false
  end.

Fixpoint batches_ok (ms : list chg) (os : list obatch) : bool :=
  match ms, os with
  | [], [] => true
  | m :: ms', o :: os' => batch_ok m o && batches_ok ms' os'
  | _, _ => false
  end.

Definition wcase_ok (c : wcase) : bool :=
  wcheck (wcfg c) w_init (wsteps c) (wobs_l c) &&
  batches_ok (w_batches (wrun (wcfg c) (wsteps c))) (wfinal c).

Definition mismatches (cs : list wcase) : list N :=
  map wid (filter (fun c => negb (wcase_ok c)) cs).
